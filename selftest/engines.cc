// Positive / negative controls for the analysis engines. Extracted with the same extractor and flags on every check
// run (cached by content hash); each control below must be judged exactly as its comment says, otherwise the check
// exits 2 (analysis broken). This file is never compiled into anything.
#include <stdexcept>
#include <vector>
#include <map>
#include <cstdio>
#include <cstdlib>

struct Rec { int a; int b; std::vector<int> v; int* p; };

// ---- write-set engine
void ws_callee(Rec& r) { r.b = 1; }
void ws_writer(Rec& r, int& x, int y) {
    auto& alias = r.a;
    alias = 2;            // write through a reference alias      -> r.a
    ws_callee(r);         // write through a resolved callee      -> r.b
    r.v.push_back(1);     // non-const member call on a field     -> r.v
    *r.p = 3;             // write through a pointer field        -> r.p.*
    x++;                  // by-reference parameter               -> x
    y = 7;                // by-value parameter: NOT visible
}
int ws_reader(const Rec& r) { return r.a + r.v.at(0) + (int)r.v.size(); }   // writes nothing

// ---- exception engine
void ex_thrower(int k) { if (k) throw std::runtime_error("x"); }
void ex_caught(int k) { try { ex_thrower(k); } catch (const std::exception&) { } }                 // nothing escapes
void ex_wrong_handler(int k) { try { ex_thrower(k); } catch (const std::logic_error&) { } }        // std::runtime_error escapes
void ex_rethrow(int k) { try { ex_thrower(k); } catch (const std::exception&) { throw; } }          // std::runtime_error escapes
void ex_catch_all(int k) { try { ex_thrower(k); } catch (...) { } }                                 // nothing escapes
typedef void (*fn_t)(int);
static const fn_t table[] = { ex_thrower, nullptr };
void ex_indirect(int k) { table[0](k); }                                                            // escapes through a function-pointer table

// ---- CFG: dominance, guards, must-pass
int cfg_use(int);
int cfg_guarded(int x) {
    if (x < 3) return 0;
    return cfg_use(x);            // guarded by !(x < 3)
}
int cfg_shortcircuit(int a, int b) {
    if (a > 0 && b > 0) return cfg_use(a);     // guarded by (a > 0) and (b > 0)
    return 0;
}
bool cfg_reject(int x, int* err) {
    if (x > 10) { *err = 1; return false; }    // every path from the true edge ends in `return false`
    cfg_use(x);
    return true;
}
int cfg_noreturn(int x) {
    if (x < 0) { std::abort(); }
    return cfg_use(x);            // abort() cuts the path: guarded by !(x < 0)
}

// ---- purity
bool pure_check(const Rec& r, int* err) { if (r.a > 3) { *err = 1; return false; } return true; }   // check-only (error sink exempt is by name 'serror' only: here *err counts)
void impure(Rec& r) { if (r.a > 3) { r.b = 0; } }                                                    // region writes r.b

// ---- finite-domain evaluator
unsigned fd_expr(unsigned h) { return (h == 0) ? 1u : (h & 3u); }

// ---- G-SYM (term evaluator): spellings that must coincide, and changes that must not
struct Hs { Hs& operator<<(int); Hs& operator<<(unsigned char); int fin(); };
struct Tx { std::vector<int> vin; int ver; };
int sym_inline(const Tx& t, int k) { Hs h; h << t.ver << (unsigned char)k; return h.fin(); }
static void sym_tail(Hs& h, int k) { h << (unsigned char)k; }
int sym_helper(const Tx& t, int k) { Hs h; h << t.ver; const int kk = k; sym_tail(h, kk); return h.fin(); }     // same term as sym_inline
int sym_swapped(const Tx& t, int k) { Hs h; h << (unsigned char)k << t.ver; return h.fin(); }                  // different term
int sym_widened(const Tx& t, int k) { Hs h; h << t.ver << k; return h.fin(); }                                  // same values, different type: different term
int sym_range(const Tx& t) { Hs h; for (const auto& x : t.vin) h << x; return h.fin(); }
int sym_index(const Tx& t) { Hs h; for (size_t i = 0; i < t.vin.size(); ++i) { h << t.vin[i]; } return h.fin(); }   // same term as sym_range
int sym_cond_if(int a, int b, bool c) { int r; if (c) r = a; else r = b; return r + 1; }
int sym_cond_q(int a, int b, bool c) { return 1 + (c ? a : b); }                                                // same outcomes as sym_cond_if
bool sym_acc(const Tx& t) { bool any = false; for (size_t i = 0; i < t.vin.size(); ++i) any |= (t.vin[i] != 0); return any; }    // accumulates: refers to prev
bool sym_last(const Tx& t) { bool any = false; for (size_t i = 0; i < t.vin.size(); ++i) any = (t.vin[i] != 0); return any; }    // overwrites: no prev
int sym_off_a(const unsigned char* p, int i) { return p[33 + 32 * i]; }
int sym_off_b(const unsigned char* p, int i) { const int o = 32 * i; return *(p + o + 33); }                    // same location
