#!/usr/bin/env python3
import hashlib, os, pty, struct, subprocess, sys

TREE = os.path.abspath(sys.argv[1] if len(sys.argv) > 1 else '.')
BTCDEB = os.path.join(TREE, 'btcdeb')

def run(args):
    """Run btcdeb with a terminal on stdin (so the script comes from argv) and pipes on stdout/stderr
    (so it runs the script to the end and prints the final stack / the error)."""
    m, s = pty.openpty()
    try:
        p = subprocess.run([BTCDEB] + args, stdin=s, stdout=subprocess.PIPE, stderr=subprocess.PIPE, timeout=120)
    finally:
        os.close(m); os.close(s)
    return p.returncode, p.stdout.decode(errors='replace'), p.stderr.decode(errors='replace')

def push(b):
    n = len(b)
    if n < 76: return bytes([n]) + b
    if n < 256: return bytes([76, n]) + b
    return bytes([77]) + struct.pack('<H', n) + b

def sha256(b): return hashlib.sha256(b).digest()
def dsha(b): return sha256(sha256(b))
def varint(n):
    if n < 253: return bytes([n])
    if n < 65536: return b'\xfd' + struct.pack('<H', n)
    return b'\xfe' + struct.pack('<I', n)

def ser_tx(vin, vout, witness=None):
    r = struct.pack('<i', 2)
    if witness: r += b'\x00\x01'
    r += varint(len(vin))
    for h, n, ss, seq in vin: r += h + struct.pack('<I', n) + varint(len(ss)) + ss + struct.pack('<I', seq)
    r += varint(len(vout))
    for v, spk in vout: r += struct.pack('<q', v) + varint(len(spk)) + spk
    if witness:
        for st in witness:
            r += varint(len(st))
            for it in st: r += varint(len(it)) + it
    return r + struct.pack('<I', 0)

def make_pair(spk, scriptSig=b'', wstack=None):
    """(--tx, --txin) hex: txin has one output paying to spk, tx spends it with scriptSig / witness."""
    txin = ser_tx([(b'\x00' * 32, 0xffffffff, b'\x51', 0xffffffff)], [(100000, spk)])
    tx = ser_tx([(dsha(txin), 0, scriptSig, 0xffffffff)], [(99000, b'\x51')], witness=[wstack] if wstack else None)
    return ['--tx=' + tx.hex(), '--txin=' + txin.hex()]

def last_err(err):
    lines = [l for l in err.strip().splitlines() if l.strip()]
    return lines[-1] if lines else ''

# Consensus: EvalScript rejects any legacy script longer than 10,000 bytes with SCRIPT_ERR_SCRIPT_SIZE, and
# VerifyScript calls EvalScript for the scriptSig AND for the scriptPubKey: a 10,001-byte scriptPubKey can never
# be spent, a 10,000-byte one can.
DROP, ONE = b'\x75', b'\x51'
def sized(n):
    """n-byte script: (<520 bytes> OP_DROP) x 19, <filler> OP_DROP, OP_1 -- 20 counted ops, minimal pushes."""
    s = (push(b'\x07' * 520) + DROP) * 19
    m = n - len(s) - 3
    assert 1 < m < 76
    s += push(b'\x07' * m) + DROP + ONE
    assert len(s) == n
    return s
bad = []
for sig_name, sig in (('OP_1', ONE), ('empty', b'')):
    for n in (9999, 10000, 10001):
        rc, out, err = run(make_pair(sized(n), sig))
        want_ok = n <= 10000
        got = 'success' if rc == 0 else 'failure (%s)' % last_err(err)
        print('legacy spend, scriptSig %-5s, scriptPubKey of %5d bytes: expected %s, got %s' % (sig_name, n, 'success' if want_ok else 'failure (Script is too big)', got))
        if want_ok != (rc == 0) or (not want_ok and 'too big' not in err.lower()):
            bad.append((sig_name, n, got))
# the very same 10,001-byte script given directly is refused (shows the limit exists, but only for the first script)
rc, out, err = run(['0x' + sized(10001).hex()])
print('same 10001-byte script given on the command line: %s' % ('success' if rc == 0 else 'failure (%s)' % last_err(err)))
if bad:
    print('VIOLATION: the 10,000-byte script size limit is not enforced in the scriptPubKey phase:', bad)
    sys.exit(1)
print('no violation')
sys.exit(0)
