#!/usr/bin/env python3
# A valid taproot key-path spend that carries an annex must verify.
import sys, os
sys.path.insert(0, os.path.dirname(os.path.abspath(__file__)))
from txlib import *
T = os.path.abspath(sys.argv[1] if len(sys.argv) > 1 else '.')
dest = TxOut(90000, b'\x00\x14' + b'\x11' * 20)
d = 0x1234567890abcdef1234567890abcdef1234567890abcdef1234567890abcdef
xo = pub_xonly(d)

bad = 0
def case(name, tx, fund, expect_valid, why):
    global bad
    rc, out, err = run_btcdeb(T, tx, fund)
    got = accepted(rc, out)
    ok = got == expect_valid
    print("%-4s %-46s consensus: %-7s btcdeb: %s (exit %d%s)" % ("ok" if ok else "DIFF", name,
          "valid" if expect_valid else "INVALID", "accepts" if got else "rejects", rc,
          ", final stack %r" % out.split('\n')[:-1] if rc == 0 else ": " + (err.strip().splitlines() or [''])[-1]))
    if not ok:
        print("       " + why); bad += 1

# key path (BIP86-style output key: internal key tweaked with an empty merkle root)
q, _ = taproot_output_key(xo)
dq = taproot_tweak_seckey(d)
assert pub_xonly(dq) == q
fund = funding_tx([(b'\x51\x20' + q, 100000)])
tx = Tx([TxIn(fund.hash(), 0)], [dest])
tx.vin[0].witness = [schnorr_sign(dq, sighash_bip341(tx, 0, fund.vout))]
case("key path, witness [sig]", tx, fund, True, "plain key-path spend")
annex = b'\x50' + b'annex'
sig = schnorr_sign(dq, sighash_bip341(tx, 0, fund.vout, annex=annex))
tx.vin[0].witness = [sig, annex]
case("key path, witness [sig, annex]", tx, fund, True,
     "BIP341: a last witness item starting with 0x50 is the annex; it is removed, committed to by the sighash, and the remaining single item is the key-path signature")
tx.vin[0].witness = [schnorr_sign(dq, sighash_bip341(tx, 0, fund.vout)), annex]
case("key path, [sig not committing to annex, annex]", tx, fund, False, "the signature must commit to the annex")

# for comparison: script path with annex (shows the signer's annex sighash is the one the tree computes)
script = b'\x20' + xo + b'\xac'
lh = tapleaf_hash(script)
q2, parity = taproot_output_key(xo, lh)
fund = funding_tx([(b'\x51\x20' + q2, 100000)])
tx = Tx([TxIn(fund.hash(), 0)], [dest])
tx.vin[0].witness = [schnorr_sign(d, sighash_bip341(tx, 0, fund.vout, leaf_hash=lh, annex=annex)), script, bytes([0xc0 | parity]) + xo, annex]
case("script path, witness [sig, script, control, annex]", tx, fund, True, "script-path spend with annex")
sys.exit(1 if bad else 0)
