# Minimal, independent (pure python) Bitcoin transaction builder / signer.
# secp256k1, ECDSA (RFC6979-free: deterministic nonce via sha256), BIP340 Schnorr,
# legacy / BIP143 / BIP341 signature hashes.
import hashlib, struct

def sha256(b): return hashlib.sha256(b).digest()
def dsha(b): return sha256(sha256(b))
def ripemd160(b): return hashlib.new('ripemd160', b).digest()
def hash160(b): return ripemd160(sha256(b))
def tagged(tag, b):
    t = sha256(tag.encode())
    return sha256(t + t + b)

P = 0xFFFFFFFFFFFFFFFFFFFFFFFFFFFFFFFFFFFFFFFFFFFFFFFFFFFFFFFEFFFFFC2F
N = 0xFFFFFFFFFFFFFFFFFFFFFFFFFFFFFFFEBAAEDCE6AF48A03BBFD25E8CD0364141
G = (0x79BE667EF9DCBBAC55A06295CE870B07029BFCDB2DCE28D959F2815B16F81798,
     0x483ADA7726A3C4655DA4FBFC0E1108A8FD17B448A68554199C47D08FFB10D4B8)

def padd(a, b):
    if a is None: return b
    if b is None: return a
    if a[0] == b[0] and (a[1] + b[1]) % P == 0: return None
    if a == b: l = 3 * a[0] * a[0] * pow(2 * a[1], P - 2, P) % P
    else: l = (b[1] - a[1]) * pow(b[0] - a[0], P - 2, P) % P
    x = (l * l - a[0] - b[0]) % P
    return (x, (l * (a[0] - x) - a[1]) % P)

def pmul(k, pt=G):
    r = None
    while k:
        if k & 1: r = padd(r, pt)
        pt = padd(pt, pt); k >>= 1
    return r

def lift_x(x):
    y2 = (pow(x, 3, P) + 7) % P
    y = pow(y2, (P + 1) // 4, P)
    if y * y % P != y2: return None
    return (x, y if y % 2 == 0 else P - y)

def pub_compressed(d):
    x, y = pmul(d)
    return bytes([2 + (y & 1)]) + x.to_bytes(32, 'big')

def pub_xonly(d):
    return pmul(d)[0].to_bytes(32, 'big')

def der(r, s):
    def enc(v):
        b = v.to_bytes(33, 'big').lstrip(b'\0')
        if b[0] & 0x80: b = b'\0' + b
        return b'\x02' + bytes([len(b)]) + b
    body = enc(r) + enc(s)
    return b'\x30' + bytes([len(body)]) + body

def ecdsa_sign(d, msg32, hashtype=1):
    z = int.from_bytes(msg32, 'big')
    k = int.from_bytes(sha256(d.to_bytes(32, 'big') + msg32 + b'nonce'), 'big') % N or 1
    r = pmul(k)[0] % N
    s = pow(k, N - 2, N) * (z + r * d) % N
    if s > N // 2: s = N - s
    return der(r, s) + bytes([hashtype])

def schnorr_sign(d, msg32, aux=b'\0' * 32):
    Pt = pmul(d)
    if Pt[1] & 1: d = N - d
    t = (d ^ int.from_bytes(tagged('BIP0340/aux', aux), 'big')).to_bytes(32, 'big')
    px = Pt[0].to_bytes(32, 'big')
    k = int.from_bytes(tagged('BIP0340/nonce', t + px + msg32), 'big') % N
    R = pmul(k)
    if R[1] & 1: k = N - k
    rx = R[0].to_bytes(32, 'big')
    e = int.from_bytes(tagged('BIP0340/challenge', rx + px + msg32), 'big') % N
    return rx + ((k + e * d) % N).to_bytes(32, 'big')

def taproot_tweak_seckey(d, merkle_root=b''):
    Pt = pmul(d)
    if Pt[1] & 1: d = N - d
    t = int.from_bytes(tagged('TapTweak', Pt[0].to_bytes(32, 'big') + merkle_root), 'big')
    return (d + t) % N

def taproot_output_key(internal_x, merkle_root=b''):
    """returns (output x-only key bytes, parity)"""
    Pt = lift_x(int.from_bytes(internal_x, 'big'))
    t = int.from_bytes(tagged('TapTweak', internal_x + merkle_root), 'big')
    Q = padd(Pt, pmul(t))
    return Q[0].to_bytes(32, 'big'), Q[1] & 1

def tapleaf_hash(script, leaf_ver=0xc0):
    return tagged('TapLeaf', bytes([leaf_ver]) + ser_string(script))

def compact(n):
    if n < 253: return bytes([n])
    if n < 0x10000: return b'\xfd' + struct.pack('<H', n)
    if n < 0x100000000: return b'\xfe' + struct.pack('<I', n)
    return b'\xff' + struct.pack('<Q', n)

def ser_string(b): return compact(len(b)) + b

def push(data):
    n = len(data)
    if n < 76: return bytes([n]) + data
    if n < 256: return b'\x4c' + bytes([n]) + data
    return b'\x4d' + struct.pack('<H', n) + data

class TxIn:
    def __init__(self, txid_be_hex_or_bytes, n, script_sig=b'', sequence=0xffffffff, witness=None):
        # txid given as internal (little endian / hash) bytes
        self.prev_hash = txid_be_hex_or_bytes
        self.n = n; self.script_sig = script_sig; self.sequence = sequence
        self.witness = witness or []
    def outpoint(self): return self.prev_hash + struct.pack('<I', self.n)

class TxOut:
    def __init__(self, value, spk): self.value = value; self.spk = spk
    def ser(self): return struct.pack('<q', self.value) + ser_string(self.spk)

class Tx:
    def __init__(self, vin, vout, version=2, locktime=0):
        self.vin = vin; self.vout = vout; self.version = version; self.locktime = locktime
    def ser(self, witness=True):
        has_wit = witness and any(i.witness for i in self.vin)
        r = struct.pack('<i', self.version)
        if has_wit: r += b'\x00\x01'
        r += compact(len(self.vin))
        for i in self.vin:
            r += i.outpoint() + ser_string(i.script_sig) + struct.pack('<I', i.sequence)
        r += compact(len(self.vout))
        for o in self.vout: r += o.ser()
        if has_wit:
            for i in self.vin:
                r += compact(len(i.witness))
                for w in i.witness: r += ser_string(w)
        r += struct.pack('<I', self.locktime)
        return r
    def hash(self): return dsha(self.ser(False))   # internal byte order
    def hex(self): return self.ser().hex()

def sighash_legacy(tx, idx, script_code, hashtype=1):
    # SIGHASH_ALL only (enough for the demos)
    assert hashtype == 1
    r = struct.pack('<i', tx.version) + compact(len(tx.vin))
    for j, i in enumerate(tx.vin):
        r += i.outpoint() + ser_string(script_code if j == idx else b'') + struct.pack('<I', i.sequence)
    r += compact(len(tx.vout))
    for o in tx.vout: r += o.ser()
    r += struct.pack('<I', tx.locktime) + struct.pack('<I', hashtype)
    return dsha(r)

def sighash_bip143(tx, idx, script_code, amount, hashtype=1):
    assert hashtype == 1
    hp = dsha(b''.join(i.outpoint() for i in tx.vin))
    hs = dsha(b''.join(struct.pack('<I', i.sequence) for i in tx.vin))
    ho = dsha(b''.join(o.ser() for o in tx.vout))
    i = tx.vin[idx]
    r = (struct.pack('<i', tx.version) + hp + hs + i.outpoint() + ser_string(script_code) +
         struct.pack('<q', amount) + struct.pack('<I', i.sequence) + ho +
         struct.pack('<I', tx.locktime) + struct.pack('<I', hashtype))
    return dsha(r)

def sighash_bip341(tx, idx, spent, hashtype=0, annex=None, leaf_hash=None, codesep=0xffffffff):
    # spent: list of TxOut for every input; SIGHASH_DEFAULT / ALL only
    assert hashtype in (0, 1)
    r = b'\x00' + bytes([hashtype]) + struct.pack('<i', tx.version) + struct.pack('<I', tx.locktime)
    r += sha256(b''.join(i.outpoint() for i in tx.vin))
    r += sha256(b''.join(struct.pack('<q', o.value) for o in spent))
    r += sha256(b''.join(ser_string(o.spk) for o in spent))
    r += sha256(b''.join(struct.pack('<I', i.sequence) for i in tx.vin))
    r += sha256(b''.join(o.ser() for o in tx.vout))
    spend_type = (2 if leaf_hash is not None else 0) + (1 if annex is not None else 0)
    r += bytes([spend_type]) + struct.pack('<I', idx)
    if annex is not None: r += sha256(ser_string(annex))
    if leaf_hash is not None: r += leaf_hash + b'\x00' + struct.pack('<I', codesep)
    return tagged('TapSighash', r)

def funding_tx(spks_values):
    """a funding transaction with the given [(scriptPubKey, value)] outputs"""
    vin = [TxIn(sha256(b'some earlier transaction'), 0, script_sig=push(b'\x01\x02'))]
    return Tx(vin, [TxOut(v, s) for s, v in spks_values], version=1)

import subprocess, os
def run_btcdeb(tree, tx, txin, extra=()):
    """runs btcdeb non-interactively; returns (exit code, stdout, stderr)"""
    p = subprocess.run([os.path.join(tree, 'btcdeb'), '--tx=' + tx.hex(), '--txin=' + txin.hex(), *extra],
                       stdin=subprocess.DEVNULL, capture_output=True, text=True, timeout=60)
    return p.returncode, p.stdout, p.stderr

def accepted(rc, out):
    """the session ran to the end without error and left exactly one true item"""
    if rc != 0: return False
    items = out.split('\n')
    if items and items[-1] == '': items.pop()
    if len(items) != 1: return False
    h = items[0].strip()
    try: b = bytes.fromhex(h)
    except ValueError: return False
    if not b: return False
    return any(b[:-1]) or (b[-1] & 0x7f) != 0
