#!/bin/bash
# btcc / tf / tap: copying a Value reads its never-initialised `opcode` member (undefined behaviour; UBSan: "load of value
# ..., which is not a valid value for type 'opcodetype'"). Builds btcc.cpp of the tree with -fsanitize=address,undefined
# (nothing in the tree is modified; the build goes to <this dir>/build) and runs the example of btcc's own usage text.
# usage: demo.sh [tree-dir]     exit 1 = violation present, 0 = not present
T=$(cd "${1:-.}" && pwd)
HERE=$(cd "$(dirname "$0")" && pwd)
mkdir -p "$HERE/build"
OUT="$HERE/build/btcc-san"
SECP=$(ls "$T"/secp256k1/.libs/libsecp256k1.a 2>/dev/null | head -1)
( cd "$T" && g++ -std=c++17 -g -O1 -w -fno-omit-frame-pointer -fsanitize=address,undefined -DHAVE_CONFIG_H -I. -I./config -I./secp256k1/include \
    btcc.cpp libbitcoin_deb.a libbitcoin.a "$SECP" -o "$OUT" ) || { echo "build failed"; exit 2; }
export ASAN_OPTIONS=detect_leaks=0:detect_container_overflow=0 UBSAN_OPTIONS=print_stacktrace=1
bad=0
run() {
    echo "\$ btcc-san $*"
    "$OUT" "$@" >"$HERE/build/out.txt" 2>"$HERE/build/err.txt"; rc=$?
    echo "  stdout: $(cat "$HERE/build/out.txt")   (exit $rc)"
    if grep -q "runtime error" "$HERE/build/err.txt"; then
        grep -m1 -A8 "runtime error" "$HERE/build/err.txt" | cut -c1-220 | sed 's/^/  /'
        bad=1
    fi
}
# the example printed by `btcc` without arguments, and the smallest case (two arguments)
run OP_DUP OP_HASH160 '[62e907b15cbf27d5425399ebf6f0fb50ebb88f18]' OP_EQUALVERIFY OP_CHECKSIG
run 1 2
if [ $bad = 1 ]; then
    echo "VIOLATION: the sanitizer build reports undefined behaviour (read of an uninitialised enum member) on well-formed input"
    exit 1
fi
echo "no sanitizer report"
exit 0
