"""helpers shared by the demos (kept next to the demo that imports it)"""
import os, pty, select, time, re, signal, subprocess

def btcc(tree, *args):
    p = subprocess.run([os.path.join(tree, 'btcc'), *args], capture_output=True, text=True, stdin=subprocess.DEVNULL)
    return p.stdout.strip(), p.stderr.strip()

def btcdeb_pipe(tree, script):
    """non-interactive btcdeb: script on stdin, runs to the end, prints the final stack (top first)"""
    p = subprocess.run([os.path.join(tree, 'btcdeb')], input=script + '\n', capture_output=True, text=True)
    return p.stdout.strip(), p.stderr.strip()

def unpush(h):
    """payload of a script consisting of a single push (hex in, bytes out)"""
    b = bytes.fromhex(h)
    if not b: return None
    op = b[0]
    if op == 0: return b''
    if op < 76: return b[1:1 + op]
    if op == 76: return b[2:2 + b[1]]
    if op == 77: return b[3:3 + int.from_bytes(b[1:3], 'little')]
    if op == 78: return b[5:5 + int.from_bytes(b[1:5], 'little')]
    return None

def tf(tree, cmds, timeout=20):
    """run the given command lines in an interactive btcdeb session (pty); returns the cleaned output per command"""
    exe = os.path.join(tree, 'btcdeb')
    pid, fd = pty.fork()
    if pid == 0:
        os.environ['TERM'] = 'dumb'
        os.chdir(tree)
        os.execv(exe, [exe, '[OP_1]'])
    def read_until_prompt():
        end = time.time() + timeout
        buf = b''
        while time.time() < end:
            r, _, _ = select.select([fd], [], [], 0.2)
            if fd in r:
                try: d = os.read(fd, 65536)
                except OSError: break
                if not d: break
                buf += d
                if b'btcdeb> ' in buf[-20:]:
                    r2, _, _ = select.select([fd], [], [], 0.15)
                    if fd not in r2: break
        return buf
    read_until_prompt()
    res = []
    for c in cmds:
        os.write(fd, (c + '\n').encode())
        s = read_until_prompt().decode('latin1')
        s = re.sub(r'\x1b\[[0-9;?]*[a-zA-Z]', '', s).replace('\r', '')
        lines = [l.strip() for l in s.split('\n')]
        res.append([l for l in lines if l and not l.startswith('btcdeb>') and l != c.strip()])
    try: os.kill(pid, signal.SIGKILL)
    except OSError: pass
    try: os.waitpid(pid, 0)
    except OSError: pass
    os.close(fd)
    return res
