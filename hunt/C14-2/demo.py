#!/usr/bin/env python3
# Finding 2: addr-to-scriptpubkey ignores the address version byte: a P2SH address ("3...") is converted to a
# P2PKH script (OP_DUP OP_HASH160 <h> OP_EQUALVERIFY OP_CHECKSIG) instead of OP_HASH160 <h> OP_EQUAL.
import sys, os, hashlib
tree = os.path.abspath(sys.argv[1] if len(sys.argv) > 1 else '.')
sys.path.insert(0, os.path.dirname(os.path.abspath(__file__)))
from helper import btcc, unpush, tf

B58 = '123456789ABCDEFGHJKLMNPQRSTUVWXYZabcdefghijkmnopqrstuvwxyz'
def b58cdec(s):
    n = 0
    for c in s: n = n * 58 + B58.index(c)
    z = len(s) - len(s.lstrip('1'))
    d = b'\0' * z + n.to_bytes((n.bit_length() + 7) // 8, 'big')
    assert hashlib.sha256(hashlib.sha256(d[:-4]).digest()).digest()[:4] == d[-4:]
    return d[:-4]
def spk_for(addr):
    d = b58cdec(addr); ver, h = d[0], d[1:]
    assert len(h) == 20
    if ver in (0x00, 0x6f): return bytes.fromhex('76a914') + h + bytes.fromhex('88ac')   # P2PKH main/test
    if ver in (0x05, 0xc4): return bytes.fromhex('a914') + h + bytes.fromhex('87')        # P2SH  main/test
    raise ValueError(ver)

bad = []
p2pkh = '1A1zP1eP5QGefi2DMPTfTL5SLmv7DivfNa'   # control: handled correctly
p2sh = '3J98t1WpEZ73CNmQviecrnyiWrnqRhWNLy'     # BIP13 example address
for addr in (p2pkh, p2sh):
    exp = spk_for(addr).hex()
    out, err = btcc(tree, 'addr_to_spk(%s)' % addr)
    got = unpush(out).hex() if out else None
    if got != exp:
        bad.append("btcc 'addr_to_spk(%s)': expected scriptPubKey %s, got %s" % (addr, exp, got))
try:
    r = tf(tree, ['tf addr-to-scriptpubkey ' + p2sh])[0]
    got = r[-1] if r else None
    if got != spk_for(p2sh).hex():
        bad.append("tf addr-to-scriptpubkey %s: expected %s, got %s" % (p2sh, spk_for(p2sh).hex(), got))
except Exception as e:
    print('(interactive check skipped: %s)' % e)

if bad:
    print('VIOLATION:')
    for b in bad: print(' -', b)
    sys.exit(1)
print('ok')
