import subprocess
def enc(n):
    if n == 0: return b''
    neg = n < 0; a = abs(n); r = bytearray()
    while a: r.append(a & 0xff); a >>= 8
    if r[-1] & 0x80: r.append(0x80 if neg else 0)
    elif neg: r[-1] |= 0x80
    return bytes(r)
def dec(b):
    if not b: return 0
    v = int.from_bytes(b, 'little')
    if b[-1] & 0x80: return -(v & ~(0x80 << (8*(len(b)-1))))
    return v
def run(tree, opbyte, a, b):
    """run  <a> <b> OP  under btcdeb --allow-disabled-opcodes; returns ('ok', int) or ('err', msg)"""
    cmd = [tree + '/btcdeb', '--allow-disabled-opcodes', '0x' + enc(a).hex(), '0x' + enc(b).hex()]
    p = subprocess.run(cmd, input=('0x%02x\n' % opbyte).encode(), capture_output=True)
    if p.returncode < 0: return ('crash', str(p.returncode))
    if p.returncode != 0: return ('err', p.stderr.decode().split('\n')[0])
    lines = p.stdout.decode().split('\n')
    if lines and lines[-1] == '': lines.pop()
    if len(lines) != 1: return ('weird', repr(lines))
    return ('ok', dec(bytes.fromhex(lines[0])))
