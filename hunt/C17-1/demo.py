#!/usr/bin/env python3
# OP_LSHIFT with an accepted shift count (0..63) silently wraps at 64 bits:
# wrong sign / zero instead of a * 2^b (or a script error).
import sys, os
sys.path.insert(0, os.path.dirname(os.path.abspath(__file__)))
from common import run
tree = sys.argv[1] if len(sys.argv) > 1 else '.'
cases = [(1, 63), (2, 63), (255, 56), (2**31 - 1, 33), (2**31 - 1, 63), (-256, 56)]
bad = 0
for a, b in cases:
    kind, val = run(tree, 0x98, a, b)
    want = a << b   # a * 2**b, python integers are exact
    if kind == 'err':
        print('ok   %d OP_LSHIFT %d -> script error (%s)' % (a, b, val)); continue
    if kind == 'ok' and val == want:
        print('ok   %d OP_LSHIFT %d -> %d' % (a, b, val)); continue
    bad += 1
    print('DIFF %d %d OP_LSHIFT: expected %d (or a script error), btcdeb %s %s' % (a, b, want, kind, val))
sys.exit(1 if bad else 0)
