#!/usr/bin/env python3
"""FIND/2: the alt stack of the scriptSig leaks into the scriptPubKey. usage: demo.py [tree]"""
import hashlib, os, struct, subprocess, sys

TREE = os.path.abspath(sys.argv[1] if len(sys.argv) > 1 else '.')
BTCDEB = os.path.join(TREE, 'btcdeb')

# ---- minimal transaction builder -------------------------------------------------------
def cs(n):
    if n < 253: return bytes([n])
    if n < 0x10000: return b'\xfd' + struct.pack('<H', n)
    return b'\xfe' + struct.pack('<I', n)
def dsha(b): return hashlib.sha256(hashlib.sha256(b).digest()).digest()
def ser_tx(vin, vout, wits=None, version=2, locktime=0):
    b = struct.pack('<i', version) + (b'\x00\x01' if wits is not None else b'') + cs(len(vin))
    for (h, n, ss, seq) in vin:
        b += h + struct.pack('<I', n) + cs(len(ss)) + ss + struct.pack('<I', seq)
    b += cs(len(vout))
    for (v, spk) in vout:
        b += struct.pack('<q', v) + cs(len(spk)) + spk
    if wits is not None:
        for w in wits:
            b += cs(len(w))
            for it in w: b += cs(len(it)) + it
    return b + struct.pack('<I', locktime)
def spend_pair(spk, scriptSig=b'', witness=None):
    """(txin_hex, tx_hex): a funding transaction whose output 0 carries spk, and a transaction spending it"""
    prev = ser_tx([(b'\x11' * 32, 0, b'', 0xffffffff)], [(100000, spk)])
    vin = [(dsha(prev), 0, scriptSig, 0xffffffff)]
    vout = [(90000, b'\x51')]
    return prev.hex(), ser_tx(vin, vout, None if witness is None else [witness]).hex()

def btcdeb(args):
    """non-interactive run (stdin is not a terminal, the empty script line makes btcdeb take everything from --tx/--txin)"""
    p = subprocess.run([BTCDEB] + args, stdin=subprocess.DEVNULL, stdout=subprocess.PIPE, stderr=subprocess.PIPE, cwd=TREE, timeout=60)
    return p.returncode, p.stdout.decode(errors='replace'), p.stderr.decode(errors='replace')

def errline(err):
    l = [x for x in err.split('\n') if x.startswith('error:')]
    return l[-1] if l else '(no error)'

# scriptSig:    OP_1 OP_TOALTSTACK OP_1        (leaves main [01], alt [01])
# scriptPubKey: OP_FROMALTSTACK
# Bitcoin (VerifyScript): every script is evaluated by its own EvalScript with a fresh, empty alt stack; only the
# main stack is handed from scriptSig to scriptPubKey.  OP_FROMALTSTACK in the scriptPubKey therefore fails with
# "Operation not valid with the current altstack size".
txin, tx = spend_pair(bytes([0x6c]), scriptSig=bytes([0x51, 0x6b, 0x51]))
rc, out, err = btcdeb(['--tx=' + tx, '--txin=' + txin])
print('scriptSig 516b51 / scriptPubKey 6c: rc=%d stack=%r %s' % (rc, out.split(), errline(err)))
if rc != 0 and 'altstack' in err:
    print('no violation')
    sys.exit(0)
print('VIOLATION: expected failure at OP_FROMALTSTACK (scriptPubKey starts with an empty alt stack): '
      '"Operation not valid with the current altstack size"; btcdeb: rc=%d final stack=%r %s' % (rc, out.split(), errline(err)))
sys.exit(1)
