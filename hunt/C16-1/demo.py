#!/usr/bin/env python3
"""exec rejects 0x-prefixed hex pushes (the form btcdeb itself recommends and the script parser accepts)."""
import os, re, sys
sys.path.insert(0, os.path.dirname(os.path.abspath(__file__)))
from drv import session
tree = os.path.abspath(sys.argv[1] if len(sys.argv) > 1 else '.')
def stack(o): return re.findall(r'<\d+>\t([0-9a-f]*)', o)
bad = []
for tok, want in [('0x1234abcd56', '1234abcd56'), ('0xc6d07e', 'c6d07e'), ('0x', '')]:
    # reference: a hex push puts exactly these bytes on top of the stack [07 08] -> (top first) [want, 08, 07]
    expect = [want, '08', '07']
    a = session(tree, ['[OP_NOP]', '07', '08'], ['exec ' + tok, 'stack'])
    got = stack(a[2])
    err = re.search(r'(?:[Ee]rror|exception): .*', a[1])
    # the same token as the next operation of the script
    b = session(tree, ['[' + tok + ' OP_NOP]', '07', '08'], ['step', 'stack'])
    scr = stack(b[2])
    if got != expect or err:
        bad.append("exec %s: expected stack (top first) %s, no error; got stack %s, message %r; the script [%s ...] stepped once gives %s"
                   % (tok, expect, got, err.group(0).strip() if err else None, tok, scr))
if bad:
    print("VIOLATION: exec does not apply 0x-prefixed hex pushes as the script would")
    for b in bad: print("  " + b)
    sys.exit(1)
print("ok: exec applies 0x-prefixed hex pushes")
