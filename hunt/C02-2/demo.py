#!/usr/bin/env python3
"""Taproot spends in a transaction with more than one input: every valid Schnorr signature is rejected,
even with SIGHASH_ANYONECANPAY where the digest needs nothing but the spent output that --txin supplies.
usage: demo.py [tree-dir]   (exit 1 = violation present, 0 = not present)"""
import os, sys, subprocess, random
sys.path.insert(0, os.path.dirname(os.path.abspath(__file__)))
from ref import *
tree = os.path.abspath(sys.argv[1] if len(sys.argv) > 1 else '.')

def btcdeb(tx, prev, idx):
    p = subprocess.run([os.path.join(tree, 'btcdeb'), '--tx=' + tx.ser().hex(), '--txin=' + prev.ser().hex(), '--select=%d' % idx],
                       stdin=subprocess.DEVNULL, stdout=subprocess.PIPE, stderr=subprocess.PIPE, timeout=60)
    out = p.stdout.decode(errors='replace').strip().splitlines()
    err = [l[l.index('error: '):] for l in p.stderr.decode(errors='replace').splitlines() if 'error: ' in l]
    return p.returncode, (out[-1].strip() if out else ''), (err[-1] if err else '')

rng = random.Random(4242)
fails = 0
for nin in (1, 2, 3):
    for mode in ('key', 'script'):
        for ht in (0x81, 0x83, 0x00):
            idx = nin - 1
            dint = rng.randrange(1, N); d = rng.randrange(1, N)
            x = pmul(d, G)[0].to_bytes(32, 'big')
            scr = push(x) + b'\xac'                                   # <x-only key> OP_CHECKSIG
            leaf = tapleaf(scr)
            q, parity, dq = taptweak(dint, leaf if mode == 'script' else None)
            spk = b'\x51\x20' + q
            amount = 700000 + nin
            prev = Tx(2, [dict(txid=rng.randbytes(32), n=0, script=b'', seq=0xffffffff)], [(amount, spk)], 0)
            vin = [dict(txid=rng.randbytes(32), n=j, script=b'', seq=0xfffffffe, wit=[]) for j in range(nin)]
            vin[idx] = dict(txid=prev.txid(), n=0, script=b'', seq=0xfffffffd, wit=[])
            tx = Tx(2, vin, [(1000 * (k + 1), b'\x51') for k in range(nin)], 0)
            # the other inputs spend some other P2TR outputs (only needed for non-ANYONECANPAY digests)
            spent = [(5000 + j, b'\x51\x20' + rng.randbytes(32)) for j in range(nin)]; spent[idx] = (amount, spk)
            if mode == 'key':
                dg = bip341_sighash(tx, idx, spent, ht); sig = schnorr_sign(dq, dg); assert schnorr_verify(q, dg, sig)
                tx.vin[idx]['wit'] = [sig + (bytes([ht]) if ht else b'')]
            else:
                dg = bip341_sighash(tx, idx, spent, ht, leaf_hash=leaf); sig = schnorr_sign(d, dg); assert schnorr_verify(x, dg, sig)
                control = bytes([0xc0 | parity]) + pmul(dint, G)[0].to_bytes(32, 'big')
                tx.vin[idx]['wit'] = [sig + (bytes([ht]) if ht else b''), scr, control]
            rc, top, err = btcdeb(tx, prev, idx)
            ok = rc == 0 and top == '01'
            tag = '%d input(s), input %d, %-6s path, hashtype %02x' % (nin, idx, mode, ht)
            if ok: print('ok      ', tag, '-> final stack 01')
            elif nin > 1 and ht == 0:
                # SIGHASH_DEFAULT commits to the other inputs' prevouts, which btcdeb has no option for: reported, not counted
                print('(info)  ', tag, '-> rejected (%s); the digest needs the other spent outputs, which cannot be supplied' % err)
            else:
                fails += 1
                print('DIFFERS ', tag, '-> valid BIP340 signature over the BIP341 digest, expected 01; btcdeb: exit %d, %s' % (rc, err or '(no error line)'))
if fails:
    print('%d valid taproot signatures rejected only because the transaction has more than one input' % fails); sys.exit(1)
print('no difference'); sys.exit(0)
