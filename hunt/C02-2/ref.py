# Independent pure-python reference: secp256k1 ECDSA / BIP340, legacy / BIP143 / BIP341 digests.
import hashlib, struct, hmac

P = 0xFFFFFFFFFFFFFFFFFFFFFFFFFFFFFFFFFFFFFFFFFFFFFFFFFFFFFFFEFFFFFC2F
N = 0xFFFFFFFFFFFFFFFFFFFFFFFFFFFFFFFEBAAEDCE6AF48A03BBFD25E8CD0364141
G = (0x79BE667EF9DCBBAC55A06295CE870B07029BFCDB2DCE28D959F2815B16F81798,
     0x483ADA7726A3C4655DA4FBFC0E1108A8FD17B448A68554199C47D08FFB10D4B8)

def sha256(b): return hashlib.sha256(b).digest()
def dsha(b): return sha256(sha256(b))
def ripemd160(b):
    h = hashlib.new('ripemd160'); h.update(b); return h.digest()
def hash160(b): return ripemd160(sha256(b))
def tagged(tag, b):
    t = sha256(tag.encode()); return sha256(t + t + b)

def padd(a, b):
    if a is None: return b
    if b is None: return a
    if a[0] == b[0]:
        if (a[1] + b[1]) % P == 0: return None
        l = 3 * a[0] * a[0] * pow(2 * a[1], P - 2, P) % P
    else:
        l = (b[1] - a[1]) * pow(b[0] - a[0], P - 2, P) % P
    x = (l * l - a[0] - b[0]) % P
    return (x, (l * (a[0] - x) - a[1]) % P)

def pmul(k, pt):
    r = None
    while k:
        if k & 1: r = padd(r, pt)
        pt = padd(pt, pt); k >>= 1
    return r

def lift_x(x):
    if x >= P: return None
    y2 = (pow(x, 3, P) + 7) % P
    y = pow(y2, (P + 1) // 4, P)
    if y * y % P != y2: return None
    return (x, y if y % 2 == 0 else P - y)

def pub_ser(pt, compressed=True):
    if compressed: return bytes([2 + (pt[1] & 1)]) + pt[0].to_bytes(32, 'big')
    return b'\x04' + pt[0].to_bytes(32, 'big') + pt[1].to_bytes(32, 'big')

def pub_parse(b):
    if len(b) == 33 and b[0] in (2, 3):
        pt = lift_x(int.from_bytes(b[1:], 'big'))
        if pt is None: return None
        if (pt[1] & 1) != (b[0] & 1): pt = (pt[0], P - pt[1])
        return pt
    if len(b) == 65 and b[0] in (4, 6, 7):
        x = int.from_bytes(b[1:33], 'big'); y = int.from_bytes(b[33:], 'big')
        if x >= P or y >= P or (y * y - x * x * x - 7) % P: return None
        if b[0] != 4 and (y & 1) != (b[0] & 1): return None
        return (x, y)
    return None

def der_int(v):
    b = v.to_bytes(33, 'big').lstrip(b'\x00') or b'\x00'
    if b[0] & 0x80: b = b'\x00' + b
    return b'\x02' + bytes([len(b)]) + b

def der(r, s):
    body = der_int(r) + der_int(s)
    return b'\x30' + bytes([len(body)]) + body

def ecdsa_sign(d, msg32, low_s=True, nonce=0):
    k = int.from_bytes(hmac.new(d.to_bytes(32, 'big'), msg32 + bytes([nonce]), 'sha256').digest(), 'big') % N or 1
    R = pmul(k, G); r = R[0] % N
    s = pow(k, N - 2, N) * (int.from_bytes(msg32, 'big') + r * d) % N
    assert r and s
    if low_s and s > N // 2: s = N - s
    if not low_s and s <= N // 2: s = N - s
    return r, s

def ecdsa_verify(pt, msg32, r, s):
    if not (0 < r < N and 0 < s < N) or pt is None: return False
    w = pow(s, N - 2, N); z = int.from_bytes(msg32, 'big')
    X = padd(pmul(z * w % N, G), pmul(r * w % N, pt))
    return X is not None and X[0] % N == r

def schnorr_sign(d, msg, aux=b'\x00' * 32):
    Pt = pmul(d, G)
    if Pt[1] & 1: d = N - d
    t = (d ^ int.from_bytes(tagged('BIP0340/aux', aux), 'big')).to_bytes(32, 'big')
    k = int.from_bytes(tagged('BIP0340/nonce', t + Pt[0].to_bytes(32, 'big') + msg), 'big') % N
    R = pmul(k, G)
    if R[1] & 1: k = N - k
    e = int.from_bytes(tagged('BIP0340/challenge', R[0].to_bytes(32, 'big') + Pt[0].to_bytes(32, 'big') + msg), 'big') % N
    return R[0].to_bytes(32, 'big') + ((k + e * d) % N).to_bytes(32, 'big')

def schnorr_verify(pk32, msg, sig):
    if len(pk32) != 32 or len(sig) != 64: return False
    Pt = lift_x(int.from_bytes(pk32, 'big'))
    r = int.from_bytes(sig[:32], 'big'); s = int.from_bytes(sig[32:], 'big')
    if Pt is None or r >= P or s >= N: return False
    e = int.from_bytes(tagged('BIP0340/challenge', sig[:32] + pk32 + msg), 'big') % N
    R = padd(pmul(s, G), pmul(N - e, Pt))
    return R is not None and R[1] % 2 == 0 and R[0] == r

# ---- serialization
def cs(n):
    if n < 253: return bytes([n])
    if n <= 0xffff: return b'\xfd' + struct.pack('<H', n)
    if n <= 0xffffffff: return b'\xfe' + struct.pack('<I', n)
    return b'\xff' + struct.pack('<Q', n)

def push(b):
    n = len(b)
    if n < 76: return bytes([n]) + b
    if n < 256: return b'\x4c' + bytes([n]) + b
    if n < 65536: return b'\x4d' + struct.pack('<H', n) + b
    return b'\x4e' + struct.pack('<I', n) + b

class Tx:
    def __init__(self, version=2, vin=None, vout=None, locktime=0):
        self.version = version; self.vin = vin or []; self.vout = vout or []; self.locktime = locktime
        # vin: dict(txid(bytes, internal order), n, script, seq, wit(list))   vout: (value, spk)
    def ser(self, witness=True):
        w = witness and any(i.get('wit') for i in self.vin)
        o = struct.pack('<i', self.version)
        if w: o += b'\x00\x01'
        o += cs(len(self.vin))
        for i in self.vin:
            o += i['txid'] + struct.pack('<I', i['n']) + cs(len(i['script'])) + i['script'] + struct.pack('<I', i['seq'])
        o += cs(len(self.vout))
        for v, spk in self.vout: o += struct.pack('<q', v) + cs(len(spk)) + spk
        if w:
            for i in self.vin:
                wit = i.get('wit') or []
                o += cs(len(wit)) + b''.join(cs(len(x)) + x for x in wit)
        return o + struct.pack('<I', self.locktime)
    def txid(self): return dsha(self.ser(False))

def script_ops(s):
    """yield (start, opcode, data, end); stops silently at a truncated push like GetOp returning false"""
    i = 0
    while i < len(s):
        st = i; op = s[i]; i += 1; data = None
        if op <= 0x4e:
            if op < 0x4c: n = op
            elif op == 0x4c:
                if i + 1 > len(s): return
                n = s[i]; i += 1
            elif op == 0x4d:
                if i + 2 > len(s): return
                n = struct.unpack('<H', s[i:i+2])[0]; i += 2
            else:
                if i + 4 > len(s): return
                n = struct.unpack('<I', s[i:i+4])[0]; i += 4
            if i + n > len(s): return
            data = s[i:i+n]; i += n
        yield st, op, data, i

def find_and_delete(script, pat):
    out = b''; pos = 0
    while True:
        while pat and len(script) - pos >= len(pat) and script[pos:pos+len(pat)] == pat: pos += len(pat)
        op = next(script_ops(script[pos:]), None)
        if op is None:
            out += script[pos:]; break
        out += script[pos:pos+op[3]]; pos += op[3]
    return out

def legacy_sighash(tx, idx, script_code, hashtype):
    """script_code already has FindAndDelete applied; removes OP_CODESEPARATOR here"""
    sc = b''.join(script_code[st:e] for st, op, d, e in script_ops(script_code) if op != 0xab)
    # trailing unparsable garbage is kept by core (written as-is after last good op)
    ops = list(script_ops(script_code))
    tail = script_code[ops[-1][3] if ops else 0:]
    sc += tail
    base = hashtype & 0x1f; acp = hashtype & 0x80
    if base == 3 and idx >= len(tx.vout): return (1).to_bytes(32, 'little')
    o = struct.pack('<i', tx.version)
    ins = [idx] if acp else range(len(tx.vin))
    o += cs(len(ins))
    for j in ins:
        i = tx.vin[j]
        o += i['txid'] + struct.pack('<I', i['n'])
        o += (cs(len(sc)) + sc) if j == idx else b'\x00'
        o += struct.pack('<I', 0 if (j != idx and base in (2, 3)) else i['seq'])
    if base == 2: o += b'\x00'
    elif base == 3:
        o += cs(idx + 1)
        for k in range(idx + 1):
            if k == idx: v, spk = tx.vout[k]; o += struct.pack('<q', v) + cs(len(spk)) + spk
            else: o += struct.pack('<q', -1) + b'\x00'
    else:
        o += cs(len(tx.vout))
        for v, spk in tx.vout: o += struct.pack('<q', v) + cs(len(spk)) + spk
    o += struct.pack('<I', tx.locktime) + struct.pack('<I', hashtype)
    return dsha(o)

def bip143_sighash(tx, idx, script_code, amount, hashtype):
    base = hashtype & 0x1f; acp = hashtype & 0x80
    z = b'\x00' * 32
    hp = z if acp else dsha(b''.join(i['txid'] + struct.pack('<I', i['n']) for i in tx.vin))
    hs = z if (acp or base in (2, 3)) else dsha(b''.join(struct.pack('<I', i['seq']) for i in tx.vin))
    if base not in (2, 3): ho = dsha(b''.join(struct.pack('<q', v) + cs(len(s)) + s for v, s in tx.vout))
    elif base == 3 and idx < len(tx.vout):
        v, s = tx.vout[idx]; ho = dsha(struct.pack('<q', v) + cs(len(s)) + s)
    else: ho = z
    i = tx.vin[idx]
    o = struct.pack('<i', tx.version) + hp + hs + i['txid'] + struct.pack('<I', i['n']) + cs(len(script_code)) + script_code
    o += struct.pack('<q', amount) + struct.pack('<I', i['seq']) + ho + struct.pack('<I', tx.locktime) + struct.pack('<I', hashtype)
    return dsha(o)

def bip341_sighash(tx, idx, spent, hashtype, annex=None, leaf_hash=None, codesep=0xffffffff):
    """spent: list of (amount, spk) for all inputs. returns None for invalid hashtype"""
    if hashtype not in (0, 1, 2, 3, 0x81, 0x82, 0x83): return None
    out_t = 1 if hashtype == 0 else hashtype & 3; acp = hashtype & 0x80
    o = b'\x00' + bytes([hashtype]) + struct.pack('<i', tx.version) + struct.pack('<I', tx.locktime)
    if not acp:
        o += sha256(b''.join(i['txid'] + struct.pack('<I', i['n']) for i in tx.vin))
        o += sha256(b''.join(struct.pack('<q', a) for a, s in spent))
        o += sha256(b''.join(cs(len(s)) + s for a, s in spent))
        o += sha256(b''.join(struct.pack('<I', i['seq']) for i in tx.vin))
    if out_t == 1:
        o += sha256(b''.join(struct.pack('<q', v) + cs(len(s)) + s for v, s in tx.vout))
    spend_type = (2 if leaf_hash is not None else 0) + (1 if annex is not None else 0)
    o += bytes([spend_type])
    if acp:
        i = tx.vin[idx]; a, s = spent[idx]
        o += i['txid'] + struct.pack('<I', i['n']) + struct.pack('<q', a) + cs(len(s)) + s + struct.pack('<I', i['seq'])
    else:
        o += struct.pack('<I', idx)
    if annex is not None: o += sha256(cs(len(annex)) + annex)
    if out_t == 3:
        if idx >= len(tx.vout): return None
        v, s = tx.vout[idx]; o += sha256(struct.pack('<q', v) + cs(len(s)) + s)
    if leaf_hash is not None:
        o += leaf_hash + b'\x00' + struct.pack('<I', codesep)
    return tagged('TapSighash', o)

def tapleaf(script, ver=0xc0): return tagged('TapLeaf', bytes([ver]) + cs(len(script)) + script)
def tapbranch(a, b): return tagged('TapBranch', min(a, b) + max(a, b))
def taptweak(internal_d, merkle_root):
    """returns (output xonly key bytes, parity, tweaked secret)"""
    Pt = pmul(internal_d, G)
    d = internal_d if Pt[1] % 2 == 0 else N - internal_d
    t = int.from_bytes(tagged('TapTweak', Pt[0].to_bytes(32, 'big') + (merkle_root or b'')), 'big')
    assert t < N
    Q = padd(lift_x(Pt[0]), pmul(t, G))
    return Q[0].to_bytes(32, 'big'), Q[1] & 1, (d + t) % N
