#!/bin/bash
# Finding 1: a long numeric / hex-looking script on stdin overflows the stack (SIGSEGV).
# usage: demo.sh [tree-dir]   -- exits 1 when btcdeb dies from a signal, 0 when it terminates by itself
TREE="${1:-.}"
BTCDEB="$TREE/btcdeb"
[ -x "$BTCDEB" ] || { echo "no btcdeb binary in $TREE"; exit 2; }
ulimit -s 8192 2>/dev/null   # the usual 8 MiB stack; the inputs below are 12 MB
ERR=$(mktemp)
fail=0
run() {  # $1 = label, stdin = script
    "$BTCDEB" >/dev/null 2>"$ERR"
    rc=$?
    if [ $rc -ge 128 ]; then
        echo "VIOLATION ($1): btcdeb was killed by signal $((rc-128)) (exit status $rc) instead of printing a result or a diagnostic"
        fail=1
    else
        echo "ok ($1): btcdeb terminated by itself, exit status $rc: $(head -c 200 "$ERR" | head -1)"
    fi
}
# 12 million decimal digits: a (much too large) number
run "12M-digit number on stdin" < <(python3 -c "import sys; sys.stdout.write('1'*12000000+'\n')") 2>/dev/null
# the same length of hex digits that also look decimal, i.e. a 6 MB push written without 0x
run "12M hex/decimal digits on stdin" < <(python3 -c "import sys; sys.stdout.write('51'*6000000+'\n')") 2>/dev/null
# inside a [script]
run "12M-digit token inside a [script] on stdin" < <(python3 -c "import sys; sys.stdout.write('[OP_1 '+'7'*12000000+']\n')") 2>/dev/null
rm -f "$ERR"
exit $fail
