#!/bin/bash
# Finding 1: a very long decimal number as the script on stdin makes btcdeb die with SIGSEGV
# (variable-length array `char buf[vlen + 1]` in Value::Value(const char*, size_t, bool), value.h:209,
# is allocated on the stack with the length of the whole input).
# usage: demo.sh [tree-dir]      exits 1 when the violation is present, 0 when it is not
TREE="${1:-.}"
BTCDEB="$TREE/btcdeb"
[ -x "$BTCDEB" ] || { echo "no btcdeb binary in $TREE"; exit 2; }
# the default stack size of a Linux process (8 MiB); never raise, only pin it so the demo is deterministic
ulimit -S -s 8192 2>/dev/null
OUT=$(mktemp)
# script text = 12,000,000 times the digit '1' followed by a newline (a well-formed, if huge, decimal literal)
head -c 12000000 /dev/zero | tr '\0' '1' | "$BTCDEB" > "$OUT" 2>&1
rc=$?
last=$(tail -c 300 "$OUT" | tr -d '\0' | tail -n 2)
rm -f "$OUT"
if [ $rc -ge 128 ]; then
    echo "VIOLATION: btcdeb was killed by signal $((rc-128)) (exit status $rc) on a 12,000,000-digit number script read from stdin"
    echo "expected: a result or a diagnostic (e.g. 'invalid script') and a normal exit"
    exit 1
fi
echo "ok: btcdeb exited normally (status $rc): $last"
exit 0
