#!/usr/bin/env python3
"""drive an interactive btcdeb session over a pty. usage: drv.session(tree, args, cmds) -> list of outputs"""
import os, pty, sys, select, time, re, signal

def session(tree, args, cmds, timeout=10):
    pid, fd = pty.fork()
    if pid == 0:
        os.chdir(tree)
        os.environ['TERM'] = 'dumb'
        os.execv(os.path.join(tree, 'btcdeb'), ['btcdeb'] + args)
    def read_until_prompt():
        buf = b''
        end = time.time() + timeout
        while time.time() < end:
            r, _, _ = select.select([fd], [], [], 0.2)
            if fd in r:
                try:
                    d = os.read(fd, 65536)
                except OSError:
                    break
                if not d: break
                buf += d
                if buf.endswith(b'btcdeb> '):
                    # make sure nothing else is coming
                    r2, _, _ = select.select([fd], [], [], 0.004)
                    if not r2: break
        return buf.decode(errors='replace')
    outs = [read_until_prompt()]
    for c in cmds:
        os.write(fd, (c + '\n').encode())
        outs.append(read_until_prompt())
    try:
        os.write(fd, b'quit\n')
    except OSError:
        pass
    time.sleep(0.05)
    try:
        os.kill(pid, signal.SIGKILL)
    except OSError:
        pass
    try:
        os.waitpid(pid, 0)
    except OSError:
        pass
    os.close(fd)
    return outs

if __name__ == '__main__':
    tree = sys.argv[1]
    args = eval(sys.argv[2])
    cmds = sys.argv[3:]
    for o in session(tree, args, cmds):
        print(o.replace('\r', ''))
        print('=====')
