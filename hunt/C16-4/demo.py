#!/usr/bin/env python3
"""exec'd pushes are not part of the scriptCode: `exec 0 <pubkey> OP_CHECKSIG` succeeds (pushes false) where the same
three operations as the next operations of a legacy script fail with SIG_FINDANDDELETE under the default flags."""
import os, re, sys
sys.path.insert(0, os.path.dirname(os.path.abspath(__file__)))
from drv import session
tree = os.path.abspath(sys.argv[1] if len(sys.argv) > 1 else '.')
def stack(o): return re.findall(r'<\d+>\t([0-9a-f]*)', o)
PK = '0279be667ef9dcbbac55a06295ce870b07029bfcdb2dce28d959f2815b16f81798'
ops = ['0', PK, 'OP_CHECKSIG']
# Reference (Bitcoin Core interpreter.cpp, EvalChecksigPreTapscript, SigVersion::BASE, SCRIPT_VERIFY_CONST_SCRIPTCODE,
# which is in btcdeb's default flags): scriptCode = the script from the last OP_CODESEPARATOR; FindAndDelete(scriptCode,
# CScript() << sig) with sig = empty looks for the byte 00 (OP_0) as an opcode; the script that contains "0 <pk> CHECKSIG"
# contains it, so the operation fails with SCRIPT_ERR_SIG_FINDANDDELETE ("Signature is found in scriptCode").
want_err = 'Signature is found in scriptCode'
a = session(tree, ['[OP_NOP]', '07'], ['exec ' + ' '.join(ops), 'stack'])
m = re.search(r'(?:Error|exception): (.*)', a[1]); errA = m.group(1).strip() if m else None
stA = stack(a[2])
b = session(tree, ['[' + ' '.join(ops) + ' OP_NOP]', '07'], ['step', 'step', 'step', 'stack'])
m = re.search(r'error: (.*)', b[3]); errB = m.group(1).strip() if m else None
print("exec %s -> message %r, stack (top first) %s" % (' '.join(ops), errA, stA))
print("the same operations as the next operations of the script -> message %r" % errB)
if errA != want_err:
    print("VIOLATION: expected error %r from exec, got %r (the CHECKSIG was carried out and left %s)" % (want_err, errA, stA))
    sys.exit(1)
print("ok")
