#!/usr/bin/env python3
"""Finding 3: btcdeb dies with SIGSEGV on the first interactive command when it cannot append to ./.btcdeb_history
(kerl_add_history(): fopen() result is not checked before fprintf()).
usage: demo.py [tree-dir]     exits 1 when the violation is present, 0 when it is not"""
import os, pty, sys, select, time, signal, tempfile, shutil

tree = os.path.abspath(sys.argv[1] if len(sys.argv) > 1 else '.')
binary = os.path.join(tree, 'btcdeb')
if not os.access(binary, os.X_OK):
    print('no btcdeb binary in', tree); sys.exit(3)

def session(cwd, commands, drop_to_nobody=False):
    """run btcdeb '[OP_1 OP_2]' on a pseudo-terminal in directory cwd, type the commands, then ^D; -> (transcript, status)"""
    pid, fd = pty.fork()
    if pid == 0:
        try:
            if drop_to_nobody:
                os.setgroups([]); os.setgid(65534); os.setuid(65534)
            os.chdir(cwd)
            env = dict(os.environ, TERM='dumb')
            os.execve(binary, [binary, '[OP_1 OP_2]'], env)
        except Exception:
            os._exit(126)
    out = b''
    def drain(t):
        nonlocal out
        end = time.time() + t
        while True:
            r, _, _ = select.select([fd], [], [], max(0, end - time.time()))
            if not r: return True
            try: d = os.read(fd, 65536)
            except OSError: return False
            if not d: return False
            out += d
            if out.rstrip().endswith(b'btcdeb>'): end = min(end, time.time() + 0.1)
    alive = drain(5)
    for c in commands:
        if not alive: break
        os.write(fd, c.encode() + b'\n'); alive = drain(3)
    for _ in range(2):
        if alive:
            try: os.write(fd, b'\x04')
            except OSError: pass
            alive = drain(1)
    t0 = time.time(); status = None
    while time.time() - t0 < 20:
        p, st = os.waitpid(pid, os.WNOHANG)
        if p: status = st; break
        drain(0.1)
    if status is None:
        os.kill(pid, signal.SIGKILL); os.waitpid(pid, 0); return out, 'timeout'
    if os.WIFSIGNALED(status): return out, 'signal %d' % os.WTERMSIG(status)
    return out, 'exit %d' % os.WEXITSTATUS(status)

work = tempfile.mkdtemp()
results = []
try:
    # control: a writable directory
    ok_dir = os.path.join(work, 'writable'); os.mkdir(ok_dir); os.chmod(ok_dir, 0o777)
    results.append(('writable current directory', session(ok_dir, ['stack'])))
    # scenario A: the current directory is not writable for the user (e.g. `cd /usr/share; btcdeb ...`)
    ro_dir = os.path.join(work, 'readonly'); os.mkdir(ro_dir); os.chmod(ro_dir, 0o555); os.chmod(work, 0o755)
    if os.getuid() == 0:
        results.append(('read-only current directory (as user nobody)', session(ro_dir, ['stack'], drop_to_nobody=True)))
    else:
        results.append(('read-only current directory', session(ro_dir, ['stack'])))
    # scenario B (works for root too): .btcdeb_history exists but cannot be opened for appending
    b_dir = os.path.join(work, 'histdir'); os.mkdir(b_dir); os.mkdir(os.path.join(b_dir, '.btcdeb_history'))
    results.append(('.btcdeb_history is a directory', session(b_dir, ['stack'])))
finally:
    os.chmod(work, 0o755)
    shutil.rmtree(work, ignore_errors=True)

bad = False
for name, (out, status) in results:
    print('%-48s -> %s' % (name, status))
    if status.startswith('signal'):
        bad = True
        tail = out.decode('latin1').replace('\r', '').strip().split('\n')[-3:]
        print('    last output: ' + ' | '.join(tail))
if bad:
    print("VIOLATION: btcdeb was killed by a signal right after the interactive command `stack` "
          "(expected: the command's result, '- empty stack -', and a normal exit at end of input)")
    sys.exit(1)
print('ok: every session ended normally')
sys.exit(0)
