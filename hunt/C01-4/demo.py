#!/usr/bin/env python3
"""FIND/4: the initial (witness) stack is not checked against the resource limits. usage: demo.py [tree]"""
import hashlib, os, struct, subprocess, sys

TREE = os.path.abspath(sys.argv[1] if len(sys.argv) > 1 else '.')
BTCDEB = os.path.join(TREE, 'btcdeb')

# ---- minimal transaction builder -------------------------------------------------------
def cs(n):
    if n < 253: return bytes([n])
    if n < 0x10000: return b'\xfd' + struct.pack('<H', n)
    return b'\xfe' + struct.pack('<I', n)
def dsha(b): return hashlib.sha256(hashlib.sha256(b).digest()).digest()
def ser_tx(vin, vout, wits=None, version=2, locktime=0):
    b = struct.pack('<i', version) + (b'\x00\x01' if wits is not None else b'') + cs(len(vin))
    for (h, n, ss, seq) in vin:
        b += h + struct.pack('<I', n) + cs(len(ss)) + ss + struct.pack('<I', seq)
    b += cs(len(vout))
    for (v, spk) in vout:
        b += struct.pack('<q', v) + cs(len(spk)) + spk
    if wits is not None:
        for w in wits:
            b += cs(len(w))
            for it in w: b += cs(len(it)) + it
    return b + struct.pack('<I', locktime)
def spend_pair(spk, scriptSig=b'', witness=None):
    """(txin_hex, tx_hex): a funding transaction whose output 0 carries spk, and a transaction spending it"""
    prev = ser_tx([(b'\x11' * 32, 0, b'', 0xffffffff)], [(100000, spk)])
    vin = [(dsha(prev), 0, scriptSig, 0xffffffff)]
    vout = [(90000, b'\x51')]
    return prev.hex(), ser_tx(vin, vout, None if witness is None else [witness]).hex()

def btcdeb(args):
    """non-interactive run (stdin is not a terminal, the empty script line makes btcdeb take everything from --tx/--txin)"""
    p = subprocess.run([BTCDEB] + args, stdin=subprocess.DEVNULL, stdout=subprocess.PIPE, stderr=subprocess.PIPE, cwd=TREE, timeout=60)
    return p.returncode, p.stdout.decode(errors='replace'), p.stderr.decode(errors='replace')

def errline(err):
    l = [x for x in err.split('\n') if x.startswith('error:')]
    return l[-1] if l else '(no error)'

# ---- single-leaf taproot output (BIP341), pure python ------------------------------------
P_ = 0xFFFFFFFFFFFFFFFFFFFFFFFFFFFFFFFFFFFFFFFFFFFFFFFFFFFFFFFEFFFFFC2F
N_ = 0xFFFFFFFFFFFFFFFFFFFFFFFFFFFFFFFEBAAEDCE6AF48A03BBFD25E8CD0364141
G_ = (0x79BE667EF9DCBBAC55A06295CE870B07029BFCDB2DCE28D959F2815B16F81798, 0x483ADA7726A3C4655DA4FBFC0E1108A8FD17B448A68554199C47D08FFB10D4B8)
def padd(a, b):
    if a is None: return b
    if b is None: return a
    if a[0] == b[0] and a[1] != b[1]: return None
    if a == b: lam = (3 * a[0] * a[0] * pow(2 * a[1], P_ - 2, P_)) % P_
    else: lam = ((b[1] - a[1]) * pow(b[0] - a[0], P_ - 2, P_)) % P_
    x = (lam * lam - a[0] - b[0]) % P_
    return (x, (lam * (a[0] - x) - a[1]) % P_)
def pmul(a, k):
    r = None
    while k:
        if k & 1: r = padd(r, a)
        a = padd(a, a); k >>= 1
    return r
def tagged(tag, msg):
    t = hashlib.sha256(tag.encode()).digest()
    return hashlib.sha256(t + t + msg).digest()
def taproot_spend(script, stack_items):
    """script-path spend of a one-leaf (leaf version 0xc0) taproot output with internal key G"""
    px = G_[0].to_bytes(32, 'big')           # G has even y
    leaf = tagged('TapLeaf', b'\xc0' + cs(len(script)) + script)
    t = int.from_bytes(tagged('TapTweak', px + leaf), 'big')
    assert t < N_
    q = padd(G_, pmul(G_, t))
    control = bytes([0xc0 | (q[1] & 1)]) + px
    return spend_pair(b'\x51\x20' + q[0].to_bytes(32, 'big'), witness=list(stack_items) + [script, control])

bad = []
ws = bytes([0x82, 0x77])   # OP_SIZE OP_NIP

# (a) P2WSH (segwit v0), witness = [ <521 bytes>, witnessScript ]
#     Bitcoin (BIP141, ExecuteWitnessScript): a witness stack item larger than 520 bytes fails the script with
#     "Push value size limit exceeded" before any operation runs.
txin, tx = spend_pair(b'\x00\x20' + hashlib.sha256(ws).digest(), witness=[b'\xaa' * 521, ws])
rc, out, err = btcdeb(['--tx=' + tx, '--txin=' + txin])
print('(a) P2WSH 8277 with a 521-byte initial stack item: rc=%d stack=%r %s' % (rc, out.split(), errline(err)))
if not (rc != 0 and 'Push value size' in err):
    bad.append('(a) segwit v0: expected "Push value size limit exceeded" before execution; btcdeb ran it: rc=%d final stack=%r' % (rc, out.split()))

# (b) the same for tapscript (BIP342: "If the initial stack violates any resource limits (stack size, and size of
#     the elements in the stack), fail")
txin, tx = taproot_spend(ws, [b'\xaa' * 521])
rc, out, err = btcdeb(['--tx=' + tx, '--txin=' + txin])
print('(b) tapscript 8277 with a 521-byte initial stack item: rc=%d stack=%r %s' % (rc, out.split(), errline(err)))
if not (rc != 0 and 'Push value size' in err):
    bad.append('(b) tapscript: expected "Push value size limit exceeded" before execution; btcdeb ran it: rc=%d final stack=%r' % (rc, out.split()))

# (c) tapscript, 1001 initial stack items, script = 500 x OP_2DROP: Bitcoin fails with "Stack size limit exceeded"
#     before execution (initial stack > 1000 items)
txin, tx = taproot_spend(b'\x6d' * 500, [b'\x01'] * 1001)
rc, out, err = btcdeb(['--tx=' + tx, '--txin=' + txin])
print('(c) tapscript 500 x OP_2DROP with 1001 initial stack items: rc=%d stack=%r %s' % (rc, out.split(), errline(err)))
if not (rc != 0 and 'Stack size' in err):
    bad.append('(c) tapscript: expected "Stack size limit exceeded" before execution; btcdeb ran all 500 operations: rc=%d final stack=%r' % (rc, out.split()))

if bad:
    print('VIOLATION: initial stacks that Bitcoin rejects are executed')
    for b in bad: print('  ' + b)
    sys.exit(1)
print('no violation')
sys.exit(0)
