#!/bin/bash
# Finding 2: the Value parser reads (copies) struct members that were never initialised (Value::opcode / Value::int64).
# A UndefinedBehaviorSanitizer build of btcc.cpp (value.h is header-only; linked to the tree's own libraries, nothing in
# the tree is touched) reports it for the plain command line `btcc 1000 2000`.
# usage: demo.sh [tree-dir]      exits 1 when the violation is present, 0 when it is not
TREE="$(cd "${1:-.}" && pwd)"
for f in btcc.cpp value.h libbitcoin.a libbitcoin_deb.a secp256k1/.libs/libsecp256k1.a; do
    [ -e "$TREE/$f" ] || { echo "missing $TREE/$f (tree not built?)"; exit 3; }
done
W=$(mktemp -d)
trap 'rm -rf "$W"' EXIT
if ! g++ -std=c++17 -DHAVE_CONFIG_H -I"$TREE" -I"$TREE/config" -I"$TREE/secp256k1/include" -w -g -O0 \
      -fsanitize=undefined -fno-sanitize-recover=undefined -o "$W/btcc-ubsan" "$TREE/btcc.cpp" \
      "$TREE/libbitcoin_deb.a" "$TREE/libbitcoin.a" "$TREE/secp256k1/.libs/libsecp256k1.a" > "$W/build.log" 2>&1; then
    echo "could not build the UBSan variant of btcc:"; tail -5 "$W/build.log"; exit 3
fi
# MALLOC_PERTURB_ makes glibc fill fresh heap memory with a non-zero byte instead of whatever happens to be there,
# so that the never-written member does not hold a "valid" enumerator by luck
MALLOC_PERTURB_=165 UBSAN_OPTIONS=print_stacktrace=0 "$W/btcc-ubsan" 1000 2000 > "$W/out" 2> "$W/err"
rc=$?
if grep -q "runtime error" "$W/err"; then
    echo "VIOLATION: \`btcc 1000 2000\` under UBSan (exit status $rc; the regular btcc prints 02e80302d007):"
    grep "runtime error" "$W/err" | sed "s#$TREE/##"
    echo "expected: no use of uninitialised memory; a Value of type T_INT is copied including its never-set 'opcode' member"
    exit 1
fi
echo "ok: no sanitizer report, output $(cat "$W/out") (exit status $rc)"
exit 0
