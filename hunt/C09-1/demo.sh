#!/bin/bash
# Finding 1: an empty --modify-flags list is silently accepted (not rejected as malformed).
# usage: demo.sh [tree-dir]   (exit 1 = violation present, 0 = not present)
T="${1:-.}"
B="$T/btcdeb"
[ -x "$B" ] || { echo "no btcdeb binary in $T"; exit 2; }
fail=0

# control: lists with an empty element are recognised as malformed and rejected
for l in "," "+SIGPUSHONLY," ",+SIGPUSHONLY" "+SIGPUSHONLY,,-P2SH"; do
    out=$(echo '[OP_1]' | "$B" "--modify-flags=$l" 2>&1); rc=$?
    if [ $rc -eq 0 ]; then echo "control: list '$l' was not rejected (rc=0): $out"; fi
done

# the empty list: consists of one empty element (no +/-, no name) -> must be rejected too
for form in "--modify-flags=" "-f"; do
    if [ "$form" = "-f" ]; then
        out=$(echo '[OP_1]' | "$B" -f "" 2>&1); rc=$?
    else
        out=$(echo '[OP_1]' | "$B" "--modify-flags=" 2>&1); rc=$?
    fi
    if [ $rc -eq 0 ] || ! echo "$out" | grep -q "svf_parse_flags"; then
        echo "VIOLATION: empty flag list given as '$form' was accepted: rc=$rc, output: $out"
        echo "  expected: rejection (exit 1, 'svf_parse_flags(): expected + or - near ...') as for ',' or '+SIGPUSHONLY,'"
        fail=1
    fi
done
exit $fail
