#!/usr/bin/env python3
# Finding 1: tap cannot report a sighash for a transaction with more than one input:
# it dies on an assertion in PrecomputedTransactionData::Init (SIGABRT), for key-path and script-path alike.
import os, sys
sys.path.insert(0, os.path.dirname(os.path.abspath(__file__)))
from ref import *

tree = os.path.abspath(sys.argv[1] if len(sys.argv) > 1 else '.')
TAP = os.path.join(tree, 'tap')

def field(out, prefix):
    for l in out.splitlines():
        if l.startswith(prefix): return l[len(prefix):].strip()
    return None

seckey = sha256(b'internal')
K = xonly_from_sec(b2i(seckey))
leafkey = sha256(b'bob')
script0 = b'\x20' + xonly_from_sec(b2i(leafkey)) + b'\xac'      # <bob> OP_CHECKSIG
script1 = b'\x51'                                               # OP_1
base = [K.hex(), '2', '0x' + script0.hex(), '0x' + script1.hex()]

out, err, rc = run([TAP] + base)
addr = field(out, 'Resulting Bech32m address: ')
dec = bech32m_decode(addr) if addr else None
if not dec:
    print('tap did not print a decodable address:', out, err); sys.exit(2)
Q = dec[2]
root = branch_hash(leaf_hash(script0), leaf_hash(script1))
assert taproot_tweak(K, root)[0] == Q, 'address is not the BIP341 output key (unexpected)'
spk = b'\x51\x20' + Q

# funding transaction: output 0 pays the printed address, output 1 is an ordinary P2WPKH output
fund = Tx(2, [dict(txid=sha256(b'prev'), n=0, seq=0xfffffffe)],
          [(100000, spk), (70000, b'\x00\x14' + sha256(b'other')[:20])], 0)
# spending transaction with TWO inputs: both prevouts are in the funding transaction tap is given
spend = Tx(2, [dict(txid=fund.txid(), n=0, seq=0xffffffff), dict(txid=fund.txid(), n=1, seq=0xffffffff)],
           [(160000, b'\x00\x14' + sha256(b'dest')[:20])], 0)
spent = [fund.vout[0], fund.vout[1]]
txargs = ['--tx=' + spend.ser().hex(), '--txin=' + fund.ser().hex()]

failures = []
for name, extra, leaf in (('key-path', [], None), ('script-path (leaf 0)', ['0'], leaf_hash(script0))):
    ref = sighash341(spend, 0, spent, leafhash=leaf).hex()
    out, err, rc = run_pty([TAP] + txargs + base + extra)
    got = field(out + '\n' + err, 'sighash (little endian) = ')
    rtx = field(out, 'Resulting transaction: ')
    print('%s: tap exit status %s, reported sighash %s, BIP341 digest of the 2-input transaction %s' % (name, rc, got, ref))
    if rc is not None and rc < 0:
        last = [l for l in err.splitlines() if l.strip()][-1:] or ['']
        failures.append('%s: tap was killed by signal %d: %s' % (name, -rc, last[0]))
    elif got is not None and got != ref:
        failures.append('%s: reported sighash %s is not the BIP341 digest %s' % (name, got, ref))
    elif got is None and rc == 0:
        failures.append('%s: tap exited 0 without reporting a sighash' % name)
    # (a clean refusal - non-zero exit with an error message - is not counted as a violation)

if failures:
    print('VIOLATION:')
    for f in failures: print('  ' + f)
    sys.exit(1)
print('ok: no violation')
sys.exit(0)
