#!/usr/bin/env python3
"""Taproot key-path spend WITH an annex: a valid BIP340 signature over the BIP341 digest is rejected by btcdeb.
usage: demo.py [tree-dir]   (exit 1 = violation present, 0 = not present)"""
import os, sys, subprocess, random
sys.path.insert(0, os.path.dirname(os.path.abspath(__file__)))
from ref import *
tree = os.path.abspath(sys.argv[1] if len(sys.argv) > 1 else '.')

def btcdeb(tx, prev):
    p = subprocess.run([os.path.join(tree, 'btcdeb'), '--tx=' + tx.ser().hex(), '--txin=' + prev.ser().hex()],
                       stdin=subprocess.DEVNULL, stdout=subprocess.PIPE, stderr=subprocess.PIPE, timeout=60)
    out = p.stdout.decode(errors='replace').strip().splitlines()
    err = [l[l.index('error: '):] for l in p.stderr.decode(errors='replace').splitlines() if 'error: ' in l]
    return p.returncode, (out[-1].strip() if out else ''), (err[-1] if err else '')

rng = random.Random(2024)
fails = 0
for annex in (None, b'\x50', b'\x50' + bytes(range(1, 40))):
    for ht in (0, 1, 0x83):
        dint = rng.randrange(1, N)
        q, parity, dq = taptweak(dint, None)              # output key Q = P + H_TapTweak(P)G, no script tree
        spk = b'\x51\x20' + q
        amount = 1234567
        prev = Tx(2, [dict(txid=rng.randbytes(32), n=0, script=b'', seq=0xffffffff)], [(amount, spk)], 0)
        tx = Tx(2, [dict(txid=prev.txid(), n=0, script=b'', seq=0xfffffffd, wit=[])], [(amount - 500, b'\x51')], 0)
        digest = bip341_sighash(tx, 0, [(amount, spk)], ht, annex=annex)      # BIP341 (ext_flag 0), annex committed
        sig = schnorr_sign(dq, digest) + (bytes([ht]) if ht else b'')
        assert schnorr_verify(q, digest, sig[:64])                             # reference: the signature is valid
        tx.vin[0]['wit'] = [sig] + ([annex] if annex is not None else [])
        rc, top, err = btcdeb(tx, prev)
        ok = rc == 0 and top == '01'
        tag = 'annex=%s hashtype=%02x' % ('none' if annex is None else annex.hex()[:10] + ('..' if len(annex) > 5 else ''), ht)
        if ok: print('ok      ', tag, '-> final stack 01')
        else:
            fails += 1
            print('DIFFERS ', tag, '-> expected OP_CHECKSIG to succeed (valid BIP340 signature over the BIP341 digest incl. sha_annex);')
            print('          btcdeb: exit %d, %s, last stdout line: %r' % (rc, err or '(no error line)', top))
            print('          btcdeb --tx=%s --txin=%s' % (tx.ser().hex(), prev.ser().hex()))
if fails:
    print('%d key-path spends with an annex were rejected although the signature is valid' % fails); sys.exit(1)
print('no difference'); sys.exit(0)
