#!/usr/bin/env python3
# btcc: the OP_xNN escape emits byte NN for every NN except ff, where it emits an ASCII push of the token text.
# usage: demo.py [TREE]
import os, subprocess, sys
tree = sys.argv[1] if len(sys.argv) > 1 else '.'
btcc = os.path.join(tree, 'btcc')
def run(args):
    p = subprocess.run([btcc] + args, stdout=subprocess.PIPE, stderr=subprocess.PIPE)
    return p.stdout.decode().strip()
fails = []
# every escape, all four spellings: the promised output is the single byte NN
for v in range(256):
    for tok in ('OP_x%02x' % v, 'x%02x' % v, 'OP_x%02X' % v, 'x%02X' % v):
        got = run([tok])
        if got != '%02x' % v:
            fails.append('btcc %s: promised %02x, got %s' % (tok, v, got))
# in context
for args, want in ((['OP_DUP', 'OP_xff', 'OP_DROP'], '76ff75'),
                   (['OP_DUP', 'OP_xfe', 'OP_DROP'], '76fe75'),
                   (['[OP_IF OP_xff OP_ENDIF OP_1 OP_2]'], '0563ff685152')):
    got = run(args)
    if got != want:
        fails.append('btcc %s: promised %s, got %s' % (' '.join(args), want, got))
if fails:
    print('VIOLATION: an OP_xNN escape is not assembled into the opcode byte NN')
    for f in fails: print(' -', f)
    sys.exit(1)
print('ok: all 256 OP_xNN escapes assemble to their byte')
