#!/usr/bin/env python3
# Finding 1: witness stack items of --tx are not loaded "as encoded" when btcdeb sets up a
# session from --tx/--txin: items whose hex happens to consist of decimal digits only are
# re-read as decimal NUMBERS (0x1234 -> 1234 -> bytes d2 04).
import sys, os, struct, hashlib, subprocess

tree = os.path.abspath(sys.argv[1] if len(sys.argv) > 1 else '.')
btcdeb = os.path.join(tree, 'btcdeb')

def cs(n):
    assert n < 253
    return bytes([n])

def ser(ver, vin, vout, lock, wit=True):
    haswit = wit and any(i[4] for i in vin)
    b = struct.pack('<i', ver)
    if haswit: b += b'\x00\x01'
    b += cs(len(vin))
    for h, n, sc, seq, _ in vin: b += h + struct.pack('<I', n) + cs(len(sc)) + sc + struct.pack('<I', seq)
    b += cs(len(vout))
    for v, sc in vout: b += struct.pack('<q', v) + cs(len(sc)) + sc
    if haswit:
        for i in vin:
            b += cs(len(i[4]))
            for it in i[4]: b += cs(len(it)) + it
    return b + struct.pack('<I', lock)

def dsha(b): return hashlib.sha256(hashlib.sha256(b).digest()).digest()

def run(item):
    # P2WSH output whose witness script is: <item> OP_EQUAL ; spent with witness [item, script].
    # By BIP141 the script runs with initial stack [item] -> "<item> <item> OP_EQUAL" -> true (01).
    wscript = bytes([len(item)]) + item + b'\x87'
    spk = b'\x00\x20' + hashlib.sha256(wscript).digest()
    fund_vin = [(b'\x22' * 32, 0, b'', 0xffffffff, [])]
    fund_vout = [(100000, spk)]
    fund = ser(2, fund_vin, fund_vout, 0)
    fund_txid = dsha(ser(2, fund_vin, fund_vout, 0, wit=False))
    spend = ser(2, [(fund_txid, 0, b'', 0xffffffff, [item, wscript])], [(90000, b'\x51')], 0)
    p = subprocess.run([btcdeb, '--tx=' + spend.hex(), '--txin=' + fund.hex()],
                       stdin=subprocess.DEVNULL, capture_output=True, text=True, cwd=tree)
    return p.returncode, p.stdout.strip(), p.stderr

fail = 0
# control: an item whose hex contains a letter is loaded verbatim -> script succeeds with 01
rc, out, err = run(bytes.fromhex('ab34'))
print('control item ab34 -> rc=%d final stack=%r' % (rc, out))
if out.split('\n')[-1:] != ['01']:
    print('control case did not end with a true (01) stack; setup problem?\n' + err)
    sys.exit(2)
for item in (bytes.fromhex('1234'), bytes.fromhex('51'), bytes.fromhex('1122334455667788')):
    rc, out, err = run(item)
    last = out.split('\n')[-1] if out else ''
    ok = (last == '01')
    print('witness item %s -> rc=%d final stack=%r %s' % (item.hex(), rc, out, 'ok' if ok else
          'DIFFERS: "<item> OP_EQUAL" against the same item from the witness must leave 01'))
    if not ok:
        fail = 1
        for l in err.split('\n'):
            if 'ambiguous input' in l: print('   btcdeb says: ' + l)
sys.exit(fail)
