// exploration harness: enumerate {step,rewind} histories and compare to fresh sessions
#include <instance.h>
#include <debugger/script.h>
#include <string>
#include <vector>
#include <map>
#include <cstdio>
#include <cstring>
#include <random>

struct Cfg {
    std::string tx, txin, script; std::vector<std::string> stack; unsigned flags = STANDARD_SCRIPT_VERIFY_FLAGS; bool disabled=false; int select=-1;
    std::string pretend;
};
static Cfg cfg;

static Instance* mk() {
    Instance* i = new Instance();
    if (!cfg.tx.empty()) { if (!i->parse_transaction(cfg.tx.c_str(), true)) { fprintf(stderr, "bad tx\n"); exit(2);} }
    if (!cfg.txin.empty()) { if (!i->parse_input_transaction(cfg.txin.c_str(), cfg.select)) { fprintf(stderr, "bad txin\n"); exit(2);} }
    if (!cfg.pretend.empty()) i->parse_pretend_valid_expr(cfg.pretend.c_str());
    if (!cfg.script.empty()) { if (!i->parse_script(cfg.script.c_str())) { fprintf(stderr, "invalid script\n"); exit(2);} }
    std::vector<const char*> a; for (auto& s : cfg.stack) a.push_back(s.c_str());
    i->parse_stack_args(a);
    if (i->txin && i->tx && a.size() == 0 && i->script.size() == 0) { if (!i->configure_tx_txin()) { fprintf(stderr, "configure failed\n"); exit(2);} }
    if (!i->setup_environment(cfg.flags)) { fprintf(stderr, "setup failed\n"); exit(2); }
    i->env->allow_disabled_opcodes = cfg.disabled;
    return i;
}

static std::string hexs(const std::vector<std::vector<unsigned char>>& st) {
    std::string r = "[";
    for (auto& v : st) { r += HexStr(v); r += ","; }
    return r + "]";
}

static std::string state(Instance& i) {
    auto& e = *i.env;
    std::string vf;
    for (size_t k = 0; k < e.vfExec.size(); ++k) vf += e.vfExec.at(k) ? '1' : '0';
    char buf[512];
    snprintf(buf, sizeof buf, " pc=%ld seq=%d nop=%d vf=%s cs=%ld opos=%u csp=%u w=%lld winit=%d done=%d p2sh=%d succ=%zu tce=%d/%d script=",
        (long)(e.pc - e.script.begin()), e.curr_op_seq, e.nOpCount, vf.c_str(), (long)(e.pbegincodehash - e.script.begin()), e.opcode_pos,
        e.execdata.m_codeseparator_pos, (long long)(e.execdata.m_validation_weight_left_init ? e.execdata.m_validation_weight_left : -1), (int)e.execdata.m_validation_weight_left_init, (int)e.done, (int)e.is_p2sh, e.successor_script.size(),
        e.tce ? 1 : 0, e.tce ? e.tce->m_i : -1);
    return "st=" + hexs(e.stack) + " alt=" + hexs(e.altstack) + buf + HexStr(e.script) + " tlh=" + (e.execdata.m_tapleaf_hash_init ? e.execdata.m_tapleaf_hash.ToString() : "-");
}

// commands as btcdeb's fn_step / fn_rewind do them. return: 1 accepted, 0 refused/failed
static int cmd_step(Instance& i) { if (i.env->done) return 0; return i.step() ? 1 : 0; }
static int cmd_rewind(Instance& i) { if (i.at_start()) return 0; return i.rewind() ? 1 : 0; }

static std::string finish(Instance& i) {
    int n = 0;
    while (!i.env->done) { if (!i.step()) return "FAIL(" + i.error_string() + ") after " + std::to_string(n) + " " + state(i); ++n; }
    return "OK after " + std::to_string(n) + " " + state(i);
}

static Instance* fresh(int n) { Instance* i = mk(); for (int k = 0; k < n; ++k) if (!cmd_step(*i)) { fprintf(stderr, "fresh: step %d failed\n", k); } return i; }

static int problems = 0; static bool nofinal = false;
// replay a history; returns false if a step fails (history out of scope). checks along the way only the last command.
static bool check(const std::string& hist) {
    Instance* i = mk();
    int net = 0; bool ok = true;
    std::string before;
    for (size_t k = 0; k < hist.size(); ++k) {
        bool last = k + 1 == hist.size();
        if (last) before = state(*i);
        if (hist[k] == 's') { if (!cmd_step(*i)) { ok = false; break; } ++net; if (nofinal && i->env->done && !last) { delete i; return false; } }
        else { int r = cmd_rewind(*i); if (r) --net; else if (last) { if (state(*i) != before) { printf("HIST %s: refused rewind changed state\n  before %s\n  after  %s\n", hist.c_str(), before.c_str(), state(*i).c_str()); ++problems; } } }
    }
    if (ok) {
        Instance* f = fresh(net);
        std::string a = state(*i), b = state(*f);
        if (a != b) { printf("HIST %s (net %d): state differs\n  got   %s\n  fresh %s\n", hist.c_str(), net, a.c_str(), b.c_str()); ++problems; }
        else {
            std::string fa = finish(*i), fb = finish(*f);
            if (fa != fb) { printf("HIST %s (net %d): outcome differs\n  got   %s\n  fresh %s\n", hist.c_str(), net, fa.c_str(), fb.c_str()); ++problems; }
        }
        delete f;
    }
    delete i;
    return ok;
}

static void dfs(std::string& h, int depth) {
    if (problems > 20) return;
    if (!h.empty() && !check(h)) return;
    if ((int)h.size() >= depth) return;
    h.push_back('s'); dfs(h, depth); h.pop_back();
    h.push_back('r'); dfs(h, depth); h.pop_back();
}

int main(int argc, char** argv) {
    btc_logf = btc_logf_dummy;
    int depth = 8; std::string single; int walks = 0, walklen = 0;
    int a = 1;
    for (; a < argc; ++a) {
        std::string s = argv[a];
        if (s.rfind("--tx=", 0) == 0) cfg.tx = s.substr(5);
        else if (s.rfind("--txin=", 0) == 0) cfg.txin = s.substr(7);
        else if (s.rfind("--depth=", 0) == 0) depth = atoi(s.c_str() + 8);
        else if (s.rfind("--hist=", 0) == 0) single = s.substr(7);
        else if (s.rfind("--walks=", 0) == 0) { walks = atoi(s.c_str() + 8); }
        else if (s.rfind("--len=", 0) == 0) { walklen = atoi(s.c_str() + 6); }
        else if (s.rfind("--flags=", 0) == 0) cfg.flags &= ~(unsigned)strtoul(s.c_str() + 8, nullptr, 0);
        else if (s.rfind("--select=", 0) == 0) cfg.select = atoi(s.c_str() + 9);
        else if (s.rfind("--pretend=", 0) == 0) cfg.pretend = s.substr(10);
        else if (s == "-z") cfg.disabled = true;
        else if (s == "--nofinal") nofinal = true;
        else break;
    }
    if (a < argc) { cfg.script = argv[a++]; }
    for (; a < argc; ++a) cfg.stack.push_back(argv[a]);
    { Instance* i = mk(); printf("initial: %s\n", state(*i).c_str()); printf("run: %s\n", finish(*i).c_str()); delete i; }
    if (!single.empty()) { check(single); }
    else if (walks) {
        std::mt19937 rng(12345);
        for (int w = 0; w < walks && problems < 10; ++w) {
            std::string h;
            for (int k = 0; k < walklen; ++k) {
                h.push_back((rng() % 100) < 60 ? 's' : 'r');
                if (!check(h)) { h.pop_back(); h.push_back('r'); if (!check(h)) break; }
            }
        }
    } else { std::string h; dfs(h, depth); }
    printf("problems: %d\n", problems);
    return problems ? 1 : 0;
}
