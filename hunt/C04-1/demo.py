#!/usr/bin/env python3
"""Rewind after the step that finishes a script undoes TWO steps' worth of state.

usage: demo.py [TREE]     (TREE defaults to the current directory)

Drives interactive btcdeb sessions through a pseudo-terminal.  For each case it
plays a history over {step, rewind}, counts the accepted steps and accepted
rewinds (a command answered with "error:" / "at end of script" is not accepted),
and compares what the session then shows (stack, altstack, vfexec, print) with a
fresh session advanced by the net number of steps.  Exit 1 when they differ.
"""
import os, pty, sys, select, time, signal, tempfile

SCRATCH = tempfile.mkdtemp(prefix='rewind-demo-')  # btcdeb writes .btcdeb_history into its cwd

PROMPT = b'btcdeb> '

class Session:
    def __init__(self, tree, args):
        self.pid, self.fd = pty.fork()
        if self.pid == 0:
            os.chdir(SCRATCH)
            os.environ['TERM'] = 'dumb'
            os.execv(os.path.join(tree, 'btcdeb'), ['btcdeb', '--quiet'] + args)
        self.read()
    def read(self, timeout=15):
        buf = b''
        end = time.time() + timeout
        while time.time() < end:
            r, _, _ = select.select([self.fd], [], [], 0.2)
            if self.fd in r:
                try:
                    d = os.read(self.fd, 65536)
                except OSError:
                    break
                if not d:
                    break
                buf += d
                if buf.endswith(PROMPT):
                    break
        return buf.decode(errors='replace').replace('\r', '')
    def cmd(self, c):
        os.write(self.fd, c.encode() + b'\n')
        out = self.read()
        lines = out.split('\n')
        # drop the echoed command line and the trailing prompt
        if lines and lines[0].strip().endswith(c): lines = lines[1:]
        if lines and lines[-1].strip() == PROMPT.decode().strip(): lines = lines[:-1]
        return '\n'.join(l.rstrip() for l in lines)
    def close(self):
        try: os.kill(self.pid, signal.SIGKILL)
        except OSError: pass
        try: os.waitpid(self.pid, 0)
        except OSError: pass
        os.close(self.fd)

def observe(s):
    return {c: s.cmd(c) for c in ('stack', 'altstack', 'vfexec', 'print')}

def refused(out):
    return 'error:' in out or 'at end of script' in out

def case(tree, args, history):
    a = Session(tree, args)
    net = 0
    for h in history:
        out = a.cmd('step' if h == 's' else 'rewind')
        if h == 's':
            if refused(out):
                print('  (history %s has a refused/failed step: out of scope)' % history)
                a.close()
                return True
            net += 1
        elif not refused(out):
            net -= 1
    got = observe(a)
    a.close()
    b = Session(tree, args)
    for _ in range(net):
        b.cmd('step')
    want = observe(b)
    b.close()
    ok = True
    for k in got:
        if got[k] != want[k]:
            ok = False
            print('  history %s (net %d steps): `%s` differs from a fresh session advanced by %d steps' % (history, net, k, net))
            print('    session after the history:\n' + '\n'.join('      ' + l for l in got[k].split('\n')))
            print('    fresh session + %d steps:\n' % net + '\n'.join('      ' + l for l in want[k].split('\n')))
    return ok

def main():
    tree = os.path.abspath(sys.argv[1] if len(sys.argv) > 1 else '.')
    cases = [
        # 2 ops; the 3rd step is the (accepted, silent) step that finishes the script
        (['[OP_1 OP_2]'], 'sssr'),
        # alt stack: 4 ops + finishing step, then one rewind
        (['[OP_1 OP_TOALTSTACK OP_2 OP_FROMALTSTACK]'], 'sssssr'),
        # conditional nesting: finishing step, rewind lands inside the IF again
        (['[OP_1 OP_IF OP_5 OP_ENDIF]'], 'sssssr'),
        # rewind + step again must be a no-op pair: sssrs should equal 3 net steps (finished), and does not finish
        (['[OP_1 OP_2]'], 'sssrsr'),
    ]
    bad = 0
    for args, hist in cases:
        print('case: btcdeb %s   history %s' % (' '.join(args), hist))
        if not case(tree, args, hist):
            bad += 1
    if bad:
        print('FAIL: %d of %d histories left the session in a state other than "fresh session + net steps"' % (bad, len(cases)))
        return 1
    print('ok: every history matched the fresh session advanced by the net number of steps')
    return 0

if __name__ == '__main__':
    sys.exit(main())
