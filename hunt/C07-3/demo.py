#!/usr/bin/env python3
# btcc: a '#' comment that starts right after a closing ']' (no blank in between) is not skipped:
# its words are assembled into the script.   usage: demo.py [TREE]
import os, subprocess, sys
tree = sys.argv[1] if len(sys.argv) > 1 else '.'
btcc = os.path.join(tree, 'btcc')
def run(args):
    p = subprocess.run([btcc] + args, stdout=subprocess.PIPE, stderr=subprocess.PIPE)
    return p.stdout.decode().strip()
# the same script, written with different comment placements; a comment never contributes to the output.
# body: OP_1..OP_5, a push of the one-opcode script OP_7, OP_8  ->  51 52 53 54 55 | 01 57 | 58   (8 bytes)
WANT = '08' + '5152535455' + '0157' + '58'
variants = [
    ('no comment',                    '[OP_1 OP_2 OP_3 OP_4 OP_5 [OP_7] OP_8]'),
    ('comment after "] "',            '[OP_1 OP_2 OP_3 OP_4 OP_5 [OP_7] # push seven\n OP_8]'),
    ('comment glued to an opcode',    '[OP_1 OP_2 OP_3 OP_4 OP_5# five\n [OP_7] OP_8]'),
    ('comment glued to "]"',          '[OP_1 OP_2 OP_3 OP_4 OP_5 [OP_7]# push seven\n OP_8]'),
    ('comment glued to "]", 1 word',  '[OP_1 OP_2 OP_3 OP_4 OP_5 [OP_7]#c\n OP_8]'),
    ('glued comment holding tokens',  '[OP_1 OP_2 OP_3 OP_4 OP_5 [OP_7]# OP_RETURN 0xdeadbeef\n OP_8]'),
]
fails = []
for label, src in variants:
    got = run([src])
    if got != WANT:
        fails.append('%-30s btcc %r\n      promised: %s\n      got     : %s' % (label + ':', src, WANT, got))
if fails:
    print('VIOLATION: comment text is assembled into the script when "#" directly follows a closing bracket')
    for f in fails: print(' -', f)
    sys.exit(1)
print('ok: all comment placements assemble to', WANT)
