#!/usr/bin/env python3
"""C08 finding 2: with a non-terminal stdin the script given on argv is not run; it is pushed as a stack item
(and a failing script exits 0).

usage: demo.py [TREE]   (TREE defaults to the current directory)
exit 1 + report when the violation is present, exit 0 otherwise.
"""
import os, pty, subprocess, sys

tree = os.path.abspath(sys.argv[1] if len(sys.argv) > 1 else '.')
btcdeb = os.path.join(tree, 'btcdeb')

def run(args, stdin_kind, stdout_tty=False, env=None):
    e = dict(os.environ)
    for k in ('DEBUG_SET_PIPE_IN', 'DEBUG_SET_PIPE_OUT'): e.pop(k, None)
    if env: e.update(env)
    fds = []
    if stdin_kind == 'tty':
        m, s = pty.openpty(); fds += [m, s]; stdin = s
    elif stdin_kind == 'devnull':
        stdin = subprocess.DEVNULL
    elif stdin_kind == 'emptypipe':       # e.g.  : | btcdeb ...   /  cron, ssh without a tty, CI runners
        r, w = os.pipe(); os.close(w); fds += [r]; stdin = r
    try:
        p = subprocess.run([btcdeb, *args], stdin=stdin, stdout=subprocess.PIPE, stderr=subprocess.PIPE,
                           cwd=tree, timeout=30, env=e)
        return p.returncode, p.stdout.decode(), p.stderr.decode()
    except subprocess.TimeoutExpired:
        return 'TIMEOUT', '', ''
    finally:
        for fd in fds: os.close(fd)

bad = []
def check(label, got, exp_rc, exp_out):
    rc, out, err = got
    ok = (rc == exp_rc) and (exp_out is None or out == exp_out)
    print('%-58s rc=%s stdout=%r stderr=%r -> %s' % (label, rc, out[:30], err[:60],
          'ok' if ok else 'DIFFERS (promised rc=%s%s)' % (exp_rc, '' if exp_out is None else ', stdout=%r' % exp_out)))
    if not ok: bad.append(label)

# 1 2 ADD -> final stack [03], exit 0        (reference: consensus semantics of OP_ADD)
S_OK = '[OP_1 OP_2 OP_ADD]'
# 0 VERIFY -> fails with SCRIPT_ERR_VERIFY, exit 1
S_FAIL = '[OP_0 OP_VERIFY]'

check('argv script, stdin=terminal, stdout=pipe (control)', run([S_OK], 'tty'), 0, '03\n')
check('argv script, stdin=/dev/null, stdout=pipe',          run([S_OK], 'devnull'), 0, '03\n')
check('argv script, stdin=empty pipe, stdout=pipe',         run([S_OK], 'emptypipe'), 0, '03\n')
check('failing argv script, stdin=terminal (control)',      run([S_FAIL], 'tty'), 1, None)
check('failing argv script, stdin=/dev/null',               run([S_FAIL], 'devnull'), 1, None)
# informational: the same switch is reachable through a DEBUG_* environment variable (stdin IS a terminal here)
rc, out, err = run([S_OK], 'tty', env={'DEBUG_SET_PIPE_IN': '1'})
print('[informational] DEBUG_SET_PIPE_IN=1, stdin=terminal, stdout=pipe: rc=%s stdout=%r (waits for a script line on the terminal)' % (rc, out[:30]))

if bad:
    print('VIOLATION: the argv script was not run / wrong exit status in:'); [print('  -', b) for b in bad]
    sys.exit(1)
print('no violation')
sys.exit(0)
