#!/bin/bash
# Finding 3: under an ASan+UBSan build, copying a Value loads its never-initialised `opcode` member
# (UBSan: "load of value 3200171710, which is not a valid value for type 'opcodetype'").
# usage: demo.sh [tree-dir]. Builds ONE translation unit (btcc.cpp, which instantiates the header-only
# Value/vector<Value> code) with -fsanitize=address,undefined and links it against the tree's own libraries;
# the build lives in a scratch directory inside the tree and is removed afterwards.
TREE="$(cd "${1:-.}" && pwd)"
cd "$TREE" || exit 2
for f in btcc.cpp libbitcoin.a libbitcoin_deb.a secp256k1/.libs/libsecp256k1.a; do
    [ -e "$f" ] || { echo "missing $f in $TREE (build the tree first)"; exit 2; }
done
B=$(mktemp -d "$TREE/.find2-3-XXXXXX") || exit 2
trap 'rm -rf "$B"' EXIT
g++ -std=c++17 -DHAVE_CONFIG_H -I. -I./config -I./secp256k1/include -g -O0 -w \
    -fsanitize=address,undefined -fno-sanitize-recover=undefined \
    btcc.cpp libbitcoin_deb.a libbitcoin.a secp256k1/.libs/libsecp256k1.a -o "$B/btcc-asan-ubsan" \
    || { echo "could not build the sanitizer variant of btcc"; exit 2; }
fail=0
check() {
    out=$(ASAN_OPTIONS=detect_leaks=0 "$B/btcc-asan-ubsan" "$@" 2>&1); rc=$?
    if echo "$out" | grep -q "runtime error"; then
        echo "VIOLATION: btcc $* -> exit $rc, $(echo "$out" | grep -m1 'runtime error')"
        fail=1
    else
        echo "ok: btcc $* -> exit $rc, $(echo "$out" | tail -1)"
    fi
}
# the example from btcc's own usage text
check OP_DUP OP_HASH160 '[62e907b15cbf27d5425399ebf6f0fb50ebb88f18]' OP_EQUALVERIFY OP_CHECKSIG
# two small numbers
check 1 2
exit $fail
