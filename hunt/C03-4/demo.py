#!/usr/bin/env python3
# A scriptSig with non-push operations: invalid for every P2SH spend (BIP16, consensus) and, under the
# default flags (SIGPUSHONLY is one of them), for every spend.
import sys, os
sys.path.insert(0, os.path.dirname(os.path.abspath(__file__)))
from txlib import *
T = os.path.abspath(sys.argv[1] if len(sys.argv) > 1 else '.')
dest = TxOut(90000, b'\x00\x14' + b'\x11' * 20)
d = 0x1234567890abcdef1234567890abcdef1234567890abcdef1234567890abcdef
pk = pub_compressed(d); h = hash160(pk)

bad = 0
def case(name, tx, fund, expect_valid, why, extra=()):
    global bad
    rc, out, err = run_btcdeb(T, tx, fund, extra)
    got = accepted(rc, out)
    ok = got == expect_valid
    print("%-4s %-58s consensus: %-7s btcdeb: %s (exit %d%s)" % ("ok" if ok else "DIFF", name,
          "valid" if expect_valid else "INVALID", "accepts" if got else "rejects", rc,
          ", final stack %r" % out.split('\n')[:-1] if rc == 0 else ": " + (err.strip().splitlines() or [''])[-1]))
    if not ok:
        print("       " + why); bad += 1

# P2SH, redeem script OP_1
redeem = b'\x51'
fund = funding_tx([(b'\xa9\x14' + hash160(redeem) + b'\x87', 100000)])
tx = Tx([TxIn(fund.hash(), 0, script_sig=push(redeem))], [dest])
case("P2SH(OP_1)  scriptSig = <51>", tx, fund, True, "plain P2SH spend")
tx.vin[0].script_sig = b'\x61' + push(redeem)
case("P2SH(OP_1)  scriptSig = OP_NOP <51>", tx, fund, False,
     "BIP16: the scriptSig of a P2SH spend must be push-only (SCRIPT_ERR_SIG_PUSHONLY), also by default flag SIGPUSHONLY")
case("P2SH(OP_1)  scriptSig = OP_NOP <51>, flags -SIGPUSHONLY", tx, fund, False,
     "BIP16 push-only rule is part of the P2SH flag, not of SIGPUSHONLY", ['--modify-flags=-SIGPUSHONLY'])

# P2PKH with a correct signature, default flags
spk = b'\x76\xa9\x14' + h + b'\x88\xac'
fund = funding_tx([(spk, 100000)])
tx = Tx([TxIn(fund.hash(), 0)], [dest])
sig = ecdsa_sign(d, sighash_legacy(tx, 0, spk))       # the legacy sighash does not cover the scriptSig
tx.vin[0].script_sig = push(sig) + push(pk)
case("P2PKH  scriptSig = <sig> <pk>", tx, fund, True, "plain P2PKH spend")
tx.vin[0].script_sig = push(sig) + push(pk) + b'\x61'
case("P2PKH  scriptSig = <sig> <pk> OP_NOP  (default flags)", tx, fund, False,
     "SIGPUSHONLY is in the default flag set (btcdeb --default-flags lists it): VerifyScript fails with SIG_PUSHONLY")
sys.exit(1 if bad else 0)
