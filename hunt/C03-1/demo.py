#!/usr/bin/env python3
# P2SH-wrapped segwit: the scriptSig must be exactly one canonical push of the redeem script.
import sys, os
sys.path.insert(0, os.path.dirname(os.path.abspath(__file__)))
from txlib import *
T = os.path.abspath(sys.argv[1] if len(sys.argv) > 1 else '.')

d = 0x1234567890abcdef1234567890abcdef1234567890abcdef1234567890abcdef
pk = pub_compressed(d); h = hash160(pk)
redeem = b'\x00\x14' + h                                   # 0 <20-byte key hash>
spk = b'\xa9\x14' + hash160(redeem) + b'\x87'              # HASH160 <h> EQUAL
fund = funding_tx([(spk, 100000)])
tx = Tx([TxIn(fund.hash(), 0, script_sig=push(redeem))], [TxOut(90000, b'\x00\x14' + b'\x11' * 20)])
script_code = b'\x76\xa9\x14' + h + b'\x88\xac'
# BIP143 does not commit to the scriptSig, so the same witness serves every variant below
tx.vin[0].witness = [ecdsa_sign(d, sighash_bip143(tx, 0, script_code, 100000)), pk]

bad = 0
def case(name, script_sig, expect_valid, why):
    global bad
    tx.vin[0].script_sig = script_sig
    rc, out, err = run_btcdeb(T, tx, fund)
    got = accepted(rc, out)
    ok = got == expect_valid
    print("%-4s %-44s consensus: %-7s btcdeb: %s (exit %d, final stack %r)" % (
        "ok" if ok else "DIFF", name, "valid" if expect_valid else "INVALID", "accepts" if got else "rejects", rc, out.split('\n')[:-1] if rc == 0 else None))
    if not ok:
        print("       " + why)
        bad += 1

case("scriptSig = <redeem>", push(redeem), True, "a correct P2SH-P2WPKH spend must verify")
case("scriptSig = <redeem> <01>", push(redeem) + push(b'\x01'), False,
     "P2SH hashes the TOP item (01), which is not the committed script: HASH160/EQUAL gives false (EVAL_FALSE)")
case("scriptSig = PUSHDATA1 <redeem>", b'\x4c' + bytes([len(redeem)]) + redeem, False,
     "BIP141: scriptSig must be exactly the canonical push of the redeem script (WITNESS_MALLEATED_P2SH)")
case("scriptSig = <redeem> OP_NOP", push(redeem) + b'\x61', False,
     "BIP16: a P2SH scriptSig must be push-only (SIG_PUSHONLY); BIP141: must be exactly one push")
sys.exit(1 if bad else 0)
