#!/bin/bash
# Malformed --pretend-valid lists that are silently accepted (property: malformed pair lists are rejected).
T="${1:-.}"
B="$T/btcdeb"
[ -x "$B" ] || { echo "no btcdeb binary in $T"; exit 2; }
fail=0
try() { # list, expectation (reject|accept)
    local list="$1" want="$2" out rc
    out=$(echo '[OP_1]' | "$B" --pretend-valid="$list" 2>&1); rc=$?
    if [ $rc -ne 0 ] && echo "$out" | grep -q 'parse error'; then got=reject; else got=accept; fi
    if [ "$got" != "$want" ]; then
        echo "DIFF: --pretend-valid='$list' should be ${want}ed but was ${got}ed (rc=$rc, output: $(echo "$out" | tail -n 1))"; fail=1
    else echo "ok:   --pretend-valid='$list' ${got}ed"; fi
}
# sanity: the parser does know how to reject, and accepts a good list
try "sig1:pub1" accept
try "sig1:pub1,sig2:pub2" accept
try "sig1" reject
try "sig1:pub1:pub2" reject
try "sig1:pub1,,sig2:pub2" reject
# malformed lists that get through:
try "sig1:" reject               # signature without key, nothing after the colon
try "sig1:pub1,sig2:" reject     # last pair has no key (sig2 is silently dropped)
try ":" reject                   # neither signature nor key
# (also accepted, but arguably a matter of taste, so only shown, not counted: the empty list and a trailing comma)
for l in "" "sig1:pub1,"; do
    echo '[OP_1]' | "$B" --pretend-valid="$l" >/dev/null 2>&1 && echo "info: --pretend-valid='$l' is accepted as well"
done
# consequence of the silent drop: the user believes sig2:... is listed, but nothing was recorded
out=$(echo '[OP_CHECKSIG]' | "$B" --pretend-valid="sig1:pub1,sig2:" sig2 pub2 2>&1 | grep -m1 '^error')
echo "info: with -P 'sig1:pub1,sig2:' a later sig2/pub2 check just fails: $out"
if [ $fail -ne 0 ]; then
    echo "VIOLATION: malformed pair lists are accepted without any diagnostic"
    exit 1
fi
exit 0
