#!/usr/bin/env python3
# Finding 4: btcdeb reads past the end of the scriptSig buffer when it lists the scripts of a legacy spend whose
# scriptSig ends in a truncated push (print_dualstack / svprintscripts walk script #2 with an iterator into script #1).
# usage: demo.py [tree]   exit 0 = no violation, 1 = violation present
import os, shutil, subprocess, sys
sys.path.insert(0, os.path.dirname(os.path.abspath(__file__)))
from txlib import *
tree = os.path.abspath(sys.argv[1] if len(sys.argv) > 1 else '.')
btcdeb = os.path.join(tree, 'btcdeb')

# funding tx: one pay-to-pubkey output (uncompressed key: 0x41 <65 bytes> OP_CHECKSIG, 67 bytes)
spk = b'\x41' + b'\x04' + bytes(range(64)) + b'\xac'
txin = ser_tx([(b'\x11' * 32, 0, b'', 0xffffffff)], [(100000, spk)])
# spending tx: scriptSig = OP_PUSHDATA1 that announces 0x50 = 80 bytes but only 30 follow (32 bytes in total)
scriptsig = b'\x4c\x50' + b'\xaa' * 30
tx = ser_tx([(dsha(txin), 0, scriptsig, 0xffffffff)], [(90000, b'\x51')])
cmd = [btcdeb, "--tx=" + tx.hex(), "--txin=" + txin.hex()]
print("command: " + " ".join(cmd) + " </dev/null")

fail = 0
r = subprocess.run(cmd, stdin=subprocess.DEVNULL, capture_output=True, text=True)
if r.returncode < 0:
    print("VIOLATION: btcdeb was killed by signal %d" % -r.returncode); fail = 1
# Reference: the two scripts hold, between them, one (broken) operation + a 65-byte push + OP_CHECKSIG. Whatever the
# listing shows, it cannot have more rows than that (plus the "<<< scriptPubKey >>>" header). Every further row was
# decoded from bytes that belong to neither script, i.e. from memory past the end of the scriptSig buffer.
rows = [l.split('|')[0].strip() for l in r.stdout.splitlines() if '|' in l and not l.startswith('script')]
rows = [x for x in rows if x]
print("btcdeb exit status %d, stderr: %s" % (r.returncode, r.stderr.strip().replace('\n', ' / ')[:160]))
print("rows in the script column of the listing: %d (at most 4 can come from the two scripts)" % len(rows))
if len(rows) > 4:
    from collections import Counter
    print("VIOLATION: the listing contains %d operations, e.g. %s" % (len(rows), dict(Counter(rows).most_common(4))))
    print("           (the 30 payload bytes 0xaa re-read as OP_HASH256, followed by whatever lies behind the 32-byte buffer)")
    fail = 1

vg = shutil.which('valgrind')
if vg:
    v = subprocess.run([vg, '-q', '--error-exitcode=99'] + cmd, stdin=subprocess.DEVNULL, capture_output=True, text=True)
    inv = [l for l in v.stderr.splitlines() if 'Invalid read' in l or 'bytes after a block' in l or 'GetScriptOp' in l or 'svprintscripts' in l]
    if v.returncode == 99 and inv:
        print("VIOLATION (valgrind memcheck): " + " | ".join(x.split('== ', 1)[-1].strip()[:110] for x in inv[:4]))
        fail = 1
    else:
        print("valgrind: no invalid read reported (exit %d)" % v.returncode)
else:
    print("(valgrind not installed; memcheck confirmation skipped)")
sys.exit(fail)
