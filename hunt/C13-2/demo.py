#!/usr/bin/env python3
# Finding 2: a well-formed LEGACY encoding with 0 inputs and >=1 outputs (the quantifier says 0..n inputs)
# is not decoded as encoded: the "00" input count is taken for the segwit marker.
#  (a) the plain case (what `createrawtransaction [] {...}` produces) is rejected as truncated;
#  (b) a crafted one is silently accepted as a different (segwit, 1-input, 0-output) transaction, so the
#      txid btcdeb reports is not the double-SHA256 of the given (witness-less) encoding.
import sys, os, struct, hashlib, subprocess, re
tree = os.path.abspath(sys.argv[1] if len(sys.argv) > 1 else '.')
btcdeb = os.path.join(tree, 'btcdeb')
def dsha(b): return hashlib.sha256(hashlib.sha256(b).digest()).digest()
def legacy(ver, vin, vout, lock):
    b = struct.pack('<i', ver) + bytes([len(vin)])
    for h, n, sc, seq in vin: b += h + struct.pack('<I', n) + bytes([len(sc)]) + sc + struct.pack('<I', seq)
    b += bytes([len(vout)])
    for v, sc in vout: b += struct.pack('<q', v) + bytes([len(sc)]) + sc
    return b + struct.pack('<I', lock)
def run(args):
    p = subprocess.run([btcdeb] + args, stdin=subprocess.DEVNULL, capture_output=True, text=True, cwd=tree)
    return p.returncode, p.stdout, p.stderr
fail = 0

# (a) 0 inputs, one P2PKH output of 5000 sat
a = legacy(1, [], [(5000, bytes.fromhex('76a914') + b'\x11' * 20 + bytes.fromhex('88ac'))], 0)
rc, out, err = run(['--txin=' + a.hex()])
print('(a) --txin=%s\n    expected: accepted (txid %s); got rc=%d %s' % (a.hex(), dsha(a)[::-1].hex(), rc, err.strip().split('\n')[-1] if rc else 'accepted'))
# control: the same outputs with one input are accepted
c = legacy(1, [(b'\x33' * 32, 0, b'', 0xffffffff)], [(5000, bytes.fromhex('76a914') + b'\x11' * 20 + bytes.fromhex('88ac'))], 0)
rcc, _, errc = run(['--txin=' + c.hex()])
print('    control with one input: rc=%d' % rcc)
if rc != 0 and rcc == 0: fail = 1

# (b) 0 inputs, one output of 1 sat with a 37-byte script chosen so that the bytes also read as a segwit tx
S = bytes(range(1, 29)) + b'\x00' + b'\xff\xff\xff\xff' + b'\x00' + b'\x01\x01\xaa'
b = legacy(1, [], [(1, S)], 0)
txid = dsha(b)                     # legacy encoding has no witness: txid = dsha of all bytes
spend = legacy(2, [(txid, 0, b'', 0xffffffff)], [(0, b'\x51')], 0)
rc, out, err = run(['--tx=' + spend.hex(), '--txin=' + b.hex()])
m = re.search(r'input transaction ([0-9a-f]{64}) is not found', err)
print('(b) --txin=%s\n    expected txid %s (and a spend of its output 0 to be set up)' % (b.hex(), txid[::-1].hex()))
if m and m.group(1) != txid[::-1].hex():
    print('    btcdeb computed txid %s for it: %s' % (m.group(1), err.strip().split('\n')[-1]))
    fail = 1
else:
    print('    rc=%d %s' % (rc, err.strip()[-200:]))
sys.exit(fail)
