#!/usr/bin/env python3
# btcc: hex literals / sub-script bodies of 1..4 bytes are re-encoded "as a number", so the push
# does not place the given bytes on the stack.  usage: demo.py [TREE]
import os, subprocess, sys
tree = sys.argv[1] if len(sys.argv) > 1 else '.'
btcc = os.path.join(tree, 'btcc')

def run(args):
    p = subprocess.run([btcc] + args, stdout=subprocess.PIPE, stderr=subprocess.PIPE)
    return p.stdout.decode().strip()

def minimal_push(b):            # Bitcoin's minimal-push rule (CheckMinimalPush), written independently
    n = len(b)
    if n == 0: return b'\x00'
    if n == 1 and 1 <= b[0] <= 16: return bytes([0x50 + b[0]])
    if n == 1 and b[0] == 0x81: return b'\x4f'
    if n <= 75: return bytes([n]) + b
    if n <= 255: return b'\x4c' + bytes([n]) + b
    return b'\x4d' + n.to_bytes(2, 'little') + b

def decode_pushes(script):      # what the script leaves on the stack, element by element (push-only scripts)
    out, i = [], 0
    while i < len(script):
        op = script[i]; i += 1
        if op == 0: out.append(b'')
        elif op <= 75: out.append(script[i:i+op]); i += op
        elif op == 0x4c: n = script[i]; out.append(script[i+1:i+1+n]); i += 1 + n
        elif op == 0x4d: n = int.from_bytes(script[i:i+2], 'little'); out.append(script[i+2:i+2+n]); i += 2 + n
        elif op == 0x4f: out.append(b'\x81')
        elif 0x51 <= op <= 0x60: out.append(bytes([op - 0x50]))
        else: out.append(('opcode', op))
    return out

fails = []
def expect(args, want_hex, what):
    got = run(args)
    if got != want_hex:
        fails.append('btcc %s\n    promised: %s  (%s)\n    got     : %s  (stack after running it: %s)' % (
            ' '.join(repr(a) for a in args), want_hex, what, got,
            [x.hex() if isinstance(x, bytes) else x for x in decode_pushes(bytes.fromhex(got))] if got else '-'))

# hand-picked hex literals
for lit, data in [('0x0100', '0100'), ('0x80', '80'), ('0x00', '00'), ('00', '00'), ('0x0000', '0000'),
                  ('0x0080', '0080'), ('0x1180', '1180'), ('0xa81400', 'a81400'), ('0x12d56600', '12d56600'),
                  ('0xe6034580', 'e6034580')]:
    expect([lit], minimal_push(bytes.fromhex(data)).hex(), 'minimal push of the %d bytes %s' % (len(data)//2, data))

# bracketed sub-scripts whose compiled body is 1..4 bytes
expect(['[OP_0]'], '0100', 'push of the 1-byte script 00')
expect(['[[]]'], '0100', 'push of the 1-byte script 00 (= push of the empty script)')
expect(['[OP_1 OP_0]'], '025100', 'push of the 2-byte script 51 00')
expect(['[OP_DUP OP_LEFT]'], '027680', 'push of the 2-byte script 76 80')
expect(['[OP_DUP OP_DROP OP_0]'], '03767500', 'push of the 3-byte script 76 75 00')
expect(['[OP_1 [OP_2 OP_0] OP_3 OP_4 OP_5]'], '0751025200535455', 'inner body 52 00 pushed intact')

# exhaustive: every 1-byte and 2-byte hex literal, 256 literals per invocation, compared element by element
bad1 = bad2 = 0
first = None
for width, count in ((1, 256), (2, 65536)):
    for base in range(0, count, 256):
        vals = [(base + k).to_bytes(width, 'big') for k in range(256)]
        got = run(['0x' + v.hex() for v in vals])
        want = b''.join(minimal_push(v) for v in vals).hex()
        if got == want: continue
        for v in vals:                      # locate the individual offenders
            g = run(['0x' + v.hex()])
            if g != minimal_push(v).hex():
                if width == 1: bad1 += 1
                else: bad2 += 1
                if first is None: first = (v.hex(), minimal_push(v).hex(), g)
if bad1 or bad2:
    fails.append('exhaustive sweep: %d of 256 one-byte and %d of 65536 two-byte hex literals are not pushed as given (first: 0x%s promised %s got %s)'
                 % (bad1, bad2, first[0], first[1], first[2]))

if fails:
    print('VIOLATION: btcc does not push the given bytes for short (1-4 byte) hex literals / sub-script bodies')
    for f in fails: print(' -', f)
    sys.exit(1)
print('ok: short hex literals and short sub-script bodies are pushed byte-exact')
