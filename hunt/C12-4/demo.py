#!/usr/bin/env python3
# demo 4: scriptSig with a truncated push: its bytes are left out of the listing, the marker points at the scriptPubKey while step runs the scriptSig, and the pane decodes foreign memory
import os, pty, sys, select, time, re, signal, struct, tempfile

TREE = os.path.abspath(sys.argv[1] if len(sys.argv) > 1 else '.')

def run_session(args, cmds, timeout=15):
    """drive an interactive btcdeb session on a pseudo-terminal; returns [startup output, output of cmd 1, ...]"""
    exe = os.path.join(TREE, 'btcdeb')
    cwd = tempfile.mkdtemp(prefix='btcdeb-demo-')   # .btcdeb_history lands here, not in the tree
    pid, fd = pty.fork()
    if pid == 0:
        os.chdir(cwd)
        env = dict(os.environ); env['TERM'] = 'dumb'
        os.execve(exe, [exe] + args, env)
    def read_until_prompt():
        buf = b''; end = time.time() + timeout
        while time.time() < end:
            r, _, _ = select.select([fd], [], [], 0.2)
            if fd in r:
                try: d = os.read(fd, 65536)
                except OSError: break
                if not d: break
                buf += d
                if buf.endswith(b'btcdeb> '):
                    r2, _, _ = select.select([fd], [], [], 0.05)
                    if not r2: break
        return buf.decode('utf8', 'replace').replace('\r', '')
    outs = [read_until_prompt()]
    for c in cmds:
        os.write(fd, (c + '\n').encode())
        outs.append(read_until_prompt())
    try: os.kill(pid, signal.SIGKILL)
    except OSError: pass
    try: os.waitpid(pid, 0)
    except OSError: pass
    os.close(fd)
    try:
        for f in os.listdir(cwd): os.unlink(os.path.join(cwd, f))
        os.rmdir(cwd)
    except OSError: pass
    return outs

def parse_print(out):
    """(lines without the 4-column marker gutter, index of the ' -> ' line or None) of a `print` output"""
    lines = []; marker = None
    for ln in out.split('\n'):
        if ln.startswith(' -> ') or ln.startswith('    '):
            if ln.startswith(' -> '): marker = len(lines)
            lines.append(ln[4:])
    return lines, marker

def strip_idx(l): return re.sub(r'^#\d+ ', '', l)

def parse_pane(out):
    """left ('script') column of the last two-column display in out, or None"""
    ls = out.split('\n')
    idx = [i for i, l in enumerate(ls) if re.match(r'^-+\+-+$', l)]
    if not idx: return None
    res = []
    for l in ls[idx[-1]+1:]:
        if '|' not in l: break
        res.append(l.split('|')[0].rstrip())
    while res and res[-1] == '': res.pop()
    return res

def pane_matches(pane_line, full):
    """the pane abbreviates long lines to 63 characters + '...'"""
    if pane_line.endswith('...') and len(full) > len(pane_line): return full.startswith(pane_line[:-3])
    return pane_line == full

# txin output 0: scriptPubKey = OP_1 (51);  tx input 0: scriptSig = 05 aa  (push of 5 bytes, only 1 present)
TXIN = '020000000111111111111111111111111111111111111111111111111111111111111111110000000000ffffffff01a086010000000000015100000000'
TX = '0200000001f2abdc278a0f23f0cebfb142f4b2906a7dd2f11635120fbe089ae927536168e5000000000205aaffffffff01b882010000000000015100000000'

outs = run_session(['--txin=' + TXIN, '--tx=' + TX], ['print', 'step', 'print'], timeout=5)
if not outs[0].endswith('btcdeb> '):
    print('ok: no session is opened for the undecodable scriptSig'); sys.exit(0)
bad = []
lines, marker = parse_print(outs[1])
listing = [strip_idx(l) for l in lines]
# independent view: the bytes executed first are the scriptSig bytes 05 aa (undecodable: they make the step fail with
# "bad opcode"); only after them would the scriptPubKey section "<<< scriptPubKey >>>", "1" follow
sig_lines = listing[:listing.index('<<< scriptPubKey >>>')] if '<<< scriptPubKey >>>' in listing else listing
if not sig_lines:
    bad.append('print shows nothing for the scriptSig bytes 05aa: %r' % listing)
step_failed = 'rror' in outs[2]
if marker is not None and listing[marker] == '<<< scriptPubKey >>>' and step_failed:
    err = [l for l in outs[2].split('\n') if 'rror' in l][0]
    bad.append('marker designates %r (the switch to the scriptPubKey) as next, but the step executed the scriptSig bytes and failed: %r' % (listing[marker], err))
pane = parse_pane(outs[0]) or []
allowed_tail = ['<<< scriptPubKey >>>', '1']
if pane[-2:] != allowed_tail or len(pane) > 3:
    bad.append('the script pane at start has %d lines that are in neither script (scriptSig 05aa, scriptPubKey 51), e.g. %r; expected at most one line for the scriptSig, then %r'
               % (len(pane), [p[:20] for p in pane[:6]], allowed_tail))
if bad:
    print('VIOLATION:')
    for b in bad: print('  ' + b)
    sys.exit(1)
print('ok')
sys.exit(0)
