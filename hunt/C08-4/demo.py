#!/usr/bin/env python3
"""C08 finding 4: non-interactive btcdeb keeps a full copy of the stack (and altstack, ...) for EVERY executed
opcode (the rewind history), although nothing can rewind in this mode.  A consensus-valid script therefore needs
~5.3 GB; with less memory available a VALID script is reported as failed (std::bad_alloc, exit 1) or the process
is killed by the OOM killer.

usage: demo.py [TREE]   (TREE defaults to the current directory)
exit 1 + report when the violation is present, exit 0 otherwise.
The run is done under RLIMIT_AS = 1 GiB, so the demo itself never uses more than that.
"""
import os, pty, resource, subprocess, sys

tree = os.path.abspath(sys.argv[1] if len(sys.argv) > 1 else '.')
btcdeb = os.path.join(tree, 'btcdeb')
LIMIT = 1 << 30

def run_argv(args):
    m, s = pty.openpty()          # stdin = terminal, stdout = pipe  -> non-interactive, script from argv
    try:
        p = subprocess.run([btcdeb, *args], stdin=s, stdout=subprocess.PIPE, stderr=subprocess.PIPE, cwd=tree, timeout=900,
                           preexec_fn=lambda: resource.setrlimit(resource.RLIMIT_AS, (LIMIT, LIMIT)))
    finally:
        os.close(s); os.close(m)
    return p.returncode, p.stdout.decode(), p.stderr.decode()

# initial stack: 998 items of 520 bytes (limits: 1000 items, 520 bytes per item)
items = ['0x' + 'ab' * 520] * 998
expected = ''.join('ab' * 520 + '\n' for _ in items)
# script: OP_0 OP_IF <9990 x OP_1> OP_ENDIF  = 9993 bytes (limit 10000), 2 non-push opcodes (limit 201);
# the pushes are in the branch that is not executed, so the stack never changes: the final stack is the initial one.
script = '0x0063' + '51' * 9990 + '68'
# control: same stack, same limit, tiny script
rc, out, err = run_argv(['0x61'] + items)          # OP_NOP
control_ok = (rc == 0 and out == expected)
print('control (OP_NOP, same 998 x 520 byte stack, RLIMIT_AS 1 GiB): rc=%s, %d lines -> %s' % (rc, out.count('\n'), 'ok' if control_ok else 'FAILED (demo inconclusive)'))
rc, out, err = run_argv([script] + items)
ok = (rc == 0 and out == expected)
print('0 IF <9990 x OP_1> ENDIF, same stack, RLIMIT_AS 1 GiB:        rc=%s, %d lines, stderr=%r -> %s' % (rc, out.count('\n'), err[:80], 'ok' if ok else 'DIFFERS (promised rc=0 and the 998 initial items)'))
if control_ok and not ok:
    print('VIOLATION: a valid script (all consensus limits respected) is not run to completion with 1 GiB of memory;')
    print('           without the limit the same run peaks at about 5.3 GB resident (one stack copy per executed opcode).')
    sys.exit(1)
print('no violation' if ok else 'inconclusive')
sys.exit(0)
