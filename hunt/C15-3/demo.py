#!/usr/bin/env python3
# Finding 3: tap ignores a failed Instance::configure_tx_txin() and runs into assertions in the sighash code.
# usage: demo.py [tree]   exit 0 = no violation, 1 = violation present
import os, subprocess, sys
sys.path.insert(0, os.path.dirname(os.path.abspath(__file__)))
from txlib import *
tree = os.path.abspath(sys.argv[1] if len(sys.argv) > 1 else '.')
tap = os.path.join(tree, 'tap')
PK = "79be667ef9dcbbac55a06295ce870b07029bfcdb2dce28d959f2815b16f81798"
SCRIPT = "[OP_1]"
r = subprocess.run([tap, PK, "1", SCRIPT], capture_output=True, text=True)
addr = [l for l in r.stdout.splitlines() if "address" in l][0].split()[-1]
ver, prog = bech32_program(addr)
assert ver == 1 and len(prog) == 32
txin = ser_tx([(b'\x11' * 32, 0, b'', 0xffffffff)], [(100000, b'\x51\x20' + prog)])
txid = dsha(txin)

def run(scriptsig):
    tx = ser_tx([(txid, 0, scriptsig, 0xffffffff)], [(90000, b'\x51')])
    cmd = [tap, "--tx=" + tx.hex(), "--txin=" + txin.hex(), PK, "1", SCRIPT]
    return cmd, subprocess.run(cmd, capture_output=True, text=True)

cmd, ok = run(b'')
if ok.returncode != 0 or "Resulting transaction" not in ok.stdout:
    print("unexpected: control case (empty scriptSig) does not work: rc=%d %s" % (ok.returncode, ok.stderr[-300:])); sys.exit(2)
fail = 0
# the only difference: the input being replaced carries a (one byte, OP_1) scriptSig
for name, ss in (("scriptSig = OP_1", b'\x51'), ("scriptSig = push of 2 bytes", b'\x02\xab\xcd')):
    cmd, r = run(ss)
    print("command (%s): %s" % (name, " ".join(cmd)))
    if r.returncode < 0:
        print("VIOLATION: tap was killed by signal %d; expected a diagnostic (configure_tx_txin already printed one: %r)" %
              (-r.returncode, r.stderr.strip().splitlines()[-2][:120] if len(r.stderr.strip().splitlines()) > 1 else ''))
        print("stderr tail: " + r.stderr.strip().splitlines()[-1][:330])
        fail = 1
    else:
        print("tap terminated by itself, exit status %d: %s" % (r.returncode, (r.stdout + r.stderr).strip().splitlines()[-1][:200]))
sys.exit(fail)
