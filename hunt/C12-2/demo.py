#!/usr/bin/env python3
# demo 2: during the taproot commitment phase the script pane keeps listing the branches already processed
import os, pty, sys, select, time, re, signal, struct, tempfile

TREE = os.path.abspath(sys.argv[1] if len(sys.argv) > 1 else '.')

def run_session(args, cmds, timeout=15):
    """drive an interactive btcdeb session on a pseudo-terminal; returns [startup output, output of cmd 1, ...]"""
    exe = os.path.join(TREE, 'btcdeb')
    cwd = tempfile.mkdtemp(prefix='btcdeb-demo-')   # .btcdeb_history lands here, not in the tree
    pid, fd = pty.fork()
    if pid == 0:
        os.chdir(cwd)
        env = dict(os.environ); env['TERM'] = 'dumb'
        os.execve(exe, [exe] + args, env)
    def read_until_prompt():
        buf = b''; end = time.time() + timeout
        while time.time() < end:
            r, _, _ = select.select([fd], [], [], 0.2)
            if fd in r:
                try: d = os.read(fd, 65536)
                except OSError: break
                if not d: break
                buf += d
                if buf.endswith(b'btcdeb> '):
                    r2, _, _ = select.select([fd], [], [], 0.05)
                    if not r2: break
        return buf.decode('utf8', 'replace').replace('\r', '')
    outs = [read_until_prompt()]
    for c in cmds:
        os.write(fd, (c + '\n').encode())
        outs.append(read_until_prompt())
    try: os.kill(pid, signal.SIGKILL)
    except OSError: pass
    try: os.waitpid(pid, 0)
    except OSError: pass
    os.close(fd)
    try:
        for f in os.listdir(cwd): os.unlink(os.path.join(cwd, f))
        os.rmdir(cwd)
    except OSError: pass
    return outs

def parse_print(out):
    """(lines without the 4-column marker gutter, index of the ' -> ' line or None) of a `print` output"""
    lines = []; marker = None
    for ln in out.split('\n'):
        if ln.startswith(' -> ') or ln.startswith('    '):
            if ln.startswith(' -> '): marker = len(lines)
            lines.append(ln[4:])
    return lines, marker

def strip_idx(l): return re.sub(r'^#\d+ ', '', l)

def parse_pane(out):
    """left ('script') column of the last two-column display in out, or None"""
    ls = out.split('\n')
    idx = [i for i, l in enumerate(ls) if re.match(r'^-+\+-+$', l)]
    if not idx: return None
    res = []
    for l in ls[idx[-1]+1:]:
        if '|' not in l: break
        res.append(l.split('|')[0].rstrip())
    while res and res[-1] == '': res.pop()
    return res

def pane_matches(pane_line, full):
    """the pane abbreviates long lines to 63 characters + '...'"""
    if pane_line.endswith('...') and len(full) > len(pane_line): return full.startswith(pane_line[:-3])
    return pane_line == full

# tapscript spend, leaf script "2 OP_ADD 5 OP_EQUAL", merkle path of length 2 (nodes 0x20*32 and 0x21*32),
# internal key = G (x = 79be66...), witness = [03, script, control]; commitment is valid
TXIN = '020000000111111111111111111111111111111111111111111111111111111111111111110000000000ffffffff01a0860100000000002251209a2e977574b7d7c15e4bd02d2fd901d75b9eb5591b264cbd975532d6a70fc1df00000000'
TX = '02000000000101a54fb7dc60741ad79964b4fe43be019901328772e23a5b754fea63573450fe030000000000ffffffff01b8820100000000000151030103045293558761c079be667ef9dcbbac55a06295ce870b07029bfcdb2dce28d959f2815b16f817982020202020202020202020202020202020202020202020202020202020202020212121212121212121212121212121212121212121212121212121212121212100000000'
P = '79be667ef9dcbbac55a06295ce870b07029bfcdb2dce28d959f2815b16f81798'
# operations in execution order (one per step), independent of the tool
expected = ['Branch: ' + '20' * 32, 'Branch: ' + '21' * 32, 'CheckTapTweak (internal key %s)' % P, '2', 'OP_ADD', '5', 'OP_EQUAL']

cmds = []
for k in range(len(expected)): cmds += ['print', 'step']
cmds += ['print']
outs = run_session(['--txin=' + TXIN, '--tx=' + TX], cmds)
bad = []
k = 0
pane = parse_pane(outs[0])
for c, o in zip(cmds, outs[1:]):
    if c == 'print':
        lines, marker = parse_print(o)
        if [strip_idx(l) for l in lines] != expected: bad.append('after %d steps: print listing differs: %r' % (k, lines))
        if marker != (k if k < len(expected) else None): bad.append('after %d steps: marker at %r' % (k, marker))
        # the pane shown at this point (section headers "<<< ... >>>" are not operations)
        ops = [l for l in (pane or []) if not l.startswith('<<<')]
        want = expected[k:]
        if len(ops) != len(want) or not all(pane_matches(a, b) for a, b in zip(ops, want)):
            bad.append('after %d steps (marker/next operation: %s)\n      the script pane still lists, as what is left to execute: %s' % (k, want[0][:40] if want else 'nothing', [x[:24] for x in ops]))
    else:
        if 'rror' in o: print('unexpected error from step:', o); sys.exit(2)
        k += 1
        pane = parse_pane(o)
if bad:
    print('VIOLATION: the script listing of the two-column display does not start at the operation the next step executes:')
    for b in bad: print('  ' + b)
    sys.exit(1)
print('ok: pane and print agree with the executed operations at every step')
sys.exit(0)
