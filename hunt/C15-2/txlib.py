# minimal, independent transaction builder / bech32 reader used by the demos (pure python)
import hashlib, struct
CH = "qpzry9x8gf2tvdw0s3jn54khce6mua7l"
def dsha(b): return hashlib.sha256(hashlib.sha256(b).digest()).digest()
def varint(n):
    if n < 253: return bytes([n])
    if n <= 0xffff: return b'\xfd' + struct.pack('<H', n)
    return b'\xfe' + struct.pack('<I', n)
def ser_tx(vin, vout, version=2, locktime=0):
    """vin: [(prev txid (internal byte order), n, scriptSig, sequence)], vout: [(value, scriptPubKey)]; legacy serialization"""
    r = struct.pack('<i', version) + varint(len(vin))
    for h, n, ss, seq in vin:
        r += h + struct.pack('<I', n) + varint(len(ss)) + ss + struct.pack('<I', seq)
    r += varint(len(vout))
    for v, spk in vout:
        r += struct.pack('<q', v) + varint(len(spk)) + spk
    return r + struct.pack('<I', locktime)
def bech32_program(addr):
    """witness version and program of a bech32(m) address (checksum not verified)"""
    vals = [CH.index(c) for c in addr[addr.rindex('1') + 1:]][:-6]
    ver, vals = vals[0], vals[1:]
    acc = bits = 0; out = bytearray()
    for v in vals:
        acc = (acc << 5) | v; bits += 5
        while bits >= 8:
            bits -= 8; out.append((acc >> bits) & 0xff)
    return ver, bytes(out)
