#!/usr/bin/env python3
# Finding 2: tap aborts (failed assertion) when the spending transaction has more than one input.
# usage: demo.py [tree]   exit 0 = no violation, 1 = violation present
import os, subprocess, sys
sys.path.insert(0, os.path.dirname(os.path.abspath(__file__)))
from txlib import *
tree = os.path.abspath(sys.argv[1] if len(sys.argv) > 1 else '.')
tap = os.path.join(tree, 'tap')
PK = "79be667ef9dcbbac55a06295ce870b07029bfcdb2dce28d959f2815b16f81798"   # secp256k1 generator x, a valid x-only key
SCRIPT = "[OP_1]"

# 1. ask tap for the funding address of (internal key, one script), take the tweaked key out of the address
r = subprocess.run([tap, PK, "1", SCRIPT], capture_output=True, text=True)
addr = [l for l in r.stdout.splitlines() if "address" in l][0].split()[-1]
ver, prog = bech32_program(addr)
assert ver == 1 and len(prog) == 32, (ver, prog.hex())

# 2. funding transaction paying to that P2TR output; spending transaction with TWO inputs, the first spends the P2TR output
txin = ser_tx([(b'\x11' * 32, 0, b'', 0xffffffff)], [(100000, b'\x51\x20' + prog)])
txid = dsha(txin)
def spend(nin):
    vin = [(txid, 0, b'', 0xffffffff)] + [(bytes([0x20 + i]) * 32, i, b'', 0xffffffff) for i in range(1, nin)]
    return ser_tx(vin, [(90000, b'\x51')])

def run(nin):
    cmd = [tap, "--tx=" + spend(nin).hex(), "--txin=" + txin.hex(), PK, "1", SCRIPT]
    return cmd, subprocess.run(cmd, capture_output=True, text=True)

cmd1, r1 = run(1)
if r1.returncode != 0 or "Resulting transaction" not in r1.stdout:
    print("unexpected: the one-input control case does not work (rc=%d): %s" % (r1.returncode, r1.stderr[-300:]))
    sys.exit(2)
cmd2, r2 = run(2)
print("command: " + " ".join(cmd2))
if r2.returncode < 0:
    print("VIOLATION: tap was killed by signal %d on a two-input spending transaction (the one-input control works)" % -r2.returncode)
    print("stderr tail: " + r2.stderr.strip().splitlines()[-1][:300])
    sys.exit(1)
print("tap terminated by itself with exit status %d: %s" % (r2.returncode, (r2.stdout + r2.stderr).strip().splitlines()[-1][:200]))
sys.exit(0)
