#!/bin/bash
# Two listed pairs that share the same signature bytes: sig1:pub1,sig1:pub2
# Property: every listed pair (S,P) verifies. Observed: only the LAST pair with that S is honoured.
T="${1:-.}"
B="$T/btcdeb"
[ -x "$B" ] || { echo "no btcdeb binary in $T"; exit 2; }
fail=0
run() { # script, then btcdeb args; script is fed on stdin (non-interactive mode)
    local scr="$1"; shift
    echo "$scr" | "$B" "$@" 2>/dev/null | tail -n 1
}
check() { # description, expected, got
    if [ "$3" != "$2" ]; then echo "DIFF: $1: expected final stack top '$2', got '$3'"; fail=1; else echo "ok:   $1 -> $3"; fi
}
LIST="sig1:pub1,sig1:pub2"
# control: the single pair alone works
check "CHECKSIG sig1/pub1 with -P sig1:pub1" 01 "$(run '[OP_CHECKSIG]' --pretend-valid=sig1:pub1 sig1 pub1)"
# both pairs are listed, so both must verify
check "CHECKSIG sig1/pub2 with -P $LIST" 01 "$(run '[OP_CHECKSIG]' --pretend-valid=$LIST sig1 pub2)"
check "CHECKSIG sig1/pub1 with -P $LIST" 01 "$(run '[OP_CHECKSIG]' --pretend-valid=$LIST sig1 pub1)"
check "CHECKSIGVERIFY sig1/pub1 with -P $LIST" 01 "$(run '[OP_CHECKSIGVERIFY OP_1]' --pretend-valid=$LIST sig1 pub1)"
check "1-of-1 CHECKMULTISIG sig1/pub1 with -P $LIST" 01 "$(run '[OP_1 pub1 OP_1 OP_CHECKMULTISIG]' --pretend-valid=$LIST 0x sig1)"
# order dependence: listing the same two pairs the other way round flips which one works
check "CHECKSIG sig1/pub2 with -P sig1:pub2,sig1:pub1" 01 "$(run '[OP_CHECKSIG]' --pretend-valid=sig1:pub2,sig1:pub1 sig1 pub2)"
if [ $fail -ne 0 ]; then
    echo "VIOLATION: a listed signature:pubkey pair is not accepted when the same signature is also listed for another key"
    exit 1
fi
exit 0
