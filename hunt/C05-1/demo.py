#!/usr/bin/env python3
# Finding 1: the hashes the stepper prints in its (default-on) taproot log are byte-reversed,
# i.e. not the BIP341 TapLeaf / TapBranch values (and not what its own state pane shows).
import sys, os, re
sys.path.insert(0, os.path.dirname(os.path.abspath(__file__)))
from bip341ref import *
tree = os.path.abspath(sys.argv[1] if len(sys.argv) > 1 else '.')
pk = xonly_from_seckey(777)
script = bytes.fromhex('515293')                       # 1 2 OP_ADD
nodes = [b'\x01' * 32, b'\xfe' * 32]                   # one below, one above the running hash
ctrl = b'\xc0' + pk + b''.join(nodes)
ks = fold(ctrl, script)                                # k0 (TapLeaf), k1, k2 (TapBranch folds)
q, par = make_output(pk, ks[-1])
ctrl = bytes([0xc0 | par]) + pk + b''.join(nodes)
assert bip341_ok(ctrl, script, q)
txin, tx = make_txs(q, [script, ctrl])
rc, out, err = run_btcdeb(tree, tx, txin)              # stdin = pty (log on), stdout = pipe (runs to the end)
if rc != 0 or out.strip() != '03':
    print("unexpected: valid spend did not run to the end: rc=%d out=%r" % (rc, out)); print(err); sys.exit(2)
m = re.search(r'- k\s+= ([0-9a-f]{64})', err)
shown = ([m.group(1)] if m else []) + re.findall(r'k -> ([0-9a-f]{64})', err)
want = [k.hex() for k in ks]
if not shown:
    print("no hashes displayed in the log; nothing to compare"); sys.exit(0)
bad = 0
for j, (s, w) in enumerate(zip(shown, want)):
    if s != w:
        bad += 1
        print("k_%d displayed as %s" % (j, s))
        print("    BIP341 value  %s%s" % (w, "   (displayed value is the byte-reversal)" if bytes.fromhex(s)[::-1].hex() == w else ""))
if len(shown) != len(want): bad += 1; print("displayed %d hashes, expected %d" % (len(shown), len(want)))
if bad:
    print("VIOLATION: %d displayed intermediate hash(es) differ from the BIP341 values" % bad); sys.exit(1)
print("ok: all displayed hashes equal the BIP341 values"); sys.exit(0)
