#!/usr/bin/env python3
"""FIND/1: tapscript OP_SUCCESSx opcodes are not recognised (BIP342). usage: demo.py [tree]"""
import hashlib, os, struct, subprocess, sys

TREE = os.path.abspath(sys.argv[1] if len(sys.argv) > 1 else '.')
BTCDEB = os.path.join(TREE, 'btcdeb')

# ---- minimal transaction builder -------------------------------------------------------
def cs(n):
    if n < 253: return bytes([n])
    if n < 0x10000: return b'\xfd' + struct.pack('<H', n)
    return b'\xfe' + struct.pack('<I', n)
def dsha(b): return hashlib.sha256(hashlib.sha256(b).digest()).digest()
def ser_tx(vin, vout, wits=None, version=2, locktime=0):
    b = struct.pack('<i', version) + (b'\x00\x01' if wits is not None else b'') + cs(len(vin))
    for (h, n, ss, seq) in vin:
        b += h + struct.pack('<I', n) + cs(len(ss)) + ss + struct.pack('<I', seq)
    b += cs(len(vout))
    for (v, spk) in vout:
        b += struct.pack('<q', v) + cs(len(spk)) + spk
    if wits is not None:
        for w in wits:
            b += cs(len(w))
            for it in w: b += cs(len(it)) + it
    return b + struct.pack('<I', locktime)
def spend_pair(spk, scriptSig=b'', witness=None):
    """(txin_hex, tx_hex): a funding transaction whose output 0 carries spk, and a transaction spending it"""
    prev = ser_tx([(b'\x11' * 32, 0, b'', 0xffffffff)], [(100000, spk)])
    vin = [(dsha(prev), 0, scriptSig, 0xffffffff)]
    vout = [(90000, b'\x51')]
    return prev.hex(), ser_tx(vin, vout, None if witness is None else [witness]).hex()

def btcdeb(args):
    """non-interactive run (stdin is not a terminal, the empty script line makes btcdeb take everything from --tx/--txin)"""
    p = subprocess.run([BTCDEB] + args, stdin=subprocess.DEVNULL, stdout=subprocess.PIPE, stderr=subprocess.PIPE, cwd=TREE, timeout=60)
    return p.returncode, p.stdout.decode(errors='replace'), p.stderr.decode(errors='replace')

def errline(err):
    l = [x for x in err.split('\n') if x.startswith('error:')]
    return l[-1] if l else '(no error)'

# ---- single-leaf taproot output (BIP341), pure python ------------------------------------
P_ = 0xFFFFFFFFFFFFFFFFFFFFFFFFFFFFFFFFFFFFFFFFFFFFFFFFFFFFFFFEFFFFFC2F
N_ = 0xFFFFFFFFFFFFFFFFFFFFFFFFFFFFFFFEBAAEDCE6AF48A03BBFD25E8CD0364141
G_ = (0x79BE667EF9DCBBAC55A06295CE870B07029BFCDB2DCE28D959F2815B16F81798, 0x483ADA7726A3C4655DA4FBFC0E1108A8FD17B448A68554199C47D08FFB10D4B8)
def padd(a, b):
    if a is None: return b
    if b is None: return a
    if a[0] == b[0] and a[1] != b[1]: return None
    if a == b: lam = (3 * a[0] * a[0] * pow(2 * a[1], P_ - 2, P_)) % P_
    else: lam = ((b[1] - a[1]) * pow(b[0] - a[0], P_ - 2, P_)) % P_
    x = (lam * lam - a[0] - b[0]) % P_
    return (x, (lam * (a[0] - x) - a[1]) % P_)
def pmul(a, k):
    r = None
    while k:
        if k & 1: r = padd(r, a)
        a = padd(a, a); k >>= 1
    return r
def tagged(tag, msg):
    t = hashlib.sha256(tag.encode()).digest()
    return hashlib.sha256(t + t + msg).digest()
def taproot_spend(script, stack_items):
    """script-path spend of a one-leaf (leaf version 0xc0) taproot output with internal key G"""
    px = G_[0].to_bytes(32, 'big')           # G has even y
    leaf = tagged('TapLeaf', b'\xc0' + cs(len(script)) + script)
    t = int.from_bytes(tagged('TapTweak', px + leaf), 'big')
    assert t < N_
    q = padd(G_, pmul(G_, t))
    control = bytes([0xc0 | (q[1] & 1)]) + px
    return spend_pair(b'\x51\x20' + q[0].to_bytes(32, 'big'), witness=list(stack_items) + [script, control])

bad = []

# (a) standard flags (DISCOURAGE_OP_SUCCESS set):  0 OP_IF OP_RESERVED(=OP_SUCCESS80) OP_ENDIF 1
#     BIP342 / Bitcoin: the script is scanned before execution, an OP_SUCCESSx anywhere (even unexecuted)
#     ends validation: with the flag -> failure "OP_SUCCESSx reserved for soft-fork upgrades", no operation run.
txin, tx = taproot_spend(bytes([0x00, 0x63, 0x50, 0x68, 0x51]), [])
rc, out, err = btcdeb(['--tx=' + tx, '--txin=' + txin])
print('(a) tapscript 0063506851, standard flags: rc=%d stack=%r %s' % (rc, out.split(), errline(err)))
if not (rc != 0 and 'OP_SUCCESS' in err):
    bad.append('(a) expected failure "OP_SUCCESSx reserved for soft-fork upgrades" before any operation; '
               'btcdeb ran the script: rc=%d final stack=%r %s' % (rc, out.split(), errline(err)))

# (b) flag cleared:  1 1 OP_CAT(=OP_SUCCESS126)  -> Bitcoin: unconditional success, nothing executed
txin, tx = taproot_spend(bytes([0x51, 0x51, 0x7e]), [])
rc, out, err = btcdeb(['--tx=' + tx, '--txin=' + txin, '-f-DISCOURAGE_OP_SUCCESS'])
print('(b) tapscript 51517e, -DISCOURAGE_OP_SUCCESS: rc=%d %s' % (rc, errline(err)))
if rc != 0:
    bad.append('(b) expected success (OP_SUCCESS126 makes the tapscript succeed unconditionally); btcdeb: ' + errline(err))

# (c) flag cleared:  1 OP_RESERVED(=OP_SUCCESS80), executed
txin, tx = taproot_spend(bytes([0x51, 0x50]), [])
rc, out, err = btcdeb(['--tx=' + tx, '--txin=' + txin, '-f-DISCOURAGE_OP_SUCCESS'])
print('(c) tapscript 5150, -DISCOURAGE_OP_SUCCESS: rc=%d %s' % (rc, errline(err)))
if rc != 0:
    bad.append('(c) expected success (OP_SUCCESS80); btcdeb: ' + errline(err))

if bad:
    print('VIOLATION: tapscript OP_SUCCESSx is not honoured')
    for b in bad: print('  ' + b)
    sys.exit(1)
print('no violation')
sys.exit(0)
