#!/bin/bash
# Finding 2: when --modify-flags/-f is given more than once, all lists but the last are silently dropped.
# usage: demo.sh [tree-dir]   (exit 1 = violation present, 0 = not present)
T="${1:-.}"
B="$T/btcdeb"
[ -x "$B" ] || { echo "no btcdeb binary in $T"; exit 2; }
fail=0
S='[OP_1 OP_NOP4]'   # succeeds iff DISCOURAGE_UPGRADABLE_NOPS is NOT in the flag set

# reference: standard - {DISCOURAGE_UPGRADABLE_NOPS, NULLDUMMY}: NOP4 is a no-op, script ends with 01 on the stack
out=$(echo "$S" | "$B" -f-DISCOURAGE_UPGRADABLE_NOPS,-NULLDUMMY 2>&1); rc=$?
[ $rc -eq 0 ] || { echo "control failed: single list: rc=$rc $out"; }
out=$(echo "$S" | "$B" -f-NULLDUMMY -f-DISCOURAGE_UPGRADABLE_NOPS 2>&1); rc=$?
[ $rc -eq 0 ] || { echo "control failed: two lists, NOPS last: rc=$rc $out"; }

# the same two removals, other order of the two options
out=$(echo "$S" | "$B" -f-DISCOURAGE_UPGRADABLE_NOPS -f-NULLDUMMY 2>&1); rc=$?
if [ $rc -ne 0 ]; then
    echo "VIOLATION: -f-DISCOURAGE_UPGRADABLE_NOPS -f-NULLDUMMY : -DISCOURAGE_UPGRADABLE_NOPS was not removed:"
    echo "  rc=$rc output: $out"
    echo "  expected: exit 0, final stack 01 (as with -f-DISCOURAGE_UPGRADABLE_NOPS,-NULLDUMMY)"
    fail=1
fi
out=$(echo "$S" | "$B" --modify-flags=-DISCOURAGE_UPGRADABLE_NOPS --modify-flags=+SIGPUSHONLY 2>&1); rc=$?
if [ $rc -ne 0 ]; then
    echo "VIOLATION: --modify-flags=-DISCOURAGE_UPGRADABLE_NOPS --modify-flags=+SIGPUSHONLY : first list ignored: rc=$rc"
    fail=1
fi
# an unknown name in an earlier list is not rejected either
out=$(echo '[OP_1]' | "$B" -f+NOSUCHFLAG -f-NULLDUMMY 2>&1); rc=$?
if [ $rc -eq 0 ]; then
    echo "VIOLATION: -f+NOSUCHFLAG -f-NULLDUMMY : unknown flag name NOSUCHFLAG accepted (rc=0, output: $out)"
    fail=1
fi
exit $fail
