#!/usr/bin/env python3
# demo 1: `print` (and the next-operation line) cut the hex of a 509..520-byte push short
import os, pty, sys, select, time, re, signal, struct, tempfile

TREE = os.path.abspath(sys.argv[1] if len(sys.argv) > 1 else '.')

def run_session(args, cmds, timeout=15):
    """drive an interactive btcdeb session on a pseudo-terminal; returns [startup output, output of cmd 1, ...]"""
    exe = os.path.join(TREE, 'btcdeb')
    cwd = tempfile.mkdtemp(prefix='btcdeb-demo-')   # .btcdeb_history lands here, not in the tree
    pid, fd = pty.fork()
    if pid == 0:
        os.chdir(cwd)
        env = dict(os.environ); env['TERM'] = 'dumb'
        os.execve(exe, [exe] + args, env)
    def read_until_prompt():
        buf = b''; end = time.time() + timeout
        while time.time() < end:
            r, _, _ = select.select([fd], [], [], 0.2)
            if fd in r:
                try: d = os.read(fd, 65536)
                except OSError: break
                if not d: break
                buf += d
                if buf.endswith(b'btcdeb> '):
                    r2, _, _ = select.select([fd], [], [], 0.05)
                    if not r2: break
        return buf.decode('utf8', 'replace').replace('\r', '')
    outs = [read_until_prompt()]
    for c in cmds:
        os.write(fd, (c + '\n').encode())
        outs.append(read_until_prompt())
    try: os.kill(pid, signal.SIGKILL)
    except OSError: pass
    try: os.waitpid(pid, 0)
    except OSError: pass
    os.close(fd)
    try:
        for f in os.listdir(cwd): os.unlink(os.path.join(cwd, f))
        os.rmdir(cwd)
    except OSError: pass
    return outs

def parse_print(out):
    """(lines without the 4-column marker gutter, index of the ' -> ' line or None) of a `print` output"""
    lines = []; marker = None
    for ln in out.split('\n'):
        if ln.startswith(' -> ') or ln.startswith('    '):
            if ln.startswith(' -> '): marker = len(lines)
            lines.append(ln[4:])
    return lines, marker

def strip_idx(l): return re.sub(r'^#\d+ ', '', l)

def parse_pane(out):
    """left ('script') column of the last two-column display in out, or None"""
    ls = out.split('\n')
    idx = [i for i, l in enumerate(ls) if re.match(r'^-+\+-+$', l)]
    if not idx: return None
    res = []
    for l in ls[idx[-1]+1:]:
        if '|' not in l: break
        res.append(l.split('|')[0].rstrip())
    while res and res[-1] == '': res.pop()
    return res

def pane_matches(pane_line, full):
    """the pane abbreviates long lines to 63 characters + '...'"""
    if pane_line.endswith('...') and len(full) > len(pane_line): return full.startswith(pane_line[:-3])
    return pane_line == full

# plain script: PUSHDATA2 <520 bytes> OP_DROP OP_1   (520 bytes = MAX_SCRIPT_ELEMENT_SIZE, a legal push)
data = bytes((7 * i + 3) % 256 for i in range(520))
script = b'\x4d' + struct.pack('<H', 520) + data + b'\x75\x51'
expected = [data.hex(), 'OP_DROP', '1']          # independent decoding

outs = run_session([script.hex()], ['print', 'step', 'print'])
bad = []
lines, marker = parse_print(outs[1])
lines = [strip_idx(l) for l in lines]
if lines != expected:
    for i, (a, b) in enumerate(zip(lines, expected)):
        if a != b:
            bad.append('print line %d: listed %d hex characters (...%s), the push has %d (...%s)' % (i, len(a), a[-12:], len(b), b[-12:]))
    if len(lines) != len(expected): bad.append('print lists %d lines, expected %d' % (len(lines), len(expected)))
if marker != 0: bad.append('marker at start is %r, expected 0' % marker)
# the line shown as "next operation" when the session starts
nxt = [l for l in outs[0].split('\n') if l.startswith('#0000 ')]
if not nxt or strip_idx(nxt[-1]) != expected[0]:
    bad.append('next-operation line at start shows %d hex characters, expected %d' % (len(strip_idx(nxt[-1])) if nxt else -1, len(expected[0])))
# what the step actually pushed (right column is abbreviated, so use the `stack` command instead)
outs2 = run_session([script.hex()], ['step', 'stack'])
m = re.search(r'<01>\t([0-9a-f]+)', outs2[2])
if not m or m.group(1) != data.hex():
    print('unexpected: the executed push is not the 520 bytes of the script'); sys.exit(2)
if bad:
    print('VIOLATION: the listing is not the exact decoding of the bytes that get executed (the step pushed all 520 bytes):')
    for b in bad: print('  ' + b)
    sys.exit(1)
print('ok: 520-byte push listed in full')
sys.exit(0)
