#!/usr/bin/env python3
# Finding 4: add / sub do not compute anything when an operand is one of the integers -1, 0, 1..16
# (`tf add 1 2` -> "invalid input", value left as the serialized arguments 5152).
import sys, os
tree = os.path.abspath(sys.argv[1] if len(sys.argv) > 1 else '.')
sys.path.insert(0, os.path.dirname(os.path.abspath(__file__)))
from helper import btcc, unpush, tf

def as_int(hexstr):
    # add/sub print their result as a 32-byte little-endian number (e.g. `tf add 17 18` -> 2300..00)
    try: return int.from_bytes(bytes.fromhex(hexstr), 'little')
    except Exception: return None

cases = [('add', 17, 18, 35),      # control: works
         ('add', 1, 2, 3),
         ('add', 16, 100, 116),
         ('add', 100, 0, 100),
         ('sub', 5, 3, 2),
         ('sub', 100, 16, 84)]
bad = []
for fn, a, b, exp in cases:
    out, err = btcc(tree, '%s([%d %d])' % (fn, a, b))
    payload = unpush(out) if out else None
    got = int.from_bytes(payload, 'little') if payload is not None and len(payload) == 32 else None
    if got != exp:
        bad.append("btcc '%s([%d %d])': expected %d, got script %s, stderr: %s"
                   % (fn, a, b, exp, out, [l for l in err.split('\n') if 'warning' not in l]))
try:
    cmds = ['tf %s %d %d' % (fn, a, b) for fn, a, b, _ in cases]
    for c, r, (fn, a, b, exp) in zip(cmds, tf(tree, cmds), cases):
        got = as_int(r[-1]) if r and len(r[-1]) == 64 else None
        if got != exp:
            bad.append("%s: expected %d (%s), got: %s" % (c, exp, exp.to_bytes(32, 'little').hex(),
                                                        ' | '.join(l for l in r if 'warning' not in l)))
except Exception as e:
    print('(interactive check skipped: %s)' % e)

if bad:
    print('VIOLATION:')
    for b in bad: print(' -', b)
    sys.exit(1)
print('ok')
