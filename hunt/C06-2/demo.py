#!/usr/bin/env python3
# Finding 2: for a leaf script that contains OP_CODESEPARATOR, the sighash tap reports is not the BIP342 digest
# the script's OP_CHECKSIG verifies against (tap hard-codes codeseparator_pos = 0xffffffff), so a signature made
# over the reported sighash and passed back with --sig gives a transaction that does NOT validate.
import os, sys
sys.path.insert(0, os.path.dirname(os.path.abspath(__file__)))
from ref import *

tree = os.path.abspath(sys.argv[1] if len(sys.argv) > 1 else '.')
TAP = os.path.join(tree, 'tap'); BTCDEB = os.path.join(tree, 'btcdeb')

def field(out, prefix):
    for l in out.splitlines():
        if l.startswith(prefix): return l[len(prefix):].strip()
    return None

K = xonly_from_sec(b2i(sha256(b'internal')))
bobsec = sha256(b'bob'); bob = xonly_from_sec(b2i(bobsec))
script0 = b'\xab\x20' + bob + b'\xac'     # OP_CODESEPARATOR <bob> OP_CHECKSIG   (opcode position of the separator: 0)
script1 = b'\x20' + bob + b'\xac'         # <bob> OP_CHECKSIG   (control case without separator)
base = [K.hex(), '2', '0x' + script0.hex(), '0x' + script1.hex()]

out, err, rc = run([TAP] + base)
addr = field(out, 'Resulting Bech32m address: ')
Q = bech32m_decode(addr)[2]
spk = b'\x51\x20' + Q
fund = Tx(2, [dict(txid=sha256(b'prev'), n=0, seq=0xfffffffe)], [(100000, spk)], 0)
spend = Tx(2, [dict(txid=fund.txid(), n=0, seq=0xffffffff)], [(90000, b'\x00\x14' + sha256(b'dest')[:20])], 0)
txargs = ['--tx=' + spend.ser().hex(), '--txin=' + fund.ser().hex()]

failures = []
for idx, script, codesep in ((1, script1, 0xffffffff), (0, script0, 0)):
    # 1. ask tap for the sighash of a script-path spend of leaf idx
    out, err, rc = run_pty([TAP] + txargs + base + [str(idx)])
    reported = field(out + '\n' + err, 'sighash (little endian) = ')
    if reported is None:
        print('leaf %d: tap reported no sighash (exit %s)' % (idx, rc)); failures.append('leaf %d: no sighash' % idx); continue
    # 2. sign it (BIP340, pure python) and pass the signature back with --sig
    sig = schnorr_sign(bytes.fromhex(reported), bobsec)
    out, err, rc = run([TAP, '--sig=' + sig.hex()] + txargs + base + [str(idx)])
    rtx = field(out, 'Resulting transaction: ')
    tx = parse_tx(bytes.fromhex(rtx))
    wit = tx.vin[0]['wit']
    assert wit[0] == sig and wit[-2] == script and verify_control(Q, wit[-2], wit[-1])
    # 3. independent validation: the script's OP_CHECKSIG checks wit[0] against bob under the BIP342 digest
    #    with codeseparator_pos = opcode position of the last executed OP_CODESEPARATOR (0xffffffff if none)
    digest = sighash341(tx, 0, [fund.vout[0]], leafhash=leaf_hash(script), codesep=codesep)
    valid = schnorr_verify(digest, bob, wit[0])
    # 4. the debugger's own opinion of the transaction tap produced
    dout, derr, drc = run([BTCDEB, '--tx=' + rtx, '--txin=' + fund.ser().hex()])
    dmsg = ([l for l in derr.splitlines() if l.startswith('error')] or ['final stack ' + dout.strip().replace('\n', ' ')])[0]
    print('leaf %d (%s): tap sighash %s; BIP342 digest needed by OP_CHECKSIG (codesep_pos=%#x) %s; signature valid: %s; btcdeb exit %d (%s)'
          % (idx, script.hex()[:6] + '...', reported, codesep, digest.hex(), valid, drc, dmsg))
    if not valid:
        failures.append('leaf %d: a signature over the sighash tap reported, passed back with --sig, yields a transaction whose OP_CHECKSIG fails '
                        '(reported %s, required %s)' % (idx, reported, digest.hex()))

if failures:
    print('VIOLATION:')
    for f in failures: print('  ' + f)
    sys.exit(1)
print('ok: no violation')
sys.exit(0)
