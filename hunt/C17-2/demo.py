#!/usr/bin/env python3
# OP_MUL accepts 5-byte operands (|x| < 2^39) but multiplies in int64 without
# an overflow check: products >= 2^63 silently wrap (2^32 * 2^32 -> 0).
import sys, os
sys.path.insert(0, os.path.dirname(os.path.abspath(__file__)))
from common import run
tree = sys.argv[1] if len(sys.argv) > 1 else '.'
M = 2**39 - 1
cases = [(2**32, 2**32), (2**32, 2**31), (M, M), (M, -M), (2**31 - 1, M), (-(2**32), 2**32)]
bad = 0
for a, b in cases:
    kind, val = run(tree, 0x95, a, b)
    want = a * b
    if kind == 'err':
        print('ok   %d OP_MUL %d -> script error (%s)' % (a, b, val)); continue
    if kind == 'ok' and val == want:
        print('ok   %d OP_MUL %d -> %d' % (a, b, val)); continue
    bad += 1
    print('DIFF %d %d OP_MUL: expected %d (or a script error), btcdeb %s %s' % (a, b, want, kind, val))
sys.exit(1 if bad else 0)
