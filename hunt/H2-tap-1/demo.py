#!/usr/bin/env python3
"""tap: --tx/--txin whose spent output is a P2SH-wrapped P2WPKH program (with the
tweaked key appended to the scriptPubKey) and a --sig whose HASH160 is the program:
tap reaches SignatureHashSchnorr() with SigVersion::WITNESS_V0 -> assert(false) -> SIGABRT.
usage: demo.py [tree-dir]   exit 1 = violation present, 0 = not present"""
import sys, os, hashlib, struct, subprocess

tree = os.path.abspath(sys.argv[1] if len(sys.argv) > 1 else ".")
tap = os.path.join(tree, "tap")

# ---- independent reference: BIP340/341 in pure python ----
p = 0xFFFFFFFFFFFFFFFFFFFFFFFFFFFFFFFFFFFFFFFFFFFFFFFFFFFFFFFEFFFFFC2F
n = 0xFFFFFFFFFFFFFFFFFFFFFFFFFFFFFFFEBAAEDCE6AF48A03BBFD25E8CD0364141
G = (0x79BE667EF9DCBBAC55A06295CE870B07029BFCDB2DCE28D959F2815B16F81798,
     0x483ADA7726A3C4655DA4FBFC0E1108A8FD17B448A68554199C47D08FFB10D4B8)
def add(a, b):
    if a is None: return b
    if b is None: return a
    if a[0] == b[0] and (a[1] + b[1]) % p == 0: return None
    if a == b: l = 3 * a[0] * a[0] * pow(2 * a[1], p - 2, p) % p
    else: l = (b[1] - a[1]) * pow(b[0] - a[0], p - 2, p) % p
    x = (l * l - a[0] - b[0]) % p
    return (x, (l * (a[0] - x) - a[1]) % p)
def mul(k, pt):
    r = None
    while k:
        if k & 1: r = add(r, pt)
        pt = add(pt, pt); k >>= 1
    return r
def lift_x(x):
    y = pow((pow(x, 3, p) + 7) % p, (p + 1) // 4, p)
    assert y * y % p == (pow(x, 3, p) + 7) % p
    return (x, y if y % 2 == 0 else p - y)
def tagged(tag, data):
    t = hashlib.sha256(tag.encode()).digest()
    return hashlib.sha256(t + t + data).digest()
def sha256(b): return hashlib.sha256(b).digest()
def hash160(b): return hashlib.new("ripemd160", sha256(b)).digest()
def dsha(b): return sha256(sha256(b))

internal = bytes.fromhex("f30544d6009c8d8d94f5d030b2e844b1a3ca036255161c479db1cca5b374dd1c")
script = bytes.fromhex("51")                                    # OP_1 (the single leaf)
leaf = tagged("TapLeaf", b"\xc0" + bytes([len(script)]) + script)
tweak = tagged("TapTweak", internal + leaf)
Q = add(lift_x(int.from_bytes(internal, "big")), mul(int.from_bytes(tweak, "big"), G))
outkey = Q[0].to_bytes(32, "big")

sig = bytes.fromhex("02" + "11" * 32)                          # --sig value (any bytes)
program = hash160(sig)                                         # v0 key-hash program
redeem = b"\x00\x14" + program                                 # 22-byte P2WPKH redeem script
spk = b"\xa9\x14" + hash160(redeem) + b"\x87" + outkey         # HASH160 <h> EQUAL ... <32-byte output key>

def ser_script(s): return bytes([len(s)]) + s
txin = struct.pack("<i", 2) + b"\x01" + b"\x00" * 32 + struct.pack("<I", 0xffffffff) + b"\x00" + struct.pack("<I", 0xffffffff) \
     + b"\x01" + struct.pack("<q", 100000) + ser_script(spk) + struct.pack("<I", 0)
txid = dsha(txin)
tx = struct.pack("<i", 2) + b"\x01" + txid + struct.pack("<I", 0) + ser_script(ser_script(redeem)) + struct.pack("<I", 0xffffffff) \
   + b"\x01" + struct.pack("<q", 90000) + ser_script(b"\x51") + struct.pack("<I", 0)

cmd = [tap, "--tx=" + tx.hex(), "--txin=" + txin.hex(), "--sig=" + sig.hex(), internal.hex(), "1", "0x" + script.hex()]
print("command:", " ".join(cmd))
r = subprocess.run(cmd, stdin=subprocess.DEVNULL, stdout=subprocess.PIPE, stderr=subprocess.PIPE, timeout=60)
out = r.stdout.decode(errors="replace"); err = r.stderr.decode(errors="replace")
print("exit status:", r.returncode)
print("stdout:", out.strip()); print("stderr:", err.strip()[-600:])
if r.returncode < 0 or "Assertion" in err or "Sanitizer" in err:
    print("VIOLATION: tap was killed by signal %d (failed assertion) instead of ending with a result or a diagnostic" % -r.returncode)
    sys.exit(1)
print("no violation: tap terminated by itself")
sys.exit(0)
