#!/usr/bin/env python3
# Witness stack items larger than 520 bytes must make a P2WSH / tapscript spend invalid.
import sys, os
sys.path.insert(0, os.path.dirname(os.path.abspath(__file__)))
from txlib import *
T = os.path.abspath(sys.argv[1] if len(sys.argv) > 1 else '.')
dest = TxOut(90000, b'\x00\x14' + b'\x11' * 20)
script = b'\x75\x51'                                    # OP_DROP OP_1

bad = 0
def case(name, tx, fund, expect_valid, why):
    global bad
    rc, out, err = run_btcdeb(T, tx, fund)
    got = accepted(rc, out)
    ok = got == expect_valid
    print("%-4s %-40s consensus: %-7s btcdeb: %s (exit %d%s)" % ("ok" if ok else "DIFF", name,
          "valid" if expect_valid else "INVALID", "accepts" if got else "rejects", rc,
          ", final stack %r" % out.split('\n')[:-1] if rc == 0 else ""))
    if not ok:
        print("       " + why); bad += 1

why = "BIP141/BIP342: every item of the initial witness stack is limited to 520 bytes (SCRIPT_ERR_PUSH_SIZE)"
# P2WSH
fund = funding_tx([(b'\x00\x20' + sha256(script), 100000)])
tx = Tx([TxIn(fund.hash(), 0)], [dest])
tx.vin[0].witness = [b'\x01' * 520, script]
case("P2WSH  [<520 bytes>] OP_DROP OP_1", tx, fund, True, "520 bytes is allowed")
tx.vin[0].witness = [b'\x01' * 521, script]
case("P2WSH  [<521 bytes>] OP_DROP OP_1", tx, fund, False, why)
# tapscript
xo = pub_xonly(0x1234567890abcdef1234567890abcdef1234567890abcdef1234567890abcdef)
q, parity = taproot_output_key(xo, tapleaf_hash(script))
fund = funding_tx([(b'\x51\x20' + q, 100000)])
tx = Tx([TxIn(fund.hash(), 0)], [dest])
control = bytes([0xc0 | parity]) + xo
tx.vin[0].witness = [b'\x01' * 520, script, control]
case("tapscript [<520 bytes>] OP_DROP OP_1", tx, fund, True, "520 bytes is allowed")
tx.vin[0].witness = [b'\x01' * 521, script, control]
case("tapscript [<521 bytes>] OP_DROP OP_1", tx, fund, False, why)
sys.exit(1 if bad else 0)
