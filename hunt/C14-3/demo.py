#!/usr/bin/env python3
# Finding 3: base58check decode does not invert base58check encode for payloads longer than 200 bytes.
import sys, os, hashlib
tree = os.path.abspath(sys.argv[1] if len(sys.argv) > 1 else '.')
sys.path.insert(0, os.path.dirname(os.path.abspath(__file__)))
from helper import btcc, unpush

B58 = '123456789ABCDEFGHJKLMNPQRSTUVWXYZabcdefghijkmnopqrstuvwxyz'
def b58cenc(b):
    b = b + hashlib.sha256(hashlib.sha256(b).digest()).digest()[:4]
    n = int.from_bytes(b, 'big'); s = ''
    while n: n, r = divmod(n, 58); s = B58[r] + s
    return '1' * (len(b) - len(b.lstrip(b'\0'))) + s

bad = []
for n in (64, 200, 201, 252, 253):
    payload = bytes((7 * i + 1) & 0xff or 1 for i in range(n))
    enc, err = btcc(tree, 'b58ce(0x%s)' % payload.hex())
    s = unpush(enc).decode()
    if s != b58cenc(payload):
        bad.append('%d bytes: base58chk-encode differs from the reference' % n)
        continue
    dec, err = btcc(tree, 'b58cd(%s)' % s)
    got = unpush(dec) if dec else None
    if got != payload:
        bad.append("%d-byte payload: b58cd(b58ce(x)) != x: decode of the %d-character string printed %r / %r"
                   % (n, len(s), dec[:40], err))
    rt, err = btcc(tree, 'b58cd(b58ce(0x%s))' % payload.hex())
    if unpush(rt) != payload and got == payload:
        bad.append('%d bytes: nested inline round trip differs' % n)

if bad:
    print('VIOLATION:')
    for b in bad: print(' -', b)
    sys.exit(1)
print('ok')
