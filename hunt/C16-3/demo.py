#!/usr/bin/env python3
"""exec 1ADD pushes the bytes 1a dd instead of executing OP_1ADD (every other short opcode name works)."""
import os, re, sys
sys.path.insert(0, os.path.dirname(os.path.abspath(__file__)))
from drv import session
tree = os.path.abspath(sys.argv[1] if len(sys.argv) > 1 else '.')
def stack(o): return re.findall(r'<\d+>\t([0-9a-f]*)', o)
bad = []
# reference: OP_1ADD on stack [07 08] (top 08) -> [07 09]; OP_1SUB -> [07 07]
for tok, expect in [('1ADD', ['09', '07']), ('OP_1ADD', ['09', '07']), ('1SUB', ['07', '07'])]:
    a = session(tree, ['[OP_NOP]', '07', '08'], ['exec ' + tok, 'stack'])
    got = stack(a[2])
    b = session(tree, ['[' + tok + ' OP_NOP]', '07', '08'], ['step', 'stack'])
    scr = stack(b[2])
    if got != expect:
        bad.append("exec %s: expected stack (top first) %s; got %s; script [%s OP_NOP] stepped once: %s" % (tok, expect, got, tok, scr))
if bad:
    print("VIOLATION: exec does not execute the named opcode")
    for b in bad: print("  " + b)
    sys.exit(1)
print("ok")
