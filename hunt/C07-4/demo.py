#!/usr/bin/env python3
# btcc: inside a nested sub-script, '[' / ']' characters that occur in a '#' comment are counted as brackets.
# usage: demo.py [TREE]
import os, subprocess, sys
tree = sys.argv[1] if len(sys.argv) > 1 else '.'
btcc = os.path.join(tree, 'btcc')
def run(args):
    p = subprocess.run([btcc] + args, stdout=subprocess.PIPE, stderr=subprocess.PIPE)
    return p.returncode, p.stdout.decode().strip(), p.stderr.decode().strip()
# token sequence: OP_1 OP_2 OP_3 OP_4 [ OP_5 OP_6 ] OP_7   ->   51 52 53 54 | 02 55 56 | 57    (8 bytes)
WANT = '08' + '51525354' + '025556' + '57'
variants = [
    ('no comment',               '[OP_1 OP_2 OP_3 OP_4 [OP_5\n OP_6] OP_7]'),
    ('plain comment',            '[OP_1 OP_2 OP_3 OP_4 [OP_5 # five\n OP_6] OP_7]'),
    ('comment containing "]"',   '[OP_1 OP_2 OP_3 OP_4 [OP_5 # see [1]\n OP_6] OP_7]'),   # balanced: harmless
    ('comment containing "]"',   '[OP_1 OP_2 OP_3 OP_4 [OP_5 # a) or b]\n OP_6] OP_7]'),
    ('comment containing "["',   '[OP_1 OP_2 OP_3 OP_4 [OP_5 # range [0,5)\n OP_6] OP_7]'),
]
# second sequence, where the miscount makes the tool give up:  OP_1 [ OP_2 OP_3 OP_4 OP_5 OP_6 ] [ OP_7 OP_8 ... ]
WANT2 = '0e' + '51' + '055253545556' + '06575859' + '5a5b5c'
variants2 = [
    ('no comment',               '[OP_1 [OP_2 OP_3 OP_4 OP_5 OP_6] [OP_7 OP_8 OP_9 OP_10 OP_11 OP_12]]'),
    ('two comments with "["',    '[OP_1 [OP_2 OP_3 # [\n OP_4 OP_5 OP_6] [OP_7 OP_8 # [\n OP_9 OP_10 OP_11 OP_12]]'),
]
fails = []
for want, vs in ((WANT, variants), (WANT2, variants2)):
    for label, src in vs:
        rc, got, err = run([src])
        if got != want or rc != 0:
            fails.append('%-26s btcc %r\n      promised: %s\n      got     : %s (exit %d)%s' % (label + ':', src, want, got or '<nothing>', rc, ('  stderr: ' + err.splitlines()[0][:80]) if err else ''))
if fails:
    print('VIOLATION: bracket characters inside a comment change how the enclosing sub-script is assembled')
    for f in fails: print(' -', f)
    sys.exit(1)
print('ok: comments containing brackets are ignored')
