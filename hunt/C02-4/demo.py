#!/usr/bin/env python3
"""A legacy (P2PKH) input of a transaction that ALSO has a segwit input: when the script/stack are given on the command
line, btcdeb checks the signature against the BIP143 digest instead of the legacy digest and rejects a valid signature.
usage: demo.py [tree-dir]   (exit 1 = violation present, 0 = not present)"""
import os, sys, subprocess, random
sys.path.insert(0, os.path.dirname(os.path.abspath(__file__)))
from ref import *
tree = os.path.abspath(sys.argv[1] if len(sys.argv) > 1 else '.')

def btcdeb(opts, script=None, stack=()):
    # with stdin not a terminal btcdeb reads the script from the first line of stdin; remaining argv = stack items
    a = [os.path.join(tree, 'btcdeb')] + opts + ['0x' + s.hex() for s in stack]
    p = subprocess.run(a, input=((script.hex() + '\n') if script is not None else '').encode(), stdout=subprocess.PIPE, stderr=subprocess.PIPE, timeout=60)
    out = p.stdout.decode(errors='replace').strip().splitlines()
    err = [l[l.index('error: '):] for l in p.stderr.decode(errors='replace').splitlines() if 'error: ' in l]
    return p.returncode, (out[-1].strip() if out else ''), (err[-1] if err else '')

rng = random.Random(31337)
d = rng.randrange(1, N); pk = pub_ser(pmul(d, G)); spk = b'\x76\xa9\x14' + hash160(pk) + b'\x88\xac'   # P2PKH
prev = Tx(1, [dict(txid=rng.randbytes(32), n=0, script=b'', seq=0xffffffff)], [(100000, spk)], 0)
fails = 0
for other_is_segwit in (False, True):
    vin = [dict(txid=prev.txid(), n=0, script=b'', seq=0xfffffffe, wit=[]),
           dict(txid=rng.randbytes(32), n=1, script=b'', seq=0xfffffffe, wit=[])]
    if other_is_segwit: vin[1]['wit'] = [b'\x30' + bytes(70), b'\x02' + bytes(32)]      # input 1: some P2WPKH spend
    else: vin[1]['script'] = push(b'\x30' + bytes(70)) + push(b'\x02' + bytes(32))      # input 1: some legacy spend
    tx = Tx(2, vin, [(90000, b'\x51')], 0)
    for ht in (0x01, 0x83):
        digest = legacy_sighash(tx, 0, spk, ht)                 # input 0 is non-witness: the legacy digest applies
        r, s = ecdsa_sign(d, digest); assert ecdsa_verify(pmul(d, G), digest, r, s)
        sig = der(r, s) + bytes([ht])
        tx.vin[0]['script'] = push(sig) + push(pk)              # (scriptSigs are not part of any digest)
        T = ['--tx=' + tx.ser().hex()]; I = ['--txin=' + prev.ser().hex()]
        runs = [('auto   (--tx --txin)               ', btcdeb(T + I)),
                ('manual (--tx script sig key)       ', btcdeb(T, spk, [sig, pk])),
                ('manual (--tx --txin script sig key)', btcdeb(T + I, spk, [sig, pk]))]
        for name, (rc, top, err) in runs:
            ok = rc == 0 and top == '01'
            tag = 'other input %s, hashtype %02x, %s' % ('segwit' if other_is_segwit else 'legacy', ht, name)
            if ok: print('ok      ', tag, '-> 01')
            else:
                fails += 1
                print('DIFFERS ', tag, '-> valid ECDSA signature over the legacy digest, expected 01; btcdeb: exit %d, %s' % (rc, err))
    if other_is_segwit:
        # the other direction: a signature over the BIP143 digest (wrong for a non-witness input) must NOT be accepted
        wrong = bip143_sighash(tx, 0, spk, 100000, 0x01)
        r, s = ecdsa_sign(d, wrong); sig = der(r, s) + b'\x01'
        assert not ecdsa_verify(pmul(d, G), legacy_sighash(tx, 0, spk, 0x01), r, s)
        rc, top, err = btcdeb(['--tx=0.001:' + tx.ser().hex(), '--txin=' + prev.ser().hex()], spk, [sig, pk])
        if rc == 0 and top == '01':
            fails += 1
            print('DIFFERS  other input segwit, signature made over the BIP143 digest (invalid for this legacy input) -> expected failure; btcdeb: 01')
        else: print('ok       signature over the BIP143 digest rejected (%s)' % err)
if fails:
    print('%d runs used the BIP143 digest for a legacy input because another input of the transaction carries a witness' % fails); sys.exit(1)
print('no difference'); sys.exit(0)
