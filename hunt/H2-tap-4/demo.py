#!/usr/bin/env python3
"""btcdeb (interactive): the first command typed crashes the debugger when .btcdeb_history in the current directory
cannot be opened for appending (read-only directory, or - used here so that it also works as root - a directory of that name).
usage: demo.py [tree-dir]    exit 1 = violation present, 0 = not present"""
import sys, os, pty, select, time, signal, shutil

tree = os.path.abspath(sys.argv[1] if len(sys.argv) > 1 else ".")
btcdeb = os.path.join(tree, "btcdeb")
work = os.path.join(os.path.dirname(os.path.abspath(__file__)), "work")
shutil.rmtree(work, ignore_errors=True)
os.makedirs(os.path.join(work, ".btcdeb_history"))       # fopen(".btcdeb_history", "a") fails with EISDIR

pid, fd = pty.fork()
if pid == 0:
    os.chdir(work)
    os.environ["TERM"] = "dumb"
    os.execv(btcdeb, [btcdeb, "[OP_1 OP_2 OP_ADD]"])
out = bytearray()
def drain(t):
    end = time.time() + t
    while time.time() < end:
        r, _, _ = select.select([fd], [], [], 0.05)
        if r:
            try:
                d = os.read(fd, 65536)
            except OSError:
                return
            if not d: return
            out.extend(d)
drain(1.5)
status = None
for cmd in (b"step\n", b"stack\n", b"\x04"):
    try: os.write(fd, cmd)
    except OSError: break
    drain(1.0)
    p, st = os.waitpid(pid, os.WNOHANG)
    if p: status = st; break
if status is None:
    end = time.time() + 10
    while time.time() < end and status is None:
        drain(0.2)
        p, st = os.waitpid(pid, os.WNOHANG)
        if p: status = st
if status is None:
    os.kill(pid, signal.SIGKILL); os.waitpid(pid, 0)
    print("btcdeb did not exit"); sys.exit(2)
print(out.decode(errors="replace")[-400:])
shutil.rmtree(work, ignore_errors=True)
if os.WIFSIGNALED(status):
    print("VIOLATION: after the command `step` btcdeb was killed by signal %d (expected: the command runs; at most a warning that the history cannot be saved)" % os.WTERMSIG(status))
    sys.exit(1)
print("no violation: exit status", os.WEXITSTATUS(status))
sys.exit(0)
