#!/bin/bash
# Listed pair inside OP_CHECKMULTISIG, signature pushed by the script itself (the way doc/mock-values.md writes
# its OP_CHECKSIG example). Property: S against P succeeds in every signature opcode. Observed: CHECKMULTISIG
# aborts with "Signature is found in scriptCode" before the mock pair is looked at; OP_CHECKSIG is fine.
T="${1:-.}"
B="$T/btcdeb"
[ -x "$B" ] || { echo "no btcdeb binary in $T"; exit 2; }
fail=0
run() { local scr="$1"; shift; echo "$scr" | "$B" "$@" 2>&1; }
last() { grep -v '^warning: no input' | tail -n 1; }
SIG=3044022001020304050607080910111213141516171819202122232425262728293031320220010203040506070809101112131415161718192021222324252627282930313201
PUB=02aaaaaaaaaaaaaaaaaaaaaaaaaaaaaaaaaaaaaaaaaaaaaaaaaaaaaaaaaaaaaaaa
for pair in "sig1 pub1" "$SIG $PUB"; do
    set -- $pair; S=$1; P=$2
    # reference behaviour of the option in OP_CHECKSIG, same layout (sig and key pushed by the script)
    out=$(run "[$S $P OP_CHECKSIG]" --pretend-valid=$S:$P | last)
    if [ "$out" != "01" ]; then echo "DIFF: [S P OP_CHECKSIG] with -P S:P: expected 01, got '$out'"; fail=1; else echo "ok:   [S P OP_CHECKSIG] -> 01 (S=${S:0:12}...)"; fi
    # the same listed pair in a 1-of-1 CHECKMULTISIG
    full=$(run "[OP_0 $S OP_1 $P OP_1 OP_CHECKMULTISIG]" --pretend-valid=$S:$P)
    out=$(echo "$full" | last)
    if [ "$out" != "01" ]; then
        echo "DIFF: [0 S 1 P 1 OP_CHECKMULTISIG] with -P S:P: expected final stack 01, got: $(echo "$full" | grep -m1 '^error')"
        fail=1
    else echo "ok:   [0 S 1 P 1 OP_CHECKMULTISIG] -> 01"; fi
    # and in 2-of-2 with both pairs listed
    full=$(run "[OP_0 $S ${S}aa OP_2 $P ${P}bb OP_2 OP_CHECKMULTISIG]" --pretend-valid=$S:$P,${S}aa:${P}bb)
    out=$(echo "$full" | last)
    if [ "$out" != "01" ]; then
        echo "DIFF: 2-of-2 CHECKMULTISIG, both pairs listed: expected 01, got: $(echo "$full" | grep -m1 '^error')"
        fail=1
    else echo "ok:   2-of-2 CHECKMULTISIG -> 01"; fi
done
if [ $fail -ne 0 ]; then
    echo "VIOLATION: a listed pair does not verify in OP_CHECKMULTISIG when the signature is pushed by the script (it does in OP_CHECKSIG)"
    exit 1
fi
exit 0
