#!/usr/bin/env python3
"""C08 finding 1: a script given on stdin is cut at 1023 characters / at the first newline.

usage: demo.py [TREE]   (TREE defaults to the current directory)
exit 1 + report when the violation is present, exit 0 otherwise.
"""
import os, pty, subprocess, sys

tree = os.path.abspath(sys.argv[1] if len(sys.argv) > 1 else '.')
btcdeb = os.path.join(tree, 'btcdeb')

def run_stdin(script_text, args=()):
    """stdin = pipe carrying the script, stdout = pipe"""
    p = subprocess.run([btcdeb, *args], input=(script_text + '\n').encode(), stdout=subprocess.PIPE,
                       stderr=subprocess.PIPE, cwd=tree, timeout=120)
    return p.returncode, p.stdout.decode(), p.stderr.decode()

def run_argv(script_text, args=()):
    """stdin = terminal (pty), stdout = pipe: the script is taken from argv"""
    m, s = pty.openpty()
    try:
        p = subprocess.run([btcdeb, script_text, *args], stdin=s, stdout=subprocess.PIPE,
                           stderr=subprocess.PIPE, cwd=tree, timeout=120)
    finally:
        os.close(s); os.close(m)
    return p.returncode, p.stdout.decode(), p.stderr.decode()

def scriptnum_hex(n):  # minimal little-endian script number, n > 0
    b = bytearray()
    while n:
        b.append(n & 0xff); n >>= 8
    if b[-1] & 0x80: b.append(0)
    return b.hex()

bad = []

# (a) 600 x OP_1 followed by OP_DEPTH: a 601 byte script (limit is 10000), 601 stack items (limit 1000),
#     1 non-push opcode (limit 201).  Reference result computed here, independent of the tool.
N = 600
script = '0x' + '51' * N + '74'
expected = ''.join('01\n' for _ in range(N)) + scriptnum_hex(N) + '\n'
for name, fn in (('argv ', run_argv), ('stdin', run_stdin)):
    rc, out, err = fn(script)
    ok = (rc == 0 and out == expected)
    print('(a) %s: rc=%s, %d stdout lines, stderr=%r -> %s' % (name, rc, out.count('\n'), err[:80], 'ok' if ok else 'DIFFERS from reference (rc=0, %d lines)' % (N + 1)))
    if not ok: bad.append('(a) ' + name)

# (b) same, bracketed opcode-name form (2010 characters)
script = '[' + ' '.join(['OP_1'] * 400) + ' OP_DEPTH]'
expected = ''.join('01\n' for _ in range(400)) + scriptnum_hex(400) + '\n'
for name, fn in (('argv ', run_argv), ('stdin', run_stdin)):
    rc, out, err = fn(script)
    ok = (rc == 0 and out == expected)
    print('(b) %s: rc=%s, %d stdout lines, stderr=%r -> %s' % (name, rc, out.count('\n'), err[:80], 'ok' if ok else 'DIFFERS from reference (rc=0, 401 lines)'))
    if not ok: bad.append('(b) ' + name)

# (c) a short script written on several lines with comments (the script parser accepts newlines and #-comments)
script = '[OP_1 # one\nOP_2 # two\nOP_ADD]'
for name, fn in (('argv ', run_argv), ('stdin', run_stdin)):
    rc, out, err = fn(script)
    ok = (rc == 0 and out == '03\n')
    print('(c) [informational, same reader, not counted] %s: rc=%s stdout=%r stderr=%r -> %s' % (name, rc, out[:40], err[:80], 'ok' if ok else 'DIFFERS from reference (rc=0, "03")'))

if bad:
    print('VIOLATION: valid scripts are not run to completion in:', ', '.join(bad))
    sys.exit(1)
print('no violation')
sys.exit(0)
