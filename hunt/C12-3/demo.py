#!/usr/bin/env python3
# demo 3: P2SH spend whose scriptSig does not end in the redeem-script push: the redeem script runs, the listing shows an empty P2SH section
import os, pty, sys, select, time, re, signal, struct, tempfile

TREE = os.path.abspath(sys.argv[1] if len(sys.argv) > 1 else '.')

def run_session(args, cmds, timeout=15):
    """drive an interactive btcdeb session on a pseudo-terminal; returns [startup output, output of cmd 1, ...]"""
    exe = os.path.join(TREE, 'btcdeb')
    cwd = tempfile.mkdtemp(prefix='btcdeb-demo-')   # .btcdeb_history lands here, not in the tree
    pid, fd = pty.fork()
    if pid == 0:
        os.chdir(cwd)
        env = dict(os.environ); env['TERM'] = 'dumb'
        os.execve(exe, [exe] + args, env)
    def read_until_prompt():
        buf = b''; end = time.time() + timeout
        while time.time() < end:
            r, _, _ = select.select([fd], [], [], 0.2)
            if fd in r:
                try: d = os.read(fd, 65536)
                except OSError: break
                if not d: break
                buf += d
                if buf.endswith(b'btcdeb> '):
                    r2, _, _ = select.select([fd], [], [], 0.05)
                    if not r2: break
        return buf.decode('utf8', 'replace').replace('\r', '')
    outs = [read_until_prompt()]
    for c in cmds:
        os.write(fd, (c + '\n').encode())
        outs.append(read_until_prompt())
    try: os.kill(pid, signal.SIGKILL)
    except OSError: pass
    try: os.waitpid(pid, 0)
    except OSError: pass
    os.close(fd)
    try:
        for f in os.listdir(cwd): os.unlink(os.path.join(cwd, f))
        os.rmdir(cwd)
    except OSError: pass
    return outs

def parse_print(out):
    """(lines without the 4-column marker gutter, index of the ' -> ' line or None) of a `print` output"""
    lines = []; marker = None
    for ln in out.split('\n'):
        if ln.startswith(' -> ') or ln.startswith('    '):
            if ln.startswith(' -> '): marker = len(lines)
            lines.append(ln[4:])
    return lines, marker

def strip_idx(l): return re.sub(r'^#\d+ ', '', l)

def parse_pane(out):
    """left ('script') column of the last two-column display in out, or None"""
    ls = out.split('\n')
    idx = [i for i, l in enumerate(ls) if re.match(r'^-+\+-+$', l)]
    if not idx: return None
    res = []
    for l in ls[idx[-1]+1:]:
        if '|' not in l: break
        res.append(l.split('|')[0].rstrip())
    while res and res[-1] == '': res.pop()
    return res

def pane_matches(pane_line, full):
    """the pane abbreviates long lines to 63 characters + '...'"""
    if pane_line.endswith('...') and len(full) > len(pane_line): return full.startswith(pane_line[:-3])
    return pane_line == full

# txin output 0: scriptPubKey = OP_HASH160 <hash160(redeem)> OP_EQUAL, redeem = "OP_ADD 5 OP_EQUAL" (93 55 87)
# tx input 0:    scriptSig    = 2 3 <935587> OP_NOP          (52 53 03935587 61)
TXIN = '020000000111111111111111111111111111111111111111111111111111111111111111110000000000ffffffff01a08601000000000017a9149c7d1d4a371634286f4437f7f8a38021ffbb7ca08700000000'
TX = '02000000011aee562d48b11c2955d9c87b3c9a9f70251d6b09751d5bdd95387f2652061b84000000000752530393558761ffffffff01b882010000000000015100000000'
sections = [['2', '3', '935587', 'OP_NOP'],
            ['<<< scriptPubKey >>>', 'OP_HASH160', '9c7d1d4a371634286f4437f7f8a38021ffbb7ca0', 'OP_EQUAL'],
            ['<<< P2SH script >>>', 'OP_ADD', '5', 'OP_EQUAL']]
expected = sum(sections, [])

def stack_of(out):
    ls = out.split('\n')
    idx = [i for i, l in enumerate(ls) if re.match(r'^-+\+-+$', l)]
    if not idx: return None
    res = []
    for l in ls[idx[-1]+1:]:
        if '|' not in l: break
        v = l.split('|', 1)[1].strip()
        if v: res.append(v)
    return res

cmds = ['print', 'step'] * 16
outs = run_session(['--txin=' + TXIN, '--tx=' + TX], cmds)
bad = []
listing = None; marker = None; stack = stack_of(outs[0]); k = 0
for c, o in zip(cmds, outs[1:]):
    if c == 'print':
        lines, marker = parse_print(o)
        listing = [strip_idx(l) for l in lines]
    else:
        if 'at end of script' in o or 'rror' in o: break     # a tool that refuses the spend here is fine
        new = stack_of(o)
        if marker is None:
            if new != stack:
                bad.append('step %d (executes %s) changed the stack %r -> %r while no operation was listed/marked as pending' % (k + 1, expected[k] if k < len(expected) else '?', stack, new))
        elif k >= len(expected) or listing[marker] != expected[k]:
            bad.append('step %d: marked %r, executed %r' % (k + 1, listing[marker], expected[k] if k < len(expected) else '?'))
        k += 1
        stack = new
if bad:
    bad.insert(0, 'print lists       %r\n  executed in order %r' % (listing, expected))
if bad:
    print('VIOLATION: operations of the P2SH redeem script are executed but neither listed nor marked:')
    for b in bad: print('  ' + b)
    sys.exit(1)
print('ok: listing shows the redeem script that is executed (or the spend is refused before it runs)')
sys.exit(0)
