#!/usr/bin/env python3
"""exec of a one-byte hex push 01..10 fails with MINIMALDATA; the script's push of the same byte works."""
import os, re, sys
sys.path.insert(0, os.path.dirname(os.path.abspath(__file__)))
from drv import session
tree = os.path.abspath(sys.argv[1] if len(sys.argv) > 1 else '.')
def stack(o): return re.findall(r'<\d+>\t([0-9a-f]*)', o)
bad = []
for tok in ['05', '01', '0a', '0f']:
    expect = [tok, '08', '07']          # reference: pushing the byte leaves it on top of 07 08
    a = session(tree, ['[OP_NOP]', '07', '08'], ['exec ' + tok, 'stack'])
    got = stack(a[2])
    err = re.search(r'(?:[Ee]rror|exception): .*', a[1])
    b = session(tree, ['[' + tok + ' OP_NOP]', '07', '08'], ['step', 'stack'])
    scr = stack(b[2]); serr = re.search(r'error: .*', b[1])
    if got != expect or err:
        bad.append("exec %s: expected stack (top first) %s, no error; got %s, message %r; script [%s OP_NOP] stepped once: %s, message %r"
                   % (tok, expect, got, err.group(0).strip() if err else None, tok, scr, serr.group(0) if serr else None))
if bad:
    print("VIOLATION: exec of a one-byte hex push fails where the script's push succeeds (default flags)")
    for b in bad: print("  " + b)
    sys.exit(1)
print("ok")
