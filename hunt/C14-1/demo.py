#!/usr/bin/env python3
# Finding 1: byte strings shorter than 5 bytes are re-encoded as script numbers when they are one of several
# arguments / a script element: tagged-hash of 0x1100 is computed over 0x11, and `0x1100 OP_SHA256` hashes 0x11
# while `tf sha256 0x1100` / sha256(0x1100) hash 0x1100.
import sys, os, hashlib
tree = os.path.abspath(sys.argv[1] if len(sys.argv) > 1 else '.')
sys.path.insert(0, os.path.dirname(os.path.abspath(__file__)))
from helper import btcc, btcdeb_pipe, unpush, tf

def tagged(tag, msg):
    t = hashlib.sha256(tag).digest()
    return hashlib.sha256(t + t + msg).hexdigest()

bad = []
msg = bytes.fromhex('1100')

# (a) inline form of the tagged hash (BIP340: SHA256(SHA256(tag) || SHA256(tag) || msg))
out, err = btcc(tree, 'tagged_hash([TapLeaf 0x1100])')
got = unpush(out).hex() if out else None
exp = tagged(b'TapLeaf', msg)
if got != exp:
    bad.append("btcc 'tagged_hash([TapLeaf 0x1100])': expected %s (BIP340 tagged hash of 1100), got %s%s"
               % (exp, got, ' (= tagged hash of the single byte 11)' if got == tagged(b'TapLeaf', b'\x11') else ''))

# (b) command form of the tagged hash
try:
    r = tf(tree, ['tf tagged-hash TapLeaf 0x1100'])[0]
    got = r[-1] if r else None
    if got != exp:
        bad.append("tf tagged-hash TapLeaf 0x1100: expected %s, got %s" % (exp, got))
except Exception as e:
    print('(interactive check skipped: %s)' % e)

# (c) opcode form vs command/inline form of sha256
exp = hashlib.sha256(msg).hexdigest()
out, err = btcdeb_pipe(tree, '[0x1100 OP_SHA256]')
inl, _ = btcc(tree, 'sha256(0x1100)')
inl = unpush(inl).hex() if inl else None
if inl != exp:
    bad.append("btcc 'sha256(0x1100)': expected %s, got %s" % (exp, inl))
if out != exp:
    bad.append("echo '[0x1100 OP_SHA256]' | btcdeb: final stack %s, but SHA-256(1100) = %s = what sha256(0x1100) yields%s"
               % (out, exp, ' (the script hashed the single byte 11)' if out == hashlib.sha256(b'\x11').hexdigest() else ''))

if bad:
    print('VIOLATION:')
    for b in bad: print(' -', b)
    sys.exit(1)
print('ok: short byte strings keep their bytes')
