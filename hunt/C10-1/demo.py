#!/usr/bin/env python3
import hashlib, os, pty, struct, subprocess, sys

TREE = os.path.abspath(sys.argv[1] if len(sys.argv) > 1 else '.')
BTCDEB = os.path.join(TREE, 'btcdeb')

def run(args):
    """Run btcdeb with a terminal on stdin (so the script comes from argv) and pipes on stdout/stderr
    (so it runs the script to the end and prints the final stack / the error)."""
    m, s = pty.openpty()
    try:
        p = subprocess.run([BTCDEB] + args, stdin=s, stdout=subprocess.PIPE, stderr=subprocess.PIPE, timeout=120)
    finally:
        os.close(m); os.close(s)
    return p.returncode, p.stdout.decode(errors='replace'), p.stderr.decode(errors='replace')

def push(b):
    n = len(b)
    if n < 76: return bytes([n]) + b
    if n < 256: return bytes([76, n]) + b
    return bytes([77]) + struct.pack('<H', n) + b

def sha256(b): return hashlib.sha256(b).digest()
def dsha(b): return sha256(sha256(b))
def varint(n):
    if n < 253: return bytes([n])
    if n < 65536: return b'\xfd' + struct.pack('<H', n)
    return b'\xfe' + struct.pack('<I', n)

def ser_tx(vin, vout, witness=None):
    r = struct.pack('<i', 2)
    if witness: r += b'\x00\x01'
    r += varint(len(vin))
    for h, n, ss, seq in vin: r += h + struct.pack('<I', n) + varint(len(ss)) + ss + struct.pack('<I', seq)
    r += varint(len(vout))
    for v, spk in vout: r += struct.pack('<q', v) + varint(len(spk)) + spk
    if witness:
        for st in witness:
            r += varint(len(st))
            for it in st: r += varint(len(it)) + it
    return r + struct.pack('<I', 0)

def make_pair(spk, scriptSig=b'', wstack=None):
    """(--tx, --txin) hex: txin has one output paying to spk, tx spends it with scriptSig / witness."""
    txin = ser_tx([(b'\x00' * 32, 0xffffffff, b'\x51', 0xffffffff)], [(100000, spk)])
    tx = ser_tx([(dsha(txin), 0, scriptSig, 0xffffffff)], [(99000, b'\x51')], witness=[wstack] if wstack else None)
    return ['--tx=' + tx.hex(), '--txin=' + txin.hex()]

def last_err(err):
    lines = [l for l in err.strip().splitlines() if l.strip()]
    return lines[-1] if lines else ''

# --- minimal secp256k1 / BIP341 helpers (pure python) to build a valid taproot script-path output ---
P_ = 0xFFFFFFFFFFFFFFFFFFFFFFFFFFFFFFFFFFFFFFFFFFFFFFFFFFFFFFFEFFFFFC2F
G_ = (0x79BE667EF9DCBBAC55A06295CE870B07029BFCDB2DCE28D959F2815B16F81798,
      0x483ADA7726A3C4655DA4FBFC0E1108A8FD17B448A68554199C47D08FFB10D4B8)
def padd(a, b):
    if a is None: return b
    if b is None: return a
    if a[0] == b[0] and a[1] != b[1]: return None
    if a == b: lam = 3 * a[0] * a[0] * pow(2 * a[1], P_ - 2, P_) % P_
    else: lam = (b[1] - a[1]) * pow(b[0] - a[0], P_ - 2, P_) % P_
    x = (lam * lam - a[0] - b[0]) % P_
    return (x, (lam * (a[0] - x) - a[1]) % P_)
def pmul(pt, k):
    r = None
    while k:
        if k & 1: r = padd(r, pt)
        pt = padd(pt, pt); k >>= 1
    return r
def tagged(tag, m):
    t = sha256(tag.encode()); return sha256(t + t + m)
def tapscript_pair(script, stack):
    """Single-leaf taproot output (internal key = G, which has even y) committing to `script`; spend it
    through the script path with `stack` as the witness arguments."""
    px = G_[0].to_bytes(32, 'big')
    leaf = tagged('TapLeaf', b'\xc0' + varint(len(script)) + script)
    t = int.from_bytes(tagged('TapTweak', px + leaf), 'big')
    q = padd(G_, pmul(G_, t))
    control = bytes([0xc0 | (q[1] & 1)]) + px
    return make_pair(b'\x51\x20' + q[0].to_bytes(32, 'big'), b'', list(stack) + [script, control])
def p2wsh_pair(script, stack):
    return make_pair(b'\x00\x20' + sha256(script), b'', list(stack) + [script])

# Consensus (BIP141 / BIP342, Bitcoin Core ExecuteWitnessScript): every element of the initial witness stack
# must be at most 520 bytes, otherwise the spend fails with SCRIPT_ERR_PUSH_SIZE - for P2WSH and for tapscript.
DROP, ONE = b'\x75', b'\x51'
script = DROP + ONE          # <item> OP_DROP OP_1  -> clean stack [01] if the item is admitted
bad = []
for kind, mk in (('P2WSH (WITNESS_V0)', p2wsh_pair), ('tapscript', tapscript_pair)):
    for n in (519, 520, 521):
        rc, out, err = run(mk(script, [b'\x07' * n]))
        want_ok = n <= 520
        got = 'success' if rc == 0 else 'failure (%s)' % last_err(err)
        print('%-20s witness item of %d bytes: expected %s, got %s' % (kind, n, 'success' if want_ok else 'failure (Push value size limit exceeded)', got))
        if want_ok != (rc == 0) or (not want_ok and 'push value size' not in err.lower()):
            bad.append((kind, n, got))
if bad:
    print('VIOLATION: the 520-byte element limit is not enforced on the witness stack:', bad)
    sys.exit(1)
print('no violation')
sys.exit(0)
