#!/usr/bin/env python3
"""Finding 2: hashtype_str() returns a pointer into an uninitialised stack buffer.
usage: demo.py [tree-dir]; exit 1 when the uninitialised read is observed, 0 otherwise."""
import os, sys, subprocess, shutil, pty, select, time, re, signal, tempfile
TREE = os.path.abspath(sys.argv[1] if len(sys.argv) > 1 else '.')
BTCDEB = os.path.join(TREE, 'btcdeb')
if not os.access(BTCDEB, os.X_OK):
    print('no btcdeb binary in', TREE); sys.exit(2)

# A: bare 2-of-2 multisig, DEFAULT flags. scriptSig = OP_0 <0x00> <well-formed DER sig that does not verify>
#    (the one-byte "signature" 0x00 is never passed through CheckSignatureEncoding: btcdeb's "is this signature
#     in the wrong position?" loop hands it straight to CheckECDSASignature)
MS_TX = '0200000001bc704e8675dc34d8a79754f7407ce011c0e4054ac83b4357cf81ee3ef82055d5000000004b000100473044022079be667ef9dcbbac55a06295ce870b07029bfcdb2dce28d959f2815b16f81798022079be667ef9dcbbac55a06295ce870b07029bfcdb2dce28d959f2815b16f8179801ffffffff01b882010000000000015100000000'
MS_IN = '020000000111111111111111111111111111111111111111111111111111111111111111110000000000ffffffff01a0860100000000004752210279be667ef9dcbbac55a06295ce870b07029bfcdb2dce28d959f2815b16f817982102c6047f9441ed7d6d3045406e95c07cd85c778e4b8cef3ca7abac09b95c709ee552ae00000000'
# B: P2PKH spend whose signature has sighash byte 0x00 (consensus-legal, only STRICTENC policy rejects it),
#    run with --modify-flags=-STRICTENC
HT_TX = '0200000001700e937a5fbfa6d4b091b885812dd24ffd1277252f945e5ac1802e349a310dfb000000006a473044022079be667ef9dcbbac55a06295ce870b07029bfcdb2dce28d959f2815b16f81798022079be667ef9dcbbac55a06295ce870b07029bfcdb2dce28d959f2815b16f8179800210279be667ef9dcbbac55a06295ce870b07029bfcdb2dce28d959f2815b16f81798ffffffff01b882010000000000015100000000'
HT_IN = '020000000111111111111111111111111111111111111111111111111111111111111111110000000000ffffffff01a0860100000000001976a914751e76e8199196d454941c45d1b3a323f1433bd688ac00000000'

fail = 0
vg = shutil.which('valgrind')
if vg:
    for label, args in (('A multisig, default flags', ['--tx=' + MS_TX, '--txin=' + MS_IN]),
                        ('B p2pkh sighash 0x00, -STRICTENC', ['--modify-flags=-STRICTENC', '--tx=' + HT_TX, '--txin=' + HT_IN])):
        p = subprocess.run([vg, '-q', '--error-exitcode=99', BTCDEB] + args, input=b'', capture_output=True, cwd=TREE)
        err = p.stderr.decode(errors='replace')
        n = len(re.findall(r'uninitialised value', err))
        if p.returncode == 99 or n:
            fail = 1
            where = 'hashtype_str' if 'hashtype_str' in err else '?'
            print('VIOLATION (%s): valgrind memcheck reports %d use(s) of uninitialised memory (in %s), exit status %d' % (label, n, where, p.returncode))
            print('   ' + '\n   '.join(err.split('\n')[1:7]))
        else:
            print('ok (%s): no memcheck error, exit status %d' % (label, p.returncode))
else:
    print('valgrind not found; only the interactive check is run')

# C: the same input as B in an interactive session on a pty: the signing log prints the description of the hash type,
#    which for 0x00 is whatever happens to be on the stack
def session(args, cmds):
    env = dict(os.environ); env['TERM'] = 'dumb'
    pid, fd = pty.fork()
    if pid == 0:
        os.chdir(SCRATCH); os.execve(BTCDEB, [BTCDEB] + args, env)
    out = b''
    def rd(t):
        nonlocal out
        end = time.time() + t
        while time.time() < end:
            r, _, _ = select.select([fd], [], [], max(0, end - time.time()))
            if not r: return True
            try: d = os.read(fd, 65536)
            except OSError: return False
            if not d: return False
            out += d
            if out.endswith(b'> '): return True
        return True
    alive = rd(5)
    for c in cmds:
        if not alive: break
        os.write(fd, c.encode() + b'\n'); alive = rd(5)
    try: os.write(fd, b'\x04')
    except OSError: pass
    rd(1)
    try: os.kill(pid, signal.SIGKILL)
    except OSError: pass
    os.waitpid(pid, 0); os.close(fd)
    return out
SCRATCH = tempfile.mkdtemp()   # the session writes .btcdeb_history into its cwd
garbage = None
for attempt in range(3):
    out = session(['--modify-flags=-STRICTENC', '--tx=' + HT_TX, '--txin=' + HT_IN], ['step'] * 8)
    m = re.search(rb'hash type   = 00 \((.*?)\)\r?\n', out, re.S)
    if m and m.group(1) and not re.fullmatch(rb'[A-Za-z0-9_ |/,.:-]*', m.group(1)):
        garbage = m.group(1); break
shutil.rmtree(SCRATCH, ignore_errors=True)
if garbage is not None:
    fail = 1
    print('VIOLATION (C interactive, -STRICTENC): the log line reads  "hash type   = 00 (%s)"  - stack garbage' % ''.join('\\x%02x' % b for b in garbage))
else:
    print('ok (C interactive): no garbage in the "hash type" log line')
sys.exit(fail)
