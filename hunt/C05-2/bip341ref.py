# Independent BIP340/341 reference (pure python)
import hashlib, struct, os, subprocess, pty, select, sys, re, time
p = 0xFFFFFFFFFFFFFFFFFFFFFFFFFFFFFFFFFFFFFFFFFFFFFFFFFFFFFFFEFFFFFC2F
n = 0xFFFFFFFFFFFFFFFFFFFFFFFFFFFFFFFEBAAEDCE6AF48A03BBFD25E8CD0364141
G = (0x79BE667EF9DCBBAC55A06295CE870B07029BFCDB2DCE28D959F2815B16F81798, 0x483ADA7726A3C4655DA4FBFC0E1108A8FD17B448A68554199C47D08FFB10D4B8)
def tagged_hash(tag, msg):
    t = hashlib.sha256(tag.encode()).digest()
    return hashlib.sha256(t + t + msg).digest()
def point_add(P1, P2):
    if P1 is None: return P2
    if P2 is None: return P1
    if P1[0] == P2[0] and P1[1] != P2[1]: return None
    if P1 == P2: lam = (3 * P1[0] * P1[0] * pow(2 * P1[1], p - 2, p)) % p
    else: lam = ((P2[1] - P1[1]) * pow(P2[0] - P1[0], p - 2, p)) % p
    x3 = (lam * lam - P1[0] - P2[0]) % p
    return (x3, (lam * (P1[0] - x3) - P1[1]) % p)
def point_mul(P, k):
    R = None
    for i in range(256):
        if (k >> i) & 1: R = point_add(R, P)
        P = point_add(P, P)
    return R
def lift_x(x):
    if x >= p: return None
    y_sq = (pow(x, 3, p) + 7) % p
    y = pow(y_sq, (p + 1) // 4, p)
    if pow(y, 2, p) != y_sq: return None
    return (x, y if y & 1 == 0 else p - y)
def b2i(b): return int.from_bytes(b, 'big')
def i2b(i): return i.to_bytes(32, 'big')
def compact(nn):
    if nn < 253: return bytes([nn])
    if nn < 0x10000: return b'\xfd' + struct.pack('<H', nn)
    if nn < 0x100000000: return b'\xfe' + struct.pack('<I', nn)
    return b'\xff' + struct.pack('<Q', nn)
def tapleaf(ver, script): return tagged_hash("TapLeaf", bytes([ver]) + compact(len(script)) + script)
def tapbranch(a, b): return tagged_hash("TapBranch", a + b if a < b else b + a)
def fold(control, script):
    """returns list of k_0..k_m"""
    k = tapleaf(control[0] & 0xfe, script)
    ks = [k]
    m = (len(control) - 33) // 32
    for j in range(m):
        e = control[33 + 32 * j: 65 + 32 * j]
        k = tagged_hash("TapBranch", k + e if k < e else e + k)
        ks.append(k)
    return ks
def bip341_ok(control, script, q):
    if len(control) < 33 or (len(control) - 33) % 32 or (len(control) - 33) // 32 > 128: return False
    pk = control[1:33]
    P = lift_x(b2i(pk))
    if P is None: return False
    k = fold(control, script)[-1]
    t = b2i(tagged_hash("TapTweak", pk + k))
    if t >= n: return False
    Q = point_add(P, point_mul(G, t))
    if Q is None: return False
    return q == i2b(Q[0]) and (control[0] & 1) == (Q[1] & 1)
def make_output(pk, root):
    """returns (q bytes, parity)"""
    P = lift_x(b2i(pk))
    t = b2i(tagged_hash("TapTweak", pk + root))
    assert t < n
    Q = point_add(P, point_mul(G, t))
    return i2b(Q[0]), Q[1] & 1
def xonly_from_seckey(d):
    P = point_mul(G, d)
    return i2b(P[0])
# --- transactions
def ser_str(b): return compact(len(b)) + b
def make_txs(q_program, witness, spk=None, nseq=0xffffffff, amount=100000):
    """returns (txin_hex, tx_hex); txin has one output OP_1 <program>"""
    if spk is None: spk = b'\x51' + bytes([len(q_program)]) + q_program
    # funding tx: legacy, 1 dummy input
    fund = struct.pack('<i', 2) + b'\x01' + b'\x11' * 32 + struct.pack('<I', 0) + b'\x00' + struct.pack('<I', 0xffffffff)
    fund += b'\x01' + struct.pack('<q', amount) + ser_str(spk) + struct.pack('<I', 0)
    txid = hashlib.sha256(hashlib.sha256(fund).digest()).digest()
    out = struct.pack('<q', amount - 1000) + ser_str(b'\x51')
    sp = struct.pack('<i', 2) + b'\x00\x01' + b'\x01' + txid + struct.pack('<I', 0) + b'\x00' + struct.pack('<I', nseq)
    sp += b'\x01' + out
    sp += compact(len(witness)) + b''.join(ser_str(w) for w in witness)
    sp += struct.pack('<I', 0)
    return fund.hex(), sp.hex()
def sighash_tapscript(txid, amount, spk, nseq, outputs_ser, leafhash, annex=None, hashtype=0, codesep=0xffffffff, locktime=0, version=2):
    sha = lambda b: hashlib.sha256(b).digest()
    msg = b'\x00' + bytes([hashtype]) + struct.pack('<i', version) + struct.pack('<I', locktime)
    msg += sha(txid + struct.pack('<I', 0))
    msg += sha(struct.pack('<q', amount))
    msg += sha(ser_str(spk))
    msg += sha(struct.pack('<I', nseq))
    msg += sha(outputs_ser)
    spend_type = 2 + (1 if annex is not None else 0)
    msg += bytes([spend_type]) + struct.pack('<I', 0)
    if annex is not None: msg += sha(ser_str(annex))
    msg += leafhash + b'\x00' + struct.pack('<I', codesep)
    return tagged_hash("TapSighash", msg)
def schnorr_sign(msg, d0, aux=b'\x00' * 32):
    P = point_mul(G, d0)
    d = d0 if P[1] % 2 == 0 else n - d0
    t = (d ^ b2i(tagged_hash("BIP0340/aux", aux))).to_bytes(32, 'big')
    k0 = b2i(tagged_hash("BIP0340/nonce", t + i2b(P[0]) + msg)) % n
    R = point_mul(G, k0)
    k = k0 if R[1] % 2 == 0 else n - k0
    e = b2i(tagged_hash("BIP0340/challenge", i2b(R[0]) + i2b(P[0]) + msg)) % n
    return i2b(R[0]) + i2b((k + e * d) % n)

def run_btcdeb(tree, tx, txin, extra=(), want_log=True, timeout=60):
    """run non-interactively (stdout piped); stdin is a pty so that the taproot log is on. returns (rc, stdout, stderr)"""
    args = [os.path.join(tree, 'btcdeb'), '--tx=' + tx, '--txin=' + txin] + list(extra)
    if want_log:
        m, s = pty.openpty()
        pr = subprocess.Popen(args, stdin=s, stdout=subprocess.PIPE, stderr=subprocess.PIPE, cwd=tree)
        os.close(s)
        try: out, err = pr.communicate(timeout=timeout)
        finally: os.close(m)
    else:
        pr = subprocess.Popen(args, stdin=subprocess.DEVNULL, stdout=subprocess.PIPE, stderr=subprocess.PIPE, cwd=tree)
        out, err = pr.communicate(timeout=timeout)
    return pr.returncode, out.decode(errors='replace'), err.decode(errors='replace')
