#!/usr/bin/env python3
# Finding 2: for a leaf version other than 0xc0 the commitment check is never run, so it never
# ends in success although BIP341's rule holds for the (control block, script, program) triple.
import sys, os, re
sys.path.insert(0, os.path.dirname(os.path.abspath(__file__)))
from bip341ref import *
tree = os.path.abspath(sys.argv[1] if len(sys.argv) > 1 else '.')
def triple(lv, script):
    pk = xonly_from_seckey(4242)
    nodes = [b'\x07' * 32]
    ctrl = bytes([lv]) + pk + b''.join(nodes)
    q, par = make_output(pk, fold(ctrl, script)[-1])
    return bytes([lv | par]) + pk + b''.join(nodes), q
def ended_in_success(lv, script):
    ctrl, q = triple(lv, script)
    assert bip341_ok(ctrl, script, q)               # independent BIP341 check: commitment is valid
    txin, tx = make_txs(q, [script, ctrl])
    rc, out, err = run_btcdeb(tree, tx, txin)
    ok = rc == 0 or re.search(r'CheckTapTweak\(.*\) == success', err) is not None
    return ok, rc, err, ctrl, q
ok, rc, err, _, _ = ended_in_success(0xc0, b'\x51')
if not ok: print("control case (leaf version 0xc0) failed; harness problem"); print(err); sys.exit(2)
bad = 0
for lv in (0xc2, 0x00, 0x66, 0xfe):
    ok, rc, err, ctrl, q = ended_in_success(lv, b'\x51')
    if not ok:
        bad += 1
        print("leaf version 0x%02x: BIP341 rule holds (control=%s program=%s script=51) but the commitment check did not end in success: rc=%d, last message: %s"
              % (lv, ctrl.hex(), q.hex(), rc, (err.strip().splitlines() or [''])[-1]))
if bad: print("VIOLATION for %d leaf versions" % bad); sys.exit(1)
print("ok"); sys.exit(0)
