#!/bin/bash
# Finding 1: deeply nested inline function calls overflow the stack in the Value parser.
# usage: demo.sh [tree]    exit 0 = no violation, exit 1 = violation present
TREE=${1:-.}
TREE=$(cd "$TREE" && pwd)
N=25000   # int(int(int(...1...))) ; 5 bytes per level = 125001 bytes, below the 128 KiB per-argument limit
ARG=$(python3 -c "print('int(' * $N + '1' + ')' * $N)")
fail=0
ulimit -s 8192 2>/dev/null   # the usual default stack size

"$TREE/btcc" "$ARG" >/tmp/f1.out.$$ 2>/tmp/f1.err.$$
rc=$?
if [ $rc -ge 128 ]; then
    echo "VIOLATION: btcc 'int(int(...$N levels...(1)...))' was killed by signal $((rc-128)) (exit status $rc); expected a result (01 / 51) or a diagnostic"
    fail=1
else
    echo "btcc: exit $rc, stdout: $(head -c 80 /tmp/f1.out.$$), stderr: $(head -c 120 /tmp/f1.err.$$)"
fi

# the same parser is used for btcdeb's script argument
"$TREE/btcdeb" "$ARG" </dev/null >/tmp/f1.out.$$ 2>/tmp/f1.err.$$
rc=$?
if [ $rc -ge 128 ]; then
    echo "VIOLATION: btcdeb '<same argument as script>' was killed by signal $((rc-128)) (exit status $rc)"
    fail=1
else
    echo "btcdeb: exit $rc"
fi
rm -f /tmp/f1.out.$$ /tmp/f1.err.$$
exit $fail
