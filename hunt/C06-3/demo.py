#!/usr/bin/env python3
# Finding 3: for address prefixes that are not a legal bech32 human-readable part (empty, longer than 30 characters
# for a 32-byte v1 program = total length > 90, or containing characters outside US-ASCII 33..126) tap exits 0 and
# prints an "address" that is not a bech32m string at all: a BIP350 decoder (and the tree's own bech32dec) rejects it.
import os, sys
sys.path.insert(0, os.path.dirname(os.path.abspath(__file__)))
from ref import *

tree = os.path.abspath(sys.argv[1] if len(sys.argv) > 1 else '.')
TAP = os.path.join(tree, 'tap'); BTCC = os.path.join(tree, 'btcc')

K = bytes.fromhex('f30544d6009c8d8d94f5d030b2e844b1a3ca036255161c479db1cca5b374dd1c')
script = b'\x51'
Q = taproot_tweak(K, leaf_hash(script))[0]

cases = [
    ('tb', True),                                    # control: legal prefix
    ('abcdefghijklmnopqrstuvwxyzabcd', True),        # 30 characters: 90-character address, still legal
    ('abcdefghijklmnopqrstuvwxyzabcde', False),      # 31 characters: 91-character string, over the BIP173/350 limit
    ('', False),                                     # empty human-readable part
    ('t b', False),                                  # space is outside the allowed character range 33..126
]
failures = []
for hrp, legal in cases:
    out, err, rc = run([TAP, '--addrprefix=' + hrp, K.hex(), '1', '0x' + script.hex()])
    addr = None
    for l in out.splitlines():
        if l.startswith('Resulting Bech32m address: '): addr = l[len('Resulting Bech32m address: '):]
    if addr is None:
        print('prefix %r: tap printed no address (exit %s) - refusal, fine' % (hrp, rc)); continue
    dec = bech32m_decode(addr)
    good = dec is not None and dec == (hrp.lower(), 1, Q)
    own = ''
    if os.path.exists(BTCC):
        o2, e2, r2 = run([BTCC, 'bech32dec(%s)' % addr])
        own = '; tree\'s own bech32dec: ' + ('rejects it' if 'failed to bech32' in e2 else 'accepts it')
    print('prefix %r: tap exit %s printed %r (%d chars); BIP350 decode -> %s%s' % (hrp, rc, addr, len(addr), 'output key, ok' if good else 'INVALID', own))
    if not good:
        failures.append('prefix %r: printed address %r is not the bech32m encoding of the output key %s' % (hrp, addr, Q.hex()))
    if good and not legal:
        print('  (unexpected: reference accepted an illegal prefix)')

if failures:
    print('VIOLATION:')
    for f in failures: print('  ' + f)
    sys.exit(1)
print('ok: no violation')
sys.exit(0)
