#!/usr/bin/env python3
# Independent pure-python reference for BIP340/341/342/350 pieces.
import hashlib, struct, os, subprocess, pty, select, sys

p = 0xFFFFFFFFFFFFFFFFFFFFFFFFFFFFFFFFFFFFFFFFFFFFFFFFFFFFFFFEFFFFFC2F
n = 0xFFFFFFFFFFFFFFFFFFFFFFFFFFFFFFFEBAAEDCE6AF48A03BBFD25E8CD0364141
G = (0x79BE667EF9DCBBAC55A06295CE870B07029BFCDB2DCE28D959F2815B16F81798,
     0x483ADA7726A3C4655DA4FBFC0E1108A8FD17B448A68554199C47D08FFB10D4B8)

def sha256(b): return hashlib.sha256(b).digest()
def tagged(tag, msg):
    t = sha256(tag.encode())
    return sha256(t + t + msg)

def padd(P1, P2):
    if P1 is None: return P2
    if P2 is None: return P1
    if P1[0] == P2[0] and P1[1] != P2[1]: return None
    if P1 == P2:
        lam = (3 * P1[0] * P1[0] * pow(2 * P1[1], p - 2, p)) % p
    else:
        lam = ((P2[1] - P1[1]) * pow(P2[0] - P1[0], p - 2, p)) % p
    x3 = (lam * lam - P1[0] - P2[0]) % p
    return (x3, (lam * (P1[0] - x3) - P1[1]) % p)

def pmul(P, k):
    R = None
    for i in range(256):
        if (k >> i) & 1: R = padd(R, P)
        P = padd(P, P)
    return R

def lift_x(x):
    if x >= p: return None
    y_sq = (pow(x, 3, p) + 7) % p
    y = pow(y_sq, (p + 1) // 4, p)
    if pow(y, 2, p) != y_sq: return None
    return (x, y if y & 1 == 0 else p - y)

def b2i(b): return int.from_bytes(b, 'big')
def i2b(i): return i.to_bytes(32, 'big')

def xonly_from_sec(d):
    P = pmul(G, d)
    return i2b(P[0])

def schnorr_sign(msg, seckey, aux=b'\0' * 32):
    d0 = b2i(seckey)
    P = pmul(G, d0)
    d = d0 if P[1] % 2 == 0 else n - d0
    t = i2b(d ^ b2i(tagged("BIP0340/aux", aux)))
    k0 = b2i(tagged("BIP0340/nonce", t + i2b(P[0]) + msg)) % n
    R = pmul(G, k0)
    k = n - k0 if R[1] % 2 else k0
    e = b2i(tagged("BIP0340/challenge", i2b(R[0]) + i2b(P[0]) + msg)) % n
    return i2b(R[0]) + i2b((k + e * d) % n)

def schnorr_verify(msg, pubkey, sig):
    P = lift_x(b2i(pubkey))
    r = b2i(sig[:32]); s = b2i(sig[32:])
    if P is None or r >= p or s >= n: return False
    e = b2i(tagged("BIP0340/challenge", sig[:32] + pubkey + msg)) % n
    R = padd(pmul(G, s), pmul(P, n - e))
    return R is not None and R[1] % 2 == 0 and R[0] == r

def compact(nn):
    if nn < 253: return bytes([nn])
    if nn < 0x10000: return b'\xfd' + struct.pack('<H', nn)
    if nn < 0x100000000: return b'\xfe' + struct.pack('<I', nn)
    return b'\xff' + struct.pack('<Q', nn)

def ser_str(b): return compact(len(b)) + b

def leaf_hash(script, ver=0xc0):
    return tagged("TapLeaf", bytes([ver]) + ser_str(script))

def branch_hash(a, b):
    if b < a: a, b = b, a
    return tagged("TapBranch", a + b)

def taproot_tweak(internal, root):
    """returns (output_key_bytes, parity) or None"""
    t = b2i(tagged("TapTweak", internal + root))
    if t >= n: return None
    P = lift_x(b2i(internal))
    if P is None: return None
    Q = padd(P, pmul(G, t))
    if Q is None: return None
    return i2b(Q[0]), Q[1] & 1

def tweak_seckey(seckey, root):
    d0 = b2i(seckey)
    P = pmul(G, d0)
    d = d0 if P[1] % 2 == 0 else n - d0
    t = b2i(tagged("TapTweak", i2b(P[0]) + root))
    return i2b((d + t) % n)

def verify_control(q, script, control):
    """BIP341 script path commitment check: q = 32-byte output key"""
    if len(control) < 33 or (len(control) - 33) % 32 or len(control) > 33 + 32 * 128: return False
    m = (len(control) - 33) // 32
    pk = control[1:33]
    k = leaf_hash(script, control[0] & 0xfe)
    for j in range(m):
        e = control[33 + 32 * j: 65 + 32 * j]
        k = branch_hash(k, e)
    r = taproot_tweak(pk, k)
    if r is None: return False
    return r[0] == q and r[1] == (control[0] & 1)

# ---- bech32m (BIP350) ----
CHARSET = "qpzry9x8gf2tvdw0s3jn54khce6mua7l"
def _polymod(values):
    GEN = [0x3b6a57b2, 0x26508e6d, 0x1ea119fa, 0x3d4233dd, 0x2a1462b3]
    chk = 1
    for v in values:
        b = chk >> 25
        chk = (chk & 0x1ffffff) << 5 ^ v
        for i in range(5):
            chk ^= GEN[i] if ((b >> i) & 1) else 0
    return chk
def _hrp_expand(hrp): return [ord(x) >> 5 for x in hrp] + [0] + [ord(x) & 31 for x in hrp]
def _convertbits(data, frm, to, pad=True):
    acc = 0; bits = 0; ret = []; maxv = (1 << to) - 1
    for v in data:
        acc = (acc << frm) | v; bits += frm
        while bits >= to:
            bits -= to; ret.append((acc >> bits) & maxv)
    if pad:
        if bits: ret.append((acc << (to - bits)) & maxv)
    elif bits >= frm or ((acc << (to - bits)) & maxv): return None
    return ret
def bech32m_encode(hrp, witver, prog):
    data = [witver] + _convertbits(prog, 8, 5)
    values = _hrp_expand(hrp) + data
    pm = _polymod(values + [0] * 6) ^ 0x2bc830a3
    chk = [(pm >> 5 * (5 - i)) & 31 for i in range(6)]
    return hrp + '1' + ''.join(CHARSET[d] for d in data + chk)
def bech32m_decode(addr):
    """returns (hrp, witver, prog) or None; strict BIP350"""
    if any(ord(x) < 33 or ord(x) > 126 for x in addr): return None
    if addr.lower() != addr and addr.upper() != addr: return None
    addr = addr.lower()
    pos = addr.rfind('1')
    if pos < 1 or pos + 7 > len(addr) or len(addr) > 90: return None
    if not all(x in CHARSET for x in addr[pos + 1:]): return None
    hrp = addr[:pos]
    data = [CHARSET.find(x) for x in addr[pos + 1:]]
    if _polymod(_hrp_expand(hrp) + data) != 0x2bc830a3: return None
    dec = _convertbits(data[1:-6], 5, 8, False)
    if dec is None: return None
    return hrp, data[0], bytes(dec)

# ---- transactions ----
class Tx:
    def __init__(self, version=2, vin=None, vout=None, locktime=0):
        self.version = version; self.vin = vin or []; self.vout = vout or []; self.locktime = locktime
        # vin: list of dict(txid(bytes, internal order), n, scriptSig, seq, wit=[..]); vout: list of (value, spk)
    def ser(self, witness=True):
        haswit = witness and any(i.get('wit') for i in self.vin)
        r = struct.pack('<i', self.version)
        if haswit: r += b'\x00\x01'
        r += compact(len(self.vin))
        for i in self.vin:
            r += i['txid'] + struct.pack('<I', i['n']) + ser_str(i.get('scriptSig', b'')) + struct.pack('<I', i['seq'])
        r += compact(len(self.vout))
        for v, spk in self.vout:
            r += struct.pack('<q', v) + ser_str(spk)
        if haswit:
            for i in self.vin:
                w = i.get('wit') or []
                r += compact(len(w))
                for e in w: r += ser_str(e)
        r += struct.pack('<I', self.locktime)
        return r
    def txid(self): return sha256(sha256(self.ser(False)))

def read_compact(b, o):
    v = b[o]; o += 1
    if v < 253: return v, o
    if v == 253: return struct.unpack_from('<H', b, o)[0], o + 2
    if v == 254: return struct.unpack_from('<I', b, o)[0], o + 4
    return struct.unpack_from('<Q', b, o)[0], o + 8

def parse_tx(b):
    o = 0
    t = Tx()
    t.version = struct.unpack_from('<i', b, o)[0]; o += 4
    haswit = False
    if b[o] == 0 and b[o + 1] == 1:
        haswit = True; o += 2
    cnt, o = read_compact(b, o)
    for _ in range(cnt):
        txid = b[o:o + 32]; o += 32
        nn = struct.unpack_from('<I', b, o)[0]; o += 4
        l, o = read_compact(b, o); ss = b[o:o + l]; o += l
        seq = struct.unpack_from('<I', b, o)[0]; o += 4
        t.vin.append(dict(txid=txid, n=nn, scriptSig=ss, seq=seq, wit=[]))
    cnt, o = read_compact(b, o)
    for _ in range(cnt):
        v = struct.unpack_from('<q', b, o)[0]; o += 8
        l, o = read_compact(b, o); spk = b[o:o + l]; o += l
        t.vout.append((v, spk))
    if haswit:
        for i in t.vin:
            c, o = read_compact(b, o)
            for _ in range(c):
                l, o = read_compact(b, o); i['wit'].append(b[o:o + l]); o += l
    t.locktime = struct.unpack_from('<I', b, o)[0]; o += 4
    assert o == len(b)
    return t

def sighash341(tx, idx, spent, hash_type=0, leafhash=None, codesep=0xffffffff, annex=None):
    """spent: list of (value, spk) for every input"""
    out_type = 0 if hash_type == 0 else hash_type & 3
    anyone = hash_type & 0x80
    r = b'\x00' + bytes([hash_type]) + struct.pack('<i', tx.version) + struct.pack('<I', tx.locktime)
    if not anyone:
        r += sha256(b''.join(i['txid'] + struct.pack('<I', i['n']) for i in tx.vin))
        r += sha256(b''.join(struct.pack('<q', v) for v, _ in spent))
        r += sha256(b''.join(ser_str(s) for _, s in spent))
        r += sha256(b''.join(struct.pack('<I', i['seq']) for i in tx.vin))
    if out_type not in (2, 3):
        r += sha256(b''.join(struct.pack('<q', v) + ser_str(s) for v, s in tx.vout))
    spend_type = (2 if leafhash is not None else 0) + (1 if annex is not None else 0)
    r += bytes([spend_type])
    if anyone:
        i = tx.vin[idx]
        r += i['txid'] + struct.pack('<I', i['n']) + struct.pack('<q', spent[idx][0]) + ser_str(spent[idx][1]) + struct.pack('<I', i['seq'])
    else:
        r += struct.pack('<I', idx)
    if annex is not None:
        r += sha256(ser_str(annex))
    if out_type == 3:
        v, s = tx.vout[idx]
        r += sha256(struct.pack('<q', v) + ser_str(s))
    if leafhash is not None:
        r += leafhash + b'\x00' + struct.pack('<I', codesep)
    return tagged("TapSighash", r)

# ---- reference tree shapes are NOT assumed; we only verify proofs ----

def run_pty(argv, cwd=None, timeout=60):
    """run with stdin+stdout on a pty (so tap is not quiet); returns (out, err, rc)"""
    m, s = pty.openpty()
    pr = subprocess.Popen(argv, stdin=s, stdout=s, stderr=subprocess.PIPE, cwd=cwd, close_fds=True)
    os.close(s)
    out = b''
    err = b''
    fds = [m, pr.stderr.fileno()]
    while fds:
        r, _, _ = select.select(fds, [], [], timeout)
        if not r: pr.kill(); break
        for fd in r:
            try: d = os.read(fd, 65536)
            except OSError: d = b''
            if not d: fds.remove(fd); continue
            if fd == m: out += d
            else: err += d
    pr.wait()
    os.close(m)
    return out.decode(errors='replace').replace('\r\n', '\n'), err.decode(errors='replace'), pr.returncode

def run(argv, cwd=None):
    pr = subprocess.run(argv, stdin=subprocess.DEVNULL, stdout=subprocess.PIPE, stderr=subprocess.PIPE, cwd=cwd)
    return pr.stdout.decode(errors='replace'), pr.stderr.decode(errors='replace'), pr.returncode
