#!/usr/bin/env python3
"""C08 finding 3: a stack item (or script) written as a deeply nested inline expression  int(int(...(1)...))
kills non-interactive btcdeb with SIGSEGV (stack overflow in the recursive Value parser).

usage: demo.py [TREE]   (TREE defaults to the current directory)
exit 1 + report when the violation is present, exit 0 otherwise.
"""
import os, pty, subprocess, sys

tree = os.path.abspath(sys.argv[1] if len(sys.argv) > 1 else '.')
btcdeb = os.path.join(tree, 'btcdeb')

def run_argv(args):
    m, s = pty.openpty()          # stdin = terminal, stdout = pipe  -> non-interactive, script from argv
    try:
        p = subprocess.run([btcdeb, *args], stdin=s, stdout=subprocess.PIPE, stderr=subprocess.PIPE, cwd=tree, timeout=600)
    finally:
        os.close(s); os.close(m)
    return p.returncode, p.stdout.decode(), p.stderr.decode()

def run_stdin(script, args):
    p = subprocess.run([btcdeb, *args], input=(script + '\n').encode(), stdout=subprocess.PIPE, stderr=subprocess.PIPE, cwd=tree, timeout=600)
    return p.returncode, p.stdout.decode(), p.stderr.decode()

bad = []
# control: shallow nesting works; int(x) is the identity on an integer, so the item is 01 and DUP gives 01 01
rc, out, err = run_argv(['[OP_DUP]', 'int(int(int(1)))'])
print('control  int(int(int(1)))           rc=%s stdout=%r' % (rc, out))

N = 21800                         # 109001 characters: below the kernel's 128 KiB limit for one argument
item = 'int(' * N + '1' + ')' * N
for label, got in (('stack item on argv, script on argv ', lambda: run_argv(['[OP_DUP]', item])),
                   ('stack item on argv, script on stdin', lambda: run_stdin('[OP_DUP]', [item])),
                   ('the script itself                  ', lambda: run_argv(['[' + item + ' OP_DUP]']))):
    rc, out, err = got()
    normal = rc in (0, 1)
    print('%s depth %d: rc=%s %s stdout=%r stderr=%r' % (label, N, rc, '' if normal else '(killed by signal %d)' % -rc if isinstance(rc, int) and rc < 0 else '', out[:20], err[:60]))
    if not normal: bad.append(label.strip())

if bad:
    print('VIOLATION: abnormal termination (promised: exit status 0 or 1) for:', '; '.join(bad))
    sys.exit(1)
print('no violation')
sys.exit(0)
