#!/usr/bin/env python3
# Finding 3: for leaf scripts that CScript::HasValidOps() rejects (OP_SUCCESSx bytes 0xbb..0xfe, 0xff,
# a truncated push, a push > 520 bytes) the session is refused before the commitment check is run,
# so the check never ends in success although BIP341's rule holds for the triple.
import sys, os, re
sys.path.insert(0, os.path.dirname(os.path.abspath(__file__)))
from bip341ref import *
tree = os.path.abspath(sys.argv[1] if len(sys.argv) > 1 else '.')
def triple(script, m):
    pk = xonly_from_seckey(99)
    nodes = [bytes([0x30 + i]) * 32 for i in range(m)]
    ctrl = b'\xc0' + pk + b''.join(nodes)
    q, par = make_output(pk, fold(ctrl, script)[-1])
    return bytes([0xc0 | par]) + pk + b''.join(nodes), q
def ended_in_success(script, m=2):
    ctrl, q = triple(script, m)
    assert bip341_ok(ctrl, script, q)               # independent BIP341 check: commitment is valid
    txin, tx = make_txs(q, [script, ctrl])
    rc, out, err = run_btcdeb(tree, tx, txin)
    ok = re.search(r'CheckTapTweak\(.*\) == success', err) is not None or rc == 0
    return ok, rc, err, ctrl, q
ok, rc, err, _, _ = ended_in_success(b'\x51')
if not ok: print("control case (script 51) failed; harness problem"); print(err); sys.exit(2)
bad = 0
for label, script in (("OP_SUCCESS187", b'\xbb'), ("OP_1 OP_SUCCESS254", b'\x51\xfe'), ("OP_1 <truncated PUSHDATA1>", b'\x51\x4c'), ("OP_1 0xff", b'\x51\xff')):
    ok, rc, err, ctrl, q = ended_in_success(script)
    if not ok:
        bad += 1
        print("leaf script %s (%s): BIP341 rule holds (control=%s program=%s) but the commitment check did not end in success: rc=%d, last message: %s"
              % (script.hex(), label, ctrl.hex(), q.hex(), rc, (err.strip().splitlines() or [''])[-1]))
if bad: print("VIOLATION for %d leaf scripts" % bad); sys.exit(1)
print("ok"); sys.exit(0)
