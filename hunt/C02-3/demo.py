#!/usr/bin/env python3
"""A valid 9-byte ECDSA signature (r, s < 10) in a segwit-v0 witness is turned into a different byte string before
OP_CHECKSIG sees it, and is rejected.   usage: demo.py [tree-dir]   (exit 1 = violation present, 0 = not present)"""
import os, sys, subprocess, random
sys.path.insert(0, os.path.dirname(os.path.abspath(__file__)))
from ref import *
tree = os.path.abspath(sys.argv[1] if len(sys.argv) > 1 else '.')

def btcdeb(tx, prev, flags=None):
    a = [os.path.join(tree, 'btcdeb'), '--tx=' + tx.ser().hex(), '--txin=' + prev.ser().hex()]
    if flags: a.append('--modify-flags=' + flags)
    p = subprocess.run(a, stdin=subprocess.DEVNULL, stdout=subprocess.PIPE, stderr=subprocess.PIPE, timeout=60)
    out = p.stdout.decode(errors='replace').strip().splitlines()
    err = [l[l.index('error: '):] for l in p.stderr.decode(errors='replace').splitlines() if 'error: ' in l]
    return p.returncode, (out[-1].strip() if out else ''), (err[-1] if err else ''), out

def recover(r, s, z):
    """public key Q for which (r, s) is a valid ECDSA signature of digest z:  Q = r^-1 (s*R - z*G)"""
    R = lift_x(r); assert R is not None
    Q = pmul(pow(r, N - 2, N), padd(pmul(s, R), pmul((N - z) % N, G)))
    assert ecdsa_verify(Q, z.to_bytes(32, 'big'), r, s)
    return pub_ser(Q)

rng = random.Random(9)
CHECKSIG = b'\xac'                     # the whole (witness / output) script: the key comes from the stack
fails = 0
for (r, s, ht) in ((1, 1, 0x01), (1, 2, 0x81), (3, 9, 0x03), (1, 1, 0x82)):
    sig = der(r, s) + bytes([ht])      # 30 06 02 01 0r 02 01 0s ht : strict DER, low S, defined hash type, 9 bytes
    # (a) P2WSH: witness = [sig, pubkey, witnessScript], BIP143 digest with scriptCode = witnessScript
    amount = 50000
    prev = Tx(2, [dict(txid=rng.randbytes(32), n=0, script=b'', seq=0xffffffff)], [(amount, b'\x00\x20' + sha256(CHECKSIG))], 0)
    tx = Tx(2, [dict(txid=prev.txid(), n=0, script=b'', seq=0xfffffffe, wit=[])], [(amount - 300, b'\x51')], 0)
    pk = recover(r, s, int.from_bytes(bip143_sighash(tx, 0, CHECKSIG, amount, ht), 'big'))
    tx.vin[0]['wit'] = [sig, pk, CHECKSIG]
    rc, top, err, out = btcdeb(tx, prev)
    if rc == 0 and top == '01': print('ok       P2WSH  sig %s -> final stack 01' % sig.hex())
    else:
        fails += 1
        seen = [l.split('|')[-1].strip() for l in out if '|' in l][-1:]   # bottom stack row = what btcdeb holds as the signature
        print('DIFFERS  P2WSH  sig %s valid for key %s (BIP143 digest), expected 01;' % (sig.hex(), pk.hex()))
        print('         btcdeb: exit %d, %s; signature item on btcdeb\'s stack: %s' % (rc, err, seen))
        print('         btcdeb --tx=%s --txin=%s' % (tx.ser().hex(), prev.ser().hex()))
    # (b) control: the same kind of signature in a legacy scriptSig (not re-parsed) is accepted
    prev = Tx(1, [dict(txid=rng.randbytes(32), n=0, script=b'', seq=0xffffffff)], [(amount, CHECKSIG)], 0)
    tx = Tx(1, [dict(txid=prev.txid(), n=0, script=b'', seq=0xfffffffe)], [(amount - 300, b'\x51')], 0)
    pk = recover(r, s, int.from_bytes(legacy_sighash(tx, 0, CHECKSIG, ht), 'big'))
    tx.vin[0]['script'] = push(sig) + push(pk)
    rc, top, err, out = btcdeb(tx, prev)
    print('%s legacy sig %s -> exit %d %s %s' % ('ok      ' if rc == 0 and top == '01' else 'DIFFERS ', sig.hex(), rc, top if rc == 0 else '', err))
    if not (rc == 0 and top == '01'): fails += 1
if fails:
    print('%d valid short signatures rejected' % fails); sys.exit(1)
print('no difference'); sys.exit(0)
