#!/usr/bin/env python3
import hashlib, os, pty, struct, subprocess, sys

TREE = os.path.abspath(sys.argv[1] if len(sys.argv) > 1 else '.')
BTCDEB = os.path.join(TREE, 'btcdeb')

def run(args):
    """Run btcdeb with a terminal on stdin (so the script comes from argv) and pipes on stdout/stderr
    (so it runs the script to the end and prints the final stack / the error)."""
    m, s = pty.openpty()
    try:
        p = subprocess.run([BTCDEB] + args, stdin=s, stdout=subprocess.PIPE, stderr=subprocess.PIPE, timeout=120)
    finally:
        os.close(m); os.close(s)
    return p.returncode, p.stdout.decode(errors='replace'), p.stderr.decode(errors='replace')

def push(b):
    n = len(b)
    if n < 76: return bytes([n]) + b
    if n < 256: return bytes([76, n]) + b
    return bytes([77]) + struct.pack('<H', n) + b

def sha256(b): return hashlib.sha256(b).digest()
def dsha(b): return sha256(sha256(b))
def varint(n):
    if n < 253: return bytes([n])
    if n < 65536: return b'\xfd' + struct.pack('<H', n)
    return b'\xfe' + struct.pack('<I', n)

def ser_tx(vin, vout, witness=None):
    r = struct.pack('<i', 2)
    if witness: r += b'\x00\x01'
    r += varint(len(vin))
    for h, n, ss, seq in vin: r += h + struct.pack('<I', n) + varint(len(ss)) + ss + struct.pack('<I', seq)
    r += varint(len(vout))
    for v, spk in vout: r += struct.pack('<q', v) + varint(len(spk)) + spk
    if witness:
        for st in witness:
            r += varint(len(st))
            for it in st: r += varint(len(it)) + it
    return r + struct.pack('<I', 0)

def make_pair(spk, scriptSig=b'', wstack=None):
    """(--tx, --txin) hex: txin has one output paying to spk, tx spends it with scriptSig / witness."""
    txin = ser_tx([(b'\x00' * 32, 0xffffffff, b'\x51', 0xffffffff)], [(100000, spk)])
    tx = ser_tx([(dsha(txin), 0, scriptSig, 0xffffffff)], [(99000, b'\x51')], witness=[wstack] if wstack else None)
    return ['--tx=' + tx.hex(), '--txin=' + txin.hex()]

def last_err(err):
    lines = [l for l in err.strip().splitlines() if l.strip()]
    return lines[-1] if lines else ''

# Consensus: VerifyScript runs the scriptSig and the scriptPubKey in separate EvalScript calls that share the
# main stack only; the alt stack is a local of EvalScript, i.e. it starts EMPTY in every phase.  The limit is
# stack.size() + altstack.size() <= 1000 within the running script.
# scriptSig = OP_1 OP_TOALTSTACK (x k) leaves an empty main stack (k items die with the scriptSig's alt stack);
# scriptPubKey = OP_1 x n then holds n items: n = 1000 succeeds, n = 1001 fails with SCRIPT_ERR_STACK_SIZE,
# whatever k was.  (SIGPUSHONLY is not among btcdeb's default flags, nor a consensus rule for non-P2SH outputs.)
ONE, TOALT = b'\x51', b'\x6b'
bad = []
for k in (0, 1, 5):
    for n in (999, 1000, 1001):
        want_ok = n <= 1000
        rc, out, err = run(make_pair(ONE * n, (ONE + TOALT) * k))
        got = 'success' if rc == 0 else 'failure (%s)' % last_err(err)
        print('scriptSig parks %d item(s) on its alt stack; scriptPubKey = OP_1 x %4d: expected %s, got %s' % (k, n, 'success' if want_ok else 'failure (Stack size limit exceeded)', got))
        if want_ok != (rc == 0) or (not want_ok and 'stack size' not in err.lower()):
            bad.append((k, n, got))
if bad:
    print('VIOLATION: alt-stack items of the scriptSig are counted against the scriptPubKey\'s 1000-item limit:', bad)
    sys.exit(1)
print('no violation')
sys.exit(0)
