#!/usr/bin/env python3
"""btcdeb: a numeric token longer than the stack limit overflows the stack through a VLA (SIGSEGV).
usage: demo.py [tree-dir] [--pty]   exit 1 = violation present, 0 = not present.
Part 1: the script on stdin. Part 2 (only with --pty, ~30 s): the same token as argument of the interactive `exec` command."""
import sys, os, subprocess, resource, pty, select, time, signal

args = [a for a in sys.argv[1:] if not a.startswith("--")]
tree = os.path.abspath(args[0] if args else ".")
btcdeb = os.path.join(tree, "btcdeb")
soft, _ = resource.getrlimit(resource.RLIMIT_STACK)
if soft == resource.RLIM_INFINITY or soft > 64 << 20:
    soft = 8 << 20
    resource.setrlimit(resource.RLIMIT_STACK, (soft, resource.getrlimit(resource.RLIMIT_STACK)[1]))
n = soft + (1 << 20)          # one token, 1 MB longer than the stack
bad = 0

# reference: python's int() takes the token without trouble; a debugger should answer "too large", not die
r = subprocess.run([btcdeb], input=b"1" * n + b"\n", stdout=subprocess.PIPE, stderr=subprocess.PIPE)
print("stdin script of %d digits: exit status %d; stderr tail: %r" % (n, r.returncode, r.stderr[-200:]))
if r.returncode < 0:
    print("VIOLATION: btcdeb was killed by signal %d instead of printing a result or a diagnostic" % -r.returncode)
    bad = 1
r = subprocess.run([btcdeb], input=b"1" * 100000 + b"\n", stdout=subprocess.PIPE, stderr=subprocess.PIPE)
print("control, 100000 digits: exit status %d; stderr tail: %r" % (r.returncode, r.stderr[-120:]))

if "--pty" in sys.argv:
    pid, fd = pty.fork()
    if pid == 0:
        w = os.path.join(os.path.dirname(os.path.abspath(__file__)), "work"); os.makedirs(w, exist_ok=True); os.chdir(w)
        try: os.unlink(".btcdeb_history")
        except OSError: pass
        os.environ["TERM"] = "dumb"
        os.execv(btcdeb, [btcdeb, "[OP_1]"])
    def drain(t):
        end = time.time() + t
        while time.time() < end:
            rr, _, _ = select.select([fd], [], [], 0.01)
            if rr:
                try:
                    if not os.read(fd, 1 << 16): return
                except OSError: return
    drain(1.0)
    data = b"exec " + b"1" * n + b"\n"
    i = 0
    try:
        while i < len(data):
            i += os.write(fd, data[i:i + 65536]); drain(0.001)
    except OSError:
        pass
    status = None
    end = time.time() + 180
    while time.time() < end:
        drain(0.2)
        p, st = os.waitpid(pid, os.WNOHANG)
        if p: status = st; break
        try: os.write(fd, b"\x04")
        except OSError: pass
    if status is None:
        os.kill(pid, signal.SIGKILL); os.waitpid(pid, 0); print("interactive exec: no exit (killed)")
    elif os.WIFSIGNALED(status):
        print("VIOLATION: interactive `exec <%d digits>`: btcdeb killed by signal %d" % (n, os.WTERMSIG(status))); bad = 1
    else:
        print("interactive exec: exit status", os.WEXITSTATUS(status))
sys.exit(bad)
