// replay for R01.5 / R09.3-F4: unbalanced IF opened in the scriptSig and closed by the scriptPubKey.
// build: g++ -std=c++17 -DHAVE_CONFIG_H -I/repo -I/repo/config -I/repo/secp256k1/include switch_balance.cpp \
//        /repo/btcdeb-instance.o /repo/libbitcoin_deb.a /repo/libbitcoin.a /repo/secp256k1/.libs/libsecp256k1.a -o switch_balance
#include <instance.h>
#include <script/script_error.h>
#include <cstdio>
int main() {
    btc_logf = btc_logf_dummy;
    Instance inst;
    CScript scriptSig = CScript() << OP_1 << OP_IF;
    CScript scriptPubKey = CScript() << OP_ENDIF << OP_1;
    inst.script = scriptSig;
    inst.successor_script = scriptPubKey;
    if (!inst.setup_environment(0)) { printf("setup failed\n"); return 2; }
    bool ok = ContinueScript(*inst.env);
    printf("session: %s (%s)\n", ok ? "SUCCESS" : "FAIL", ScriptErrorString(*inst.env->serror).c_str());
    // the tree's own batch validator on the same pair
    ScriptError err;
    BaseSignatureChecker chk;
    bool v = VerifyScript(scriptSig, scriptPubKey, nullptr, 0, chk, &err);
    printf("VerifyScript: %s (%s)\n", v ? "SUCCESS" : "FAIL", ScriptErrorString(err).c_str());
    return ok == v ? 0 : 1;
}
