// replay for R03.5: a segwit-v0 witness script of the shape HASH160 <20> EQUAL must not get a P2SH continuation.
#include <instance.h>
#include <script/script_error.h>
#include <cstdio>
int main() {
    btc_logf = btc_logf_dummy;
    Instance inst;
    std::vector<unsigned char> h(20, 0x11);
    inst.script = CScript() << OP_HASH160 << h << OP_EQUAL << OP_NOT;   // not the template: control
    inst.sigver = SigVersion::WITNESS_V0;
    Instance inst2;
    inst2.sigver = SigVersion::WITNESS_V0;
    inst2.script = CScript() << OP_HASH160 << h << OP_EQUAL;
    std::vector<unsigned char> item{0x6a};
    inst2.stack.push_back(item);
    if (!inst2.setup_environment(SCRIPT_VERIFY_P2SH)) { printf("setup failed\n"); return 2; }
    bool ok = ContinueScript(*inst2.env);
    printf("session: %s (%s), stack size %zu\n", ok ? "SUCCESS" : "FAIL", ScriptErrorString(*inst2.env->serror).c_str(), inst2.env->stack.size());
    std::vector<std::vector<unsigned char>> st{item};
    ScriptError err; BaseSignatureChecker chk; ScriptExecutionData ed;
    bool v = EvalScript(st, inst2.script, SCRIPT_VERIFY_P2SH, chk, SigVersion::WITNESS_V0, ed, &err);
    printf("EvalScript: %s (%s), stack size %zu\n", v ? "SUCCESS" : "FAIL", ScriptErrorString(err).c_str(), st.size());
    return (ok == v) ? 0 : 1;
}
