// replay for R02.1: BIP342 codeseparator_pos must be the index of the last executed OP_CODESEPARATOR (0-based opcode position).
#include <instance.h>
#include <cstdio>
int main() {
    btc_logf = btc_logf_dummy;
    Instance inst;
    inst.sigver = SigVersion::TAPSCRIPT;
    inst.script = CScript() << OP_1 << OP_CODESEPARATOR << OP_1 << OP_CODESEPARATOR;
    if (!inst.setup_environment(0)) return 2;
    std::vector<uint32_t> seen;
    while (!inst.env->done) {
        if (!StepScript(*inst.env)) break;
        seen.push_back(inst.env->execdata.m_codeseparator_pos);
    }
    printf("codeseparator_pos after each step:");
    for (auto v : seen) printf(" %u", v);
    printf("\n");
    // BIP342: after the separators at opcode positions 1 and 3 -> 1 then 3
    bool ok = seen.size() >= 4 && seen[1] == 1 && seen[3] == 3;
    // rewind over the last separator restores position 1
    inst.env->done = false;
    RewindScript(*inst.env);
    printf("after rewind: %u (opcode_pos %u)\n", inst.env->execdata.m_codeseparator_pos, inst.env->opcode_pos);
    ok = ok && inst.env->execdata.m_codeseparator_pos == 1 && inst.env->opcode_pos == 3;
    printf("%s\n", ok ? "OK" : "MISMATCH");
    return ok ? 0 : 1;
}
