"""G-STR: ordered, guarded sequences of stream operations (<<, >>, write, WriteCompactSize, Serialize) on one stream
object, enumerated per structured path of a function (if/else forks, loops collapsed to one starred element,
throw/return terminate the path). Used for writer<->reader agreement and digest-layout conformance."""
from . import astq, structure as S
from .facts import walk, children


def leftmost(n):
    """leftmost operand of a << / >> chain"""
    while n is not None and n.get("k") in ("opcall", "bin") and n.get("op") in ("<<", ">>"):
        n = n["args"][0] if n["k"] == "opcall" else n["lhs"]
    return n


def is_stream(n, stream_pred):
    return n is not None and stream_pred(n)


def flatten_chain(n):
    """((s << a) << b) -> (s, [(op,a),(op,b)])"""
    ops = []
    cur = n
    while cur is not None and cur.get("k") in ("opcall", "bin") and cur.get("op") in ("<<", ">>"):
        a = cur["args"] if cur["k"] == "opcall" else [cur["lhs"], cur["rhs"]]
        ops.append((cur["op"], a[1], cur))
        cur = a[0]
    ops.reverse()
    return cur, ops


def operand_key(e):
    """normalised text of a streamed operand"""
    x = e
    # strip wrappers that do not change the bytes: casts to same-size types are kept (they matter), Using<>/VARINT kept as text
    t = astq.estr(x)
    return t


class Ev:
    def __init__(self, op, key, node, extra=None):
        self.op = op
        self.key = key
        self.node = node
        self.extra = extra

    def __repr__(self):
        return "%s %s" % (self.op, self.key)

    def t(self):
        return (self.op, self.key)


def stmt_events(func, st, stream_pred, inline=None, depth=0):
    """stream events directly inside one expression statement (not descending into nested statements)"""
    out = []
    seen = set()
    for n in walk(st):
        if id(n) in seen:
            continue
        k = n.get("k")
        if k in ("opcall", "bin") and n.get("op") in ("<<", ">>"):
            base, ops = flatten_chain(n)
            if is_stream(base, stream_pred) or (base is not None and base.get("k") == "ctor" and any(is_stream(x, stream_pred) for x in walk(base))):
                for (op, operand, node) in ops:
                    seen.add(id(node))
                    out.append(Ev(op, operand_key(operand), node, operand))
                # operands may themselves contain nothing stream related
        elif k == "mcall" and n.get("n") in ("write", "read") and is_stream(n.get("obj"), stream_pred):
            out.append(Ev(n["n"], ", ".join(astq.estr(a) for a in n["args"]), n))
        elif k == "call" and n.get("n") in ("WriteCompactSize", "ReadCompactSize", "Serialize", "Unserialize", "ser_writedata8", "ser_writedata32", "ser_writedata64") \
                and n["args"] and is_stream(n["args"][0], stream_pred):
            out.append(Ev(n["n"], ", ".join(astq.estr(a) for a in n["args"][1:]), n))
        elif k in ("call", "mcall") and inline is not None and any(a is not None and is_stream(a, stream_pred) for a in n["args"]):
            sub = inline(n, depth)
            if sub is not None:
                out.append(Ev("call", n.get("callee") or "?", n, sub))
    return out


def paths(func, root, stream_pred, inline=None, limit=4096):
    """[(events tuple, guard tuple, terminated_by)] for every structured path through root"""
    results = []

    def go(stmts, i, acc, guards):
        # iterative over statement list with recursion on forks
        while i < len(stmts):
            st = stmts[i]
            if st is None:
                i += 1
                continue
            k = st.get("k")
            if k == "block":
                # inline the block
                rest = stmts[i + 1:]
                return go([c for c in st["ch"]] + rest, 0, acc, guards)
            if k == "if":
                rest = stmts[i + 1:]
                cond_ev = stmt_events(func, st["cond"], stream_pred, inline)
                ctext = astq.estr(st["cond"])
                go([st["then"]] + rest, 0, acc + cond_ev, guards + [ctext])
                if st.get("else") is not None:
                    go([st["else"]] + rest, 0, acc + cond_ev, guards + ["!" + ctext])
                else:
                    go(rest, 0, acc + cond_ev, guards + ["!" + ctext])
                return
            if k in ("for", "while", "forrange", "do"):
                body_ev = []
                for x in ([st.get("init"), st.get("cond"), st.get("inc"), st.get("range")]):
                    if x is not None:
                        body_ev += stmt_events(func, x, stream_pred, inline)
                bstm = st.get("body")
                inner = []
                sub = paths(func, bstm, stream_pred, inline, limit) if bstm is not None else []
                variants = sorted({tuple(e.t() for e in p[0]) for p in sub})
                loopkey = astq.estr(st.get("range")) if k == "forrange" else astq.estr(st.get("cond"))
                if any(variants) or body_ev:
                    acc = acc + [Ev("loop", loopkey, st, variants)]
                i += 1
                continue
            if k == "return":
                ev = stmt_events(func, st, stream_pred, inline)
                results.append((acc + ev, guards, "return"))
                return
            if k == "throw" or (k in ("call",) and st.get("noret")):
                results.append((acc, guards, "throw"))
                return
            if k == "switch":
                rest = stmts[i + 1:]
                for g in S.case_groups(st):
                    go(list(g.stmts) + rest, 0, acc, guards + ["%s in %s" % (astq.estr(st["cond"]), ",".join(g.short_names()))])
                return
            if k in ("break", "continue"):
                results.append((acc, guards, k))
                return
            if k == "try":
                rest = stmts[i + 1:]
                return go([st["body"]] + rest, 0, acc, guards)
            acc = acc + stmt_events(func, st, stream_pred, inline)
            i += 1
            if len(results) > limit:
                return
        results.append((acc, guards, "end"))
    go([root], 0, [], [])
    return results


def show(events):
    out = []
    for e in events:
        if e.op == "loop":
            out.append("loop[%s]{%s}" % (e.key, " | ".join(" ".join("%s %s" % t for t in v) for v in e.extra)))
        else:
            out.append("%s %s" % (e.op, e.key))
    return out
