"""Thorough tier: mutant self-test of the rules.

Each rule module lists single-edit mutants of /repo's *current* sources:
  * MUTANTS       - hand-written catalogue, anchored on a unique source fragment (find/replace, optionally regex);
  * AUTO_MUTANTS  - a function(ctx) that *enumerates* mutants from the fact base (one per rule instance: every limit
                    comparison, every stack guard, every gate label, every history operation ...), anchored on
                    file:line:col of the resolved AST node and verified against the source text at that position.
A mutant whose anchor is gone is recorded as skipped, never as a pass. Each edit is applied to a scratch copy under /tmp
(removed afterwards), the copy is re-extracted with the same flags (a mutant that does not parse is an error of the
catalogue), the property's rules are run on it and a rule instance with the expected key prefix must newly fail. An
undetected mutant means the checker is broken (exit 2). Nothing is executed; this tests the analysis, not btcdeb.
Mutants are processed by a small pool of worker processes, each with its own scratch copy.
"""
import importlib
import os
import re
import shutil
import subprocess
import tempfile
from concurrent.futures import ProcessPoolExecutor

from . import facts as F
from . import engines, report

WORKERS = 4


def _copy_tree(dst):
    subprocess.check_call(["rsync", "-a", "--exclude", ".git", "--exclude", "*.o", "--exclude", "*.a", "--exclude", "*.lo",
                           "--exclude", "*.la", "--exclude", ".libs", "--exclude", ".deps", "--exclude", "autom4te.cache",
                           "--exclude", "/btcdeb", "--exclude", "/btcc", "--exclude", "/tap", "--exclude", "/test-btcdeb",
                           "--exclude", "secp256k1/src", F.REPO + "/", dst + "/"])
    os.makedirs(os.path.join(dst, "secp256k1"), exist_ok=True)
    if not os.path.exists(os.path.join(dst, "secp256k1/include")):
        shutil.copytree(os.path.join(F.REPO, "secp256k1/include"), os.path.join(dst, "secp256k1/include"))


def _apply(m, orig):
    """-> new text or (None, why)"""
    if "edit" in m:
        line, col, old, new = m["edit"]
        lines = orig.split("\n")
        if line < 1 or line > len(lines):
            return None, "line %d out of range" % line
        ln = lines[line - 1]
        if ln[col - 1:col - 1 + len(old)] != old:
            # the node's column may point at the start of a larger expression: search the token on that line from col-1
            idx = ln.find(old, max(0, col - 1))
            if idx < 0 or ln.count(old) > 1 and m.get("strict_col"):
                return None, "text %r not at %d:%d" % (old, line, col)
            col = idx + 1
        lines[line - 1] = ln[:col - 1] + new + ln[col - 1 + len(old):]
        return "\n".join(lines), None
    head = ""
    if m.get("after"):
        # the anchor is looked for behind a (unique) marker, e.g. the signature of the function it belongs to
        if orig.count(m["after"]) != 1:
            return None, "marker %r matched %d times in %s" % (m["after"], orig.count(m["after"]), m["file"])
        cut = orig.index(m["after"])
        head, orig = orig[:cut], orig[cut:]
    tail = ""
    if m.get("before"):
        if orig.count(m["before"]) != 1:
            return None, "marker %r matched %d times in %s" % (m["before"], orig.count(m["before"]), m["file"])
        cut = orig.index(m["before"])
        orig, tail = orig[:cut], orig[cut:]
    if m.get("regex"):
        hits = len(re.findall(m["find"], orig, flags=re.S))
    else:
        hits = orig.count(m["find"])
    if hits != 1:
        return None, "anchor matched %d times in %s" % (hits, m["file"])
    new = re.sub(m["find"], m["replace"], orig, count=1, flags=re.S) if m.get("regex") else orig.replace(m["find"], m["replace"], 1)
    return head + new + tail, None


def _worker(args):
    pid, modname, muts, base_failed, seed = args
    mod = importlib.import_module(modname)
    results = []
    scratch = tempfile.mkdtemp(prefix="verif-scratch.%d." % os.getpid(), dir="/tmp")
    try:
        _copy_tree(scratch)
        for m in muts:
            path = os.path.join(scratch, m["file"])
            orig = open(os.path.join(F.REPO, m["file"])).read()
            new, why = _apply(m, orig)
            if new is None:
                results.append(dict(name=m["name"], status="skipped", why=why))
                continue
            with open(path, "w") as fh:
                fh.write(new)
            try:
                mpath, th, fresh = F.extract_all(scratch, use_cache=False)
                fb = F.Facts(mpath)
                prog = engines.Program(fb)
                mctx = report.Ctx(pid, "thorough", fb, prog, seed)
                note = None
                try:
                    mod.run(mctx)
                except F.AnalysisBroken as e:
                    note = "analysis-broken: %s" % e
                failed = {i["rule"] + ":" + i["key"] for i in mctx.instances if not i["ok"]}
                new_fail = sorted(failed - base_failed)
                hit = [k for k in new_fail if any(k.startswith(w) for w in m["expect"])]
                if hit:
                    results.append(dict(name=m["name"], status="killed", by=hit[:3]))
                elif note and m.get("broken_ok"):
                    results.append(dict(name=m["name"], status="killed", by=[note]))
                else:
                    results.append(dict(name=m["name"], status="SURVIVED", new_failures=new_fail[:5], note=note))
                shutil.rmtree(os.path.dirname(mpath), ignore_errors=True)
            except F.AnalysisBroken as e:
                results.append(dict(name=m["name"], status="error", why=str(e)[:300]))
            finally:
                with open(path, "w") as fh:
                    fh.write(orig)
    finally:
        shutil.rmtree(scratch, ignore_errors=True)
    return results


def run_mutants(pid, mod, ctx):
    muts = list(getattr(mod, "MUTANTS", []))
    auto = getattr(mod, "AUTO_MUTANTS", None)
    nauto = 0
    if auto is not None:
        am = auto(ctx)
        nauto = len(am)
        muts += am
    if not muts:
        ctx.extra["mutants"] = {"catalogue": 0}
        return
    base_failed = {i["rule"] + ":" + i["key"] for i in ctx.instances if not i["ok"]}
    chunks = [muts[i::WORKERS] for i in range(WORKERS)]
    chunks = [c for c in chunks if c]
    results = []
    with ProcessPoolExecutor(max_workers=len(chunks)) as ex:
        for r in ex.map(_worker, [(pid, mod.__name__, c, base_failed, ctx.seed) for c in chunks]):
            results.extend(r)
    order = {m["name"]: i for i, m in enumerate(muts)}
    results.sort(key=lambda r: order.get(r["name"], 0))
    ctx.extra["mutants"] = {"catalogue": len(muts), "hand_written": len(muts) - nauto, "enumerated_from_fact_base": nauto,
                            "killed": len([r for r in results if r["status"] == "killed"]),
                            "skipped": len([r for r in results if r["status"] == "skipped"]), "results": results}
    hand = {m["name"] for m in muts[:len(muts) - nauto]}
    stale = [r for r in results if r["status"] == "skipped" and r["name"] in hand]
    if stale:
        raise F.AnalysisBroken("mutant catalogue is stale (anchor gone, the tree changed): %s - refresh the catalogue" % ", ".join(r["name"] for r in stale))
    bad = [r for r in results if r["status"] in ("SURVIVED", "error")]
    if bad:
        raise F.AnalysisBroken("mutant self-test: %s" % "; ".join("%s %s %s" % (r["name"], r["status"], r.get("why") or r.get("new_failures")) for r in bad[:6]))
