"""Thorough tier: mutant self-test of the rules.

Each rule module lists single-edit mutants of /repo's *current* sources (anchored on a unique source fragment; a
mutant whose anchor is gone is recorded as skipped, never as a pass). The edit is applied to a scratch copy under
/tmp (removed afterwards), the copy is re-extracted with the same flags (a mutant that does not parse is an error
of the catalogue), the property's rules are run on it and the named rule instance must be reported. An undetected
mutant means the checker is broken (exit 2). Nothing is executed; this tests the analysis, not btcdeb.
"""
import os
import re
import shutil
import subprocess
import tempfile

from . import facts as F
from . import engines, report


def _copy_tree(dst):
    subprocess.check_call(["rsync", "-a", "--exclude", ".git", "--exclude", "*.o", "--exclude", "*.a", "--exclude", "*.lo",
                           "--exclude", "*.la", "--exclude", ".libs", "--exclude", ".deps", "--exclude", "autom4te.cache",
                           "--exclude", "/btcdeb", "--exclude", "/btcc", "--exclude", "/tap", "--exclude", "/test-btcdeb",
                           "--exclude", "secp256k1/src", F.REPO + "/", dst + "/"])
    # headers of secp256k1 are needed by includes
    os.makedirs(os.path.join(dst, "secp256k1"), exist_ok=True)
    if not os.path.exists(os.path.join(dst, "secp256k1/include")):
        shutil.copytree(os.path.join(F.REPO, "secp256k1/include"), os.path.join(dst, "secp256k1/include"))


def run_mutants(pid, mod, ctx):
    muts = getattr(mod, "MUTANTS", [])
    results = []
    if not muts:
        ctx.extra["mutants"] = {"catalogue": 0}
        return
    scratch = tempfile.mkdtemp(prefix="verif-scratch.%d." % os.getpid(), dir="/tmp")
    try:
        _copy_tree(scratch)
        for m in muts:
            path = os.path.join(scratch, m["file"])
            orig = open(os.path.join(F.REPO, m["file"])).read()
            if m.get("regex"):
                hits = len(re.findall(m["find"], orig, flags=re.S))
            else:
                hits = orig.count(m["find"])
            if hits != 1:
                results.append(dict(name=m["name"], status="skipped", why="anchor matched %d times in %s" % (hits, m["file"])))
                continue
            new = re.sub(m["find"], m["replace"], orig, count=1, flags=re.S) if m.get("regex") else orig.replace(m["find"], m["replace"], 1)
            with open(path, "w") as fh:
                fh.write(new)
            try:
                mpath, th, fresh = F.extract_all(scratch, use_cache=False)
                fb = F.Facts(mpath)
                prog = engines.Program(fb)
                mctx = report.Ctx(pid, "thorough", fb, prog, ctx.seed)
                try:
                    mod.run(mctx)
                    failed = {i["rule"] + ":" + i["key"] for i in mctx.instances if not i["ok"]}
                    status_extra = None
                except F.AnalysisBroken as e:
                    failed = set()
                    status_extra = "analysis-broken: %s" % e
                base_failed = {i["rule"] + ":" + i["key"] for i in ctx.instances if not i["ok"]}
                new_fail = sorted(failed - base_failed)
                want = m["expect"]
                hit = [k for k in new_fail if any(k.startswith(w) for w in want)]
                if hit:
                    results.append(dict(name=m["name"], status="killed", by=hit[:3]))
                elif status_extra and m.get("broken_ok"):
                    results.append(dict(name=m["name"], status="killed", by=[status_extra]))
                else:
                    results.append(dict(name=m["name"], status="SURVIVED", new_failures=new_fail[:5], note=status_extra))
                shutil.rmtree(os.path.dirname(mpath), ignore_errors=True)
            except F.AnalysisBroken as e:
                results.append(dict(name=m["name"], status="error", why=str(e)[:300]))
            finally:
                with open(path, "w") as fh:
                    fh.write(orig)
    finally:
        shutil.rmtree(scratch, ignore_errors=True)
    ctx.extra["mutants"] = {"catalogue": len(muts), "killed": len([r for r in results if r["status"] == "killed"]),
                            "skipped": len([r for r in results if r["status"] == "skipped"]), "results": results}
    bad = [r for r in results if r["status"] in ("SURVIVED", "error")]
    if bad:
        raise F.AnalysisBroken("mutant self-test: %s" % "; ".join("%s %s %s" % (r["name"], r["status"], r.get("why") or r.get("new_failures")) for r in bad))
