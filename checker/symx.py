"""G-SYM: path-sensitive value numbering over the extractor's AST (abstract evaluation in the free term algebra).

Nothing is executed and no solver is involved: every expression is mapped to a Herbrand term over opaque atoms
(parameters, fields, globals), every call that is not inlined is an uninterpreted function symbol, every mutation of an
object `o.m(a)` rewrites o's term to mut:m(o, a).  Conditions whose truth is not determined by constants, by equal terms
or by the caller-supplied `assume` callback fork the path (both outcomes are enumerated, by re-evaluation with a decision
prefix).  Calls to repository functions with a body are inlined up to a depth bound; reference parameters alias the
caller's storage cell.  Loops are not unrolled: a loop whose condition is not constant-false is summarised as one
`loop` event holding the terms of one symbolic iteration (index loops of the canonical shape
`for (i = 0; i < V.size(); ++i) ... V[i]` are normalised to the element form elem(V), as are range-for loops).

The result of `explore` is the list of path outcomes (status, return term, final store, ordered events, decided
conditions).  Rules compare those terms with the terms the specification prescribes; two source forms that compute the
same term (helper extracted or inlined, if/else vs ?:, early return vs else, temporaries, renamed locals) are
indistinguishable here by construction.
"""
import os
from . import astq
from .facts import walk

MAX_PATHS = 4096
MAX_DEPTH = 6


class NeedDecision(Exception):
    pass


class Unsupported(Exception):
    pass


def C(v):
    return ("c", int(v))


def ctype(n):
    """canonical type of an expression node, without cv-qualifiers and references"""
    while n is not None and n.get("k") in ("defarg", "definit", "stdinit", "opaque") and n.get("e") is not None:
        n = n["e"]
    if n is None:
        return "?"
    t = n.get("ct") or n.get("ty") or "?"
    t = t.replace("const ", "").replace(" const", "").replace("&", "").strip()
    return t


def lin_parts(t):
    if is_const(t):
        return t[1], {}
    if isinstance(t, tuple) and t and t[0] == "lin":
        return t[1], dict(t[2])
    return 0, {t: 1}


def mk_lin(c, d):
    d = {k: v for k, v in d.items() if v != 0}
    if not d:
        return C(c)
    if c == 0 and len(d) == 1 and list(d.values())[0] == 1:
        return list(d.keys())[0]
    return ("lin", c, tuple(sorted(d.items(), key=repr)))


def lin_add(a, b, sign=1):
    """a + sign*b in linear normal form (+, - and multiplication by constants are associative-commutative ring operations
    in the machine's modular arithmetic, so regrouping them does not change the value)"""
    ca, da = lin_parts(a)
    cb, db = lin_parts(b)
    d = dict(da)
    for k, v in db.items():
        d[k] = d.get(k, 0) + sign * v
    return mk_lin(ca + sign * cb, d)


def lin_scale(a, k):
    ca, da = lin_parts(a)
    return mk_lin(ca * k, {t: v * k for t, v in da.items()})


def stream(base, *items):
    """term of base << items...; each item is (term, canonical type)"""
    t = base
    for (x, ty) in items:
        t = ("ap", "mut:<<", t, x, ("s", ty))
    return t


NULL = ("null",)


def is_const(t):
    return isinstance(t, tuple) and t and t[0] == "c"


def show(t, depth=0):
    if not isinstance(t, tuple):
        return str(t)
    if depth > 12:
        return "..."
    h = t[0]
    d = depth + 1
    if h == "c":
        return str(t[1])
    if h == "a":
        return t[1]
    if h == "s":
        return '"%s"' % t[1]
    if h == "null":
        return "nullptr"
    if h == "f":
        return "%s.%s" % (show(t[1], d), t[2])
    if h == "lin":
        parts = [("%s" % show(k, d)) if v == 1 else "%d*%s" % (v, show(k, d)) for (k, v) in t[2]]
        if t[1]:
            parts.append(str(t[1]))
        return "(" + " + ".join(parts) + ")"
    if h == "elem":
        return "each(%s)" % show(t[1], d)
    if h == "prev":
        return "prev%s" % (t[1] if len(t) > 1 and t[1] else "")
    if h == "ap":
        return "%s(%s)" % (t[1], ", ".join(show(x, d) for x in t[2:]))
    if h in ("eq", "not"):
        return "%s(%s)" % (h, ", ".join(show(x, d) for x in t[1:]))
    return "%s(%s)" % (h, ", ".join(show(x, d) for x in t[1:]))


def subterms(t):
    st = [t]
    while st:
        x = st.pop()
        yield x
        if isinstance(x, tuple):
            st.extend(y for y in x[1:] if isinstance(y, tuple))


def contains(t, sub):
    return any(x == sub for x in subterms(t))


def unmut(t):
    """mut:op(mut:op(base, a), b) -> (base, [(op, args...), ...]) in application order"""
    ops = []
    while isinstance(t, tuple) and t[0] == "ap" and t[1].startswith("mut:"):
        ops.append((t[1][4:],) + tuple(t[3:]))
        t = t[2]
    ops.reverse()
    return t, ops


class Outcome:
    def __init__(self, run):
        self.status = run.status or "end"
        self.ret = run.ret
        self.store = dict(run.store)
        self.heap = dict(run.heap)
        self.events = list(run.events)
        self.conds = list(run.conds)
        self.notes = list(run.notes)

    def field(self, base, name):
        return self.heap.get((base, name), ("f", base, name))


class Ev:
    def __init__(self, kind, name, terms, node, func, guard_depth=0):
        self.kind = kind          # "call" | "mcall" | "op" | "loop"
        self.name = name
        self.terms = terms
        self.node = node
        self.func = func
        self.nconds = 0

    def __repr__(self):
        return "%s %s(%s)" % (self.kind, self.name, ", ".join(show(t) for t in self.terms))


class Frame:
    def __init__(self, func, fid, this):
        self.func = func
        self.fid = fid
        self.this = this
        self.vars = {}      # decl key -> cell id


class Run:
    def __init__(self, X, decisions):
        self.X = X
        self.dec = list(decisions)
        self.di = 0
        self.store = {}      # cell -> term
        self.heap = {}       # (base term, field) -> term
        self.events = []
        self.conds = []
        self.notes = []
        self.status = None
        self.ret = None
        self.ncell = 0
        self.zeros = set()
        self.known = {}
        self.cellinit = {}
        self.refobj = {}
        self.nframe = 0
        self.depth = 0
        self.steps = 0

    # ---------------------------------------------------------------- decisions
    def emit(self, ev):
        ev.nconds = len(self.conds)      # the conditions decided before the event (a later test says nothing about it)
        self.events.append(ev)

    def decide(self, term, node=None):
        for (t, v) in self.conds:
            if t == term:
                return v
        v = self.X.assume(term, self.conds) if self.X.assume else None
        if v is None:
            if self.di < len(self.dec):
                v = self.dec[self.di]
                self.di += 1
            else:
                raise NeedDecision()
        self.conds.append((term, bool(v)))
        if not v:
            self.zeros.add(term)      # decided false: the term is 0 from here on
        elif isinstance(term, tuple) and term[0] == "eq" and len(term) == 3:
            # decided equal to a constant: later comparisons of that term fold
            if is_const(term[1]) and not is_const(term[2]):
                self.known[term[2]] = term[1]
            elif is_const(term[2]) and not is_const(term[1]):
                self.known[term[1]] = term[2]
        return bool(v)

    def truth(self, t, node=None):
        if not isinstance(t, tuple):
            return bool(t)
        h = t[0]
        if h == "c":
            return t[1] != 0
        if h == "null":
            return False
        if h == "s":
            return True
        if h == "not":
            return not self.truth(t[1], node)
        if h == "ap" and t[1] == "bool" and len(t) == 3:
            return self.truth(t[2], node)
        if h == "eq":
            if t[1] == t[2]:
                return True
            if is_const(t[1]) and is_const(t[2]):
                return False
            # x == 0 is decided through the truth value of x, so that `if (x)`, `x != 0` and `!x` share one decision
            if t[1] == C(0) and not is_const(t[2]):
                return not self.truth(t[2], node)
            if t[2] == C(0) and not is_const(t[1]):
                return not self.truth(t[1], node)
            d = self.X.distinct
            if t[1] in d and t[2] in d:
                return False
        return self.decide(t, node)

    # ---------------------------------------------------------------- cells
    def new_cell(self, val, loc=None):
        self.ncell += 1
        c = ("cell", self.ncell)
        self.store[c] = val
        if loc is not None:
            self.cellinit[c] = loc
        return c

    def locterm(self, n, fr):
        """where a stream read `s >> X` stores: the access path of X with parameters bound to their initial atoms (the current
        VALUE of X is irrelevant for a location)"""
        if n is None:
            return ("a", "?")
        k = n.get("k")
        if k == "ref" and n.get("dk") in ("local", "parm"):
            cell = self.lvalue(n, fr)
            loc = self.cellinit.get(cell) if cell[0] == "cell" else None
            return loc if loc is not None else ("var", ctype(n))
        if k == "mem":
            b = n.get("base")
            return ("f", fr.this if (b is None or b.get("k") == "this") else self.locterm(b, fr), n["n"])
        if k in ("cast", "defarg", "definit", "stdinit", "opaque"):
            return self.locterm(n.get("e"), fr)
        if (k == "opcall" and n.get("op") == "[]" and len(n["args"]) == 2) or k == "index":
            base = n["args"][0] if k == "opcall" else n["base"]
            idx = n["args"][1] if k == "opcall" else n["idx"]
            it = self.ev(idx, fr)
            if isinstance(it, tuple) and it and it[0] == "idx":
                return ("elem", self.locterm(base, fr))
            return ("ap", "[]", self.locterm(base, fr), it)
        return self.ev(n, fr)

    # lvalues: ("cell", n) | ("hp", base, field) | ("tmp", term)
    def load(self, lv):
        if lv[0] == "cell":
            return self.store[lv]
        if lv[0] == "hp":
            return self.heap.get((lv[1], lv[2]), ("f", lv[1], lv[2]))
        return lv[1]

    def save(self, lv, val):
        if lv[0] == "cell":
            self.store[lv] = val
        elif lv[0] == "hp":
            self.heap[(lv[1], lv[2])] = val

    # ---------------------------------------------------------------- expressions
    def lvalue(self, n, fr):
        k = n.get("k")
        if k == "ref":
            dk = n.get("dk")
            if dk in ("local", "parm"):
                key = n.get("d") or n["n"]
                if key not in fr.vars:
                    fr.vars[key] = self.new_cell(("a", n["n"]))
                return fr.vars[key]
            if dk == "global":
                key = "::" + n["n"]
                if key not in self.X.globals:
                    self.X.globals[key] = None
                cell = ("hp", ("a", "::"), n["n"])
                if (cell[1], cell[2]) not in self.heap:
                    self.heap[(cell[1], cell[2])] = ("a", n["n"])
                return cell
            return ("tmp", self.ev(n, fr))
        if k == "mem":
            b = n.get("base")
            if b is None:
                base = fr.this
            elif n.get("arrow"):
                base = self.ev(b, fr)
            else:
                blv = self.lvalue(b, fr)
                if blv[0] == "tmp":
                    base = blv[1]
                elif blv[0] == "cell":
                    # a field of an object held by value (or bound by reference): keyed on the cell; reads of a field never
                    # written are f(term of the object, field)
                    cur = self.store[blv]
                    if blv in self.refobj and self.refobj[blv] == cur:
                        base = cur
                    elif isinstance(cur, tuple) and cur[0] == "ap" and cur[1].startswith("obj:") and len(cur) == 3:
                        base = cur[2]
                    else:
                        base = ("obj", blv)
                        if (base, n["n"]) not in self.heap:
                            return ("hpv", blv, n["n"], cur)
                else:
                    base = self._load(blv)
            return ("hp", base, n["n"])
        if k in ("cast", "defarg", "definit", "stdinit", "opaque"):
            return self.lvalue(n["e"], fr)
        if k == "un" and n["op"] == "*":
            t = self.ev(n["e"], fr)
            if isinstance(t, tuple) and t[0] == "addr":
                return t[1]
            return ("hp", t, "*")
        if k == "ctor" and n.get("copy") and len(n["args"]) == 1:
            return self.lvalue(n["args"][0], fr)
        if k == "opcall" and n.get("op") in ("<<", ">>") and n.get("mrec") and len(n["args"]) == 2:
            # a stream operator returns its left operand by reference
            self._slv = None
            self.ev(n, fr)
            if self._slv is not None:
                return self._slv
        if k in ("opcall", "index") and (n.get("op") == "[]" or k == "index"):
            base = n["args"][0] if k == "opcall" else n["base"]
            idx = n["args"][1] if k == "opcall" else n["idx"]
            bt = self.ev(base, fr)
            it = self.ev(idx, fr)
            if k == "index" and not (isinstance(it, tuple) and it and it[0] == "idx"):
                return ("hp", lin_add(bt, it), "*")     # built-in subscript: p[k] is *(p + k)
            return ("tmp", self.X.index_term(bt, it))
        return ("tmp", self.ev(n, fr))

    def _load(self, lv):
        v = ("f", lv[3], lv[2]) if lv[0] == "hpv" else self.load(lv)
        if v in self.zeros:
            return C(0)
        return v

    def _save(self, lv, val):
        if lv[0] == "hpv":
            self.heap[(("obj", lv[1]), lv[2])] = val
            return
        self.save(lv, val)

    def ev(self, n, fr):
        if n is None:
            return ("a", "?")
        self.steps += 1
        if self.steps > 200000:
            raise Unsupported("step bound")
        k = n.get("k")
        if k in ("int", "char"):
            return C(n.get("v", 0))
        if k == "bool":
            return C(1 if n["v"] else 0)
        if k == "null":
            return NULL
        if k == "str":
            return ("s", n["s"])
        if k == "this":
            return fr.this
        if "cv" in n and k not in ("assign", "cassign", "opcall"):
            return C(n["cv"])      # folded by the compiler's constant evaluator (constexpr calls included)
        if k == "ref":
            dk = n.get("dk")
            if dk == "enumc":
                return C(n.get("ev", 0))
            if dk == "func":
                return ("fn", n.get("fid") or n["n"])
            return self._load(self.lvalue(n, fr))
        if k == "mem":
            return self._load(self.lvalue(n, fr))
        if k in ("cast", "defarg", "definit", "stdinit", "opaque"):
            t = self.ev(n.get("e"), fr)
            ty = n.get("ty") or ""
            if k == "cast" and is_const(t):
                if ty in ("uint8_t", "unsigned char"):
                    return C(t[1] & 0xff)
                if ty == "bool":
                    return C(1 if t[1] else 0)
            if k == "cast" and ty == "bool" and not is_const(t):
                return ("ap", "bool", t)
            return t
        if k == "un":
            op = n["op"]
            if op == "&":
                lv = self.lvalue(n["e"], fr)
                if lv[0] == "tmp":
                    return ("ap", "addr", lv[1])
                return ("addr", lv)
            if op == "*":
                return self._load(self.lvalue(n, fr))
            if op in ("++", "--"):
                lv = self.lvalue(n["e"], fr)
                old = self._load(lv)
                new = lin_add(old, C(1 if op == "++" else -1))
                self._save(lv, new)
                return old if n.get("post") else new
            t = self.ev(n["e"], fr)
            if op == "!":
                if is_const(t):
                    return C(0 if t[1] else 1)
                if isinstance(t, tuple) and t[0] == "not":
                    return ("ap", "bool", t[1])
                return ("not", t)
            if is_const(t):
                if op == "-":
                    return C(-t[1])
                if op == "~":
                    return C(~t[1])
                if op == "+":
                    return t
            return ("ap", "un" + op, t)
        if k == "bin":
            op = n["op"]
            if op == "&&":
                a = self.ev(n["lhs"], fr)
                if not self.truth(a, n["lhs"]):
                    return C(0)
                b = self.ev(n["rhs"], fr)
                return C(1 if self.truth(b, n["rhs"]) else 0)
            if op == "||":
                a = self.ev(n["lhs"], fr)
                if self.truth(a, n["lhs"]):
                    return C(1)
                b = self.ev(n["rhs"], fr)
                return C(1 if self.truth(b, n["rhs"]) else 0)
            if op == ",":
                self.ev(n["lhs"], fr)
                return self.ev(n["rhs"], fr)
            a = self.ev(n["lhs"], fr)
            b = self.ev(n["rhs"], fr)
            return self.binop(op, a, b)
        if k == "cond":
            c = self.ev(n["cond"], fr)
            return self.ev(n["then"] if self.truth(c, n["cond"]) else n["else"], fr)
        if k == "assign":
            v = self.ev(n["rhs"], fr)
            lv = self.lvalue(n["lhs"], fr)
            if lv[0] == "tmp":
                self.element_write(n["lhs"], v, fr)
            self._save(lv, v)
            return v
        if k == "cassign":
            lv = self.lvalue(n["lhs"], fr)
            v = self.binop(n["op"][:-1], self._load(lv), self.ev(n["rhs"], fr))
            if lv[0] == "tmp":
                self.element_write(n["lhs"], v, fr)
            self._save(lv, v)
            return v
        if k == "index":
            bt, it_ = self.ev(n["base"], fr), self.ev(n["idx"], fr)
            if isinstance(it_, tuple) and it_ and it_[0] == "idx":
                return self.X.index_term(bt, it_)
            return ("f", lin_add(bt, it_), "*")        # built-in subscript: p[k] is *(p + k)
        if k == "initlist":
            return ("ap", "{}",) + tuple(self.ev(c, fr) for c in n["ch"])
        if k == "sizeof":
            return ("ap", "sizeof", ("s", n.get("ty") or astq.estr(n.get("e"))))
        if k == "zeroinit":
            return C(0)
        if k == "lambda":
            return ("a", "lambda@%s" % n.get("l"))
        if k == "predef":
            return ("s", "__func__")
        if k == "new":
            ini = n.get("init")
            if ini is not None and ini.get("k") == "ctor":
                return ("ap", "new:" + (n.get("ty") or ""),) + tuple(self.ev(a, fr) for a in ini.get("args", []) if not (a is not None and a.get("k") == "defarg"))
            return ("ap", "new", ("s", n.get("ty") or ""))
        if k == "throw":
            self.status = "throw"
            return ("a", "throw")
        if k == "ctor":
            return self.ctor(n, fr)
        if k == "call":
            return self.call(n, fr)
        if k == "mcall":
            return self.mcall(n, fr)
        if k == "opcall":
            return self.opcall(n, fr)
        if k == "delete":
            self.ev(n["e"], fr)
            return C(0)
        raise Unsupported("expression kind %s at %s:%s" % (k, fr.func.file, n.get("l")))

    def binop(self, op, a, b):
        if op in ("==", "!=", "<", ">", "<=", ">="):
            a = self.known.get(a, a)
            b = self.known.get(b, b)
        if is_const(a) and is_const(b):
            x, y = a[1], b[1]
            try:
                r = {"+": x + y, "-": x - y, "*": x * y, "&": x & y, "|": x | y, "^": x ^ y, "<<": x << y if 0 <= y < 256 else 0,
                     ">>": x >> y if 0 <= y < 256 else 0, "==": int(x == y), "!=": int(x != y), "<": int(x < y), "<=": int(x <= y),
                     ">": int(x > y), ">=": int(x >= y)}.get(op)
                if r is None and op == "/" and y:
                    r = int(x / y)
                if r is None and op == "%" and y:
                    r = x - y * int(x / y)
                if r is not None:
                    return C(r)
            except Exception:
                pass
        if op == "+":
            return lin_add(a, b)
        if op == "-":
            return lin_add(a, b, -1)
        if op == "*" and (is_const(a) or is_const(b)):
            return lin_scale(b, a[1]) if is_const(a) else lin_scale(a, b[1])
        if op == "==":
            if a == b:
                return C(1)
            return ("eq",) + tuple(sorted((a, b), key=repr))
        if op == "!=":
            if a == b:
                return C(0)
            return ("not", ("eq",) + tuple(sorted((a, b), key=repr)))
        if op == ">":
            return ("ap", "<", b, a)
        if op == ">=":
            return ("not", ("ap", "<", a, b))
        if op == "<=":
            return ("not", ("ap", "<", b, a))
        if op == "&" and (is_const(a) or is_const(b)):
            # masks: keep the constant second for a canonical form
            if is_const(a):
                a, b = b, a
            if b[1] == 0:
                return C(0)
        return ("ap", op, a, b)

    # ---------------------------------------------------------------- calls
    def args_terms(self, args, fr):
        return [self.ev(a, fr) for a in args]

    def ctor(self, n, fr):
        args = [a for a in n.get("args", []) if not (a is not None and a.get("k") == "defarg")]
        if len(args) == 1 and (n.get("copy") or self.X.transparent_ctor(n)):
            return self.ev(args[0], fr)
        ts = self.args_terms(args, fr)
        fn = self.X.callee(n)
        if fn is not None and self.X.may_inline(fn, n) and self.depth < MAX_DEPTH:
            self.nobj = getattr(self, "nobj", 0) + 1
            obj = ("a", "obj#%d" % self.nobj)
            self.inline(fn, n, args, ts, fr, this=obj)
            return ("ap", "obj:" + (n.get("ct") or n.get("ty") or "?"), obj)
        if not ts:
            return ("ap", "new:" + (n.get("ct") or n.get("ty") or "?"))
        return ("ap", "ctor:" + (n.get("ct") or n.get("ty") or "?"),) + tuple(ts)

    def havoc_outargs(self, n, args, ts, fr, name):
        pk = n.get("pk") or ""
        for i, a in enumerate(args):
            if a is None:
                continue
            kind = pk[i] if i < len(pk) else "."
            # 'r' = non-const reference, 'p' = pointer to non-const : may be written by the callee
            if kind == "r":
                lv = self.lvalue(a, fr)
                if lv[0] != "tmp":
                    self._save(lv, ("ap", "out:%s#%d" % (name, i),) + tuple(ts))
            elif kind == "p" and isinstance(ts[i], tuple) and ts[i][0] == "addr":
                self._save(ts[i][1], ("ap", "out:%s#%d" % (name, i),) + tuple(t for j, t in enumerate(ts) if j != i))

    def call(self, n, fr):
        args = n.get("args", [])
        name = n.get("n") or n.get("callee") or "?"
        if "<" in (n.get("callee") or ""):
            name = n["callee"]      # members of class templates: the instantiation is part of the function symbol
        ts = self.args_terms(args, fr)
        if n.get("noret"):
            self.emit(Ev("call", name, ts, n, fr.func))
            self.status = "abort"
            return ("a", "noreturn")
        if name in ("move", "forward", "as_const") and len(ts) == 1 and (n.get("callee") or "").startswith("std::"):
            return ts[0]
        fn = self.X.callee(n)
        if fn is not None and self.X.may_inline(fn, n) and self.depth < MAX_DEPTH:
            return self.inline(fn, n, args, ts, fr, this=None)
        self.emit(Ev("call", name, ts, n, fr.func))
        if name in self.X.stream_calls and len(args) >= 2:
            # Serialize(s, x) is s << x; WriteCompactSize(s, n) is a stream mutation of its own kind
            lv = self.lvalue(args[0], fr)
            op = "<<" if name == "Serialize" else name
            new = ("ap", "mut:" + op, ts[0], ts[1], ("s", ctype(args[1])))
            if lv[0] != "tmp":
                self._save(lv, new)
            return new
        if name in ("__builtin_mul_overflow", "__builtin_add_overflow", "__builtin_sub_overflow") and len(args) == 3:
            # checked arithmetic: *res = a op b; the call's value says whether that overflowed
            val = self.binop({"mul": "*", "add": "+", "sub": "-"}[name.split("_")[3]], ts[0], ts[1])
            tgt = args[2]
            while tgt is not None and tgt.get("k") in ("cast", "paren"):
                tgt = tgt["e"]
            if tgt is not None and tgt.get("k") == "un" and tgt.get("op") == "&":
                lv = self.lvalue(tgt["e"], fr)
                if lv[0] != "tmp":
                    self._save(lv, val)
            return ("ap", name, ts[0], ts[1])
        self.havoc_outargs(n, args, ts, fr, name)
        return ("ap", name,) + tuple(ts)

    def obj_of(self, n, fr):
        """-> (lvalue or None, term) of the implicit object of a member call"""
        o = n.get("obj")
        if o is None:
            return None, fr.this
        if n.get("objptr"):
            return None, self.ev(o, fr)
        lv = self.lvalue(o, fr)
        return (lv if lv[0] != "tmp" else None), self._load(lv)

    def mcall(self, n, fr):
        args = n.get("args", [])
        name = n.get("n") or "?"
        lv, ot = self.obj_of(n, fr)
        ts = self.args_terms(args, fr)
        fn = self.X.callee(n)
        if fn is not None and not n.get("virt") and self.X.may_inline(fn, n) and self.depth < MAX_DEPTH:
            this = ot if (n.get("objptr") or lv is None) else (("obj", lv) if lv[0] == "cell" else ot)
            if isinstance(ot, tuple) and ot[0] == "ap" and ot[1].startswith("obj:") and len(ot) == 3:
                this = ot[2]
            return self.inline(fn, n, args, ts, fr, this=this)
        self.emit(Ev("mcall", name, [ot] + ts, n, fr.func))
        self.havoc_outargs(n, args, ts, fr, name)
        if n.get("mconst") is False and lv is not None and not self.X.pure_method(n):
            self._save(lv, ("ap", "mut:" + name, ot) + tuple(ts))
        return ("ap", "m:" + name, ot) + tuple(ts)

    def opcall(self, n, fr):
        op = n["op"]
        args = n["args"]
        if op == "=" and len(args) == 2:
            v = self.ev(args[1], fr)
            lv = self.lvalue(args[0], fr)
            if lv[0] == "tmp":
                self.element_write(args[0], v, fr)
            self._save(lv, v)
            return v
        if op == "[]" and len(args) == 2:
            return self.X.index_term(self.ev(args[0], fr), self.ev(args[1], fr))
        if op in ("<<", ">>") and len(args) == 2 and n.get("mrec") and not (n.get("cid") or "").startswith("_ZNK"):
            # non-const member operator<< / >> : a stream operation mutating its left operand (a const one is a shift: a value)
            lv = self.lvalue(args[0], fr)
            base = self._load(lv)
            t = self.ev(args[1], fr) if op == "<<" else self.locterm(args[1], fr)
            self.emit(Ev("op", op, [base, t], n, fr.func))
            new = ("ap", "mut:" + op, base, t, ("s", ctype(args[1])))
            self._slv = lv
            if lv[0] != "tmp":
                self._save(lv, new)
                if op == ">>":
                    # what was read is an unknown: locals get a fresh read(...) term (they steer control flow); fields keep
                    # their symbolic value
                    olv = self.lvalue(args[1], fr)
                    if olv[0] == "cell":
                        self._save(olv, ("ap", "read", base))
            # the operator returns its left operand: for a temporary (`(HashWriter{} << x).GetSHA256()`) that is the mutated value
            self._slv = lv if lv[0] != "tmp" else ("tmp", new)
            return new
        if op in ("++", "--") and len(args) >= 1:
            lv = self.lvalue(args[0], fr)
            old = self._load(lv)
            new = lin_add(old, C(1 if op == "++" else -1))      # iterators advance like integers: ++ is + 1
            self._save(lv, new)
            return old if len(args) == 2 else new
        if op == "->" and len(args) == 1:
            return self.ev(args[0], fr)
        if op == "*" and len(args) == 1:
            return ("f", self.ev(args[0], fr), "*")
        if op == "!" and len(args) == 1:
            t = self.ev(args[0], fr)
            return ("not", t)
        ts = self.args_terms(args, fr)
        if op in ("==", "!=", "<", ">", "<=", ">=", "+", "-", "&", "|", "^", "*", "/", "%") and len(ts) == 2:
            return self.binop(op, ts[0], ts[1])
        if op in ("+=", "-=", "|=", "&=", "^=", "<<=", ">>=", "*=", "/=", "%=") and len(args) == 2:
            lv = self.lvalue(args[0], fr)
            v = self.binop(op[:-1], self._load(lv), ts[1])
            if lv[0] != "tmp":
                self._save(lv, v)
            else:
                self.element_write(args[0], v, fr)
            return v
        if op == "()":
            self.emit(Ev("call", "()", ts, n, fr.func))
        return ("ap", "op" + op,) + tuple(ts)

    def element_write(self, target, v, fr):
        """c[i] = v on a class-type container held in a local / field: the container's term becomes mut:[]=(old, i, v)"""
        t = target
        while t is not None and t.get("k") in ("cast", "opaque"):
            t = t.get("e")
        if t is None or not (t.get("k") == "opcall" and t.get("op") == "[]" and len(t.get("args", [])) == 2):
            return
        try:
            clv = self.lvalue(t["args"][0], fr)
        except Unsupported:
            return
        if clv[0] not in ("cell", "hp", "hpv"):
            return
        old = self._load(clv)
        self._save(clv, ("ap", "mut:[]=", old, self.ev(t["args"][1], fr), v))

    def inline(self, fn, n, args, ts, fr, this):
        self.nframe += 1
        nf = Frame(fn, self.nframe, this)
        for i, p in enumerate(fn.params):
            key = p.get("d") or p["n"]
            a = args[i] if i < len(args) else None
            ty = p.get("ty") or ""
            if a is not None and ty.rstrip().endswith("&") and not ty.rstrip().endswith("&&"):
                lv = self.lvalue(a, fr)
                if lv[0] in ("cell",):
                    nf.vars[key] = lv
                    continue
                if lv[0] in ("hp", "hpv"):
                    v0 = self._load(lv)
                    nf.vars[key] = self.new_cell(v0, loc=v0)
                    nf.__dict__.setdefault("writeback", []).append((nf.vars[key], lv))
                    if lv[0] == "hp":
                        self.refobj[nf.vars[key]] = v0      # fields of the referenced object stay keyed on the object's own term
                    continue
            v0 = ts[i] if i < len(ts) else (self.ev(p.get("default"), fr) if p.get("default") else ("a", p["n"]))
            nf.vars[key] = self.new_cell(v0, loc=v0)
        self.depth += 1
        saved = (self.status, self.ret)
        self.status, self.ret = None, None
        try:
            for ini in fn.d.get("inits", []) or []:
                if ini.get("field") and ini.get("e") is not None and this is not None:
                    self.heap[(this, ini["field"])] = self.ev(ini["e"], nf)
                elif ini.get("e") is not None:
                    self.ev(ini["e"], nf)
            if fn.body is not None and self.status is None:
                self.stmt(fn.body, nf)
            ret = self.ret
            st = self.status
        finally:
            self.depth -= 1
        for (cell, lv) in nf.__dict__.get("writeback", []):
            self._save(lv, self.store[cell])
        if st in ("abort", "throw", "bound"):
            self.status = st
            return ("a", "noreturn")
        self.status, self.ret = saved
        return ret if ret is not None else ("ap", "void:" + fn.name)

    # ---------------------------------------------------------------- statements
    def stmt(self, s, fr):
        if s is None or self.status is not None:
            return
        k = s.get("k")
        if k == "block":
            for c in s.get("ch", []):
                self.stmt(c, fr)
                if self.status is not None:
                    return
            return
        if k == "decl":
            for d in s["decls"]:
                key = d.get("d") or d["n"]
                ty = (d.get("ty") or "").rstrip()
                if d.get("init") is not None:
                    if ty.endswith("&") and not ty.endswith("&&"):
                        lv = self.lvalue(d["init"], fr)
                        if lv[0] in ("cell", "hp"):
                            fr.vars[key] = lv      # a reference IS the object it is bound to (a local, or a field of the heap)
                            continue
                        if lv[0] == "hpv":
                            # a field (never written so far) of an object held by value / by reference parameter
                            hk = (("obj", lv[1]), lv[2])
                            self.heap.setdefault(hk, ("f", lv[3], lv[2]))
                            fr.vars[key] = ("hp", hk[0], hk[1])
                            continue
                        fr.vars[key] = self.new_cell(self._load(lv))
                        continue
                    fr.vars[key] = self.new_cell(self.ev(d["init"], fr))
                else:
                    fr.vars[key] = self.new_cell(("ap", "new:" + (d.get("ct") or ty)))
                if self.status is not None:
                    return
            return
        if k == "if":
            if s.get("init") is not None:
                self.stmt(s["init"], fr)
            c = self.ev(s["cond"], fr)
            if self.status is not None:
                return
            if self.truth(c, s["cond"]):
                self.stmt(s.get("then"), fr)
            else:
                self.stmt(s.get("else"), fr)
            return
        if k == "return":
            self.ret = self.ev(s["e"], fr) if s.get("e") is not None else None
            if self.status is None:
                self.status = "ret"
            return
        if k == "throw":
            self.status = "throw"
            return
        if k in ("break", "continue"):
            self.status = k
            return
        if k == "try":
            self.stmt(s.get("body"), fr)
            return
        if k == "do":
            # do { ... } while (0) macro bodies run once; any other do-loop is summarised
            self.stmt(s.get("body"), fr)
            if self.status in ("break", "continue"):
                self.status = None
                return
            if self.status is not None:
                return
            c = self.ev(s["cond"], fr) if s.get("cond") is not None else C(0)
            if is_const(c) and c[1] == 0:
                return
            self.notes.append("do-loop summarised at %s:%s" % (fr.func.file, s.get("l")))
            return
        if k in ("for", "while", "forrange"):
            return self.loop(s, fr)
        if k == "switch":
            return self.switch(s, fr)
        if k in ("null_stmt", "label", "nullstmt", "empty"):
            return
        if k == "case" or k == "default":
            for c in s.get("ch", []) or ([s["sub"]] if s.get("sub") else []):
                self.stmt(c, fr)
            return
        self.ev(s, fr)

    def switch(self, s, fr):
        from . import structure as S
        c = self.ev(s["cond"], fr)
        groups = S.case_groups(s)
        chosen = None
        default = None
        for g in groups:
            vals = [l[1] for l in g.labels]
            if any(v is None or v == "default" for v in vals):
                default = g
            for v in vals:
                if v is None or v == "default":
                    continue
                if self.truth(self.binop("==", c, C(v)), s["cond"]):
                    chosen = g
                    break
            if chosen:
                break
        g = chosen or default
        if g is None:
            return
        # fallthrough: execute from g onwards until break
        started = False
        for h in groups:
            if h is g:
                started = True
            if not started:
                continue
            for st in h.stmts:
                self.stmt(st, fr)
                if self.status is not None:
                    break
            if self.status == "break":
                self.status = None
                return
            if self.status is not None:
                return

    def loop(self, s, fr):
        k = s["k"]
        if k == "for" and s.get("init") is not None:
            self.stmt(s["init"], fr)
        elem = None
        ivar = None
        key = None
        self.loopdepth = getattr(self, "loopdepth", 0) + 1
        it = ("it", self.loopdepth - 1)
        try:
            if k == "forrange":
                rng = self.ev(s.get("range"), fr)
                elem = ("elem", rng)
                key = self.locterm(s.get("range"), fr)
                if s.get("var"):
                    fr.vars[s.get("vard") or s["var"]] = self.new_cell(elem, loc=("elem", self.locterm(s.get("range"), fr)))
            else:
                c = self.ev(s["cond"], fr) if s.get("cond") is not None else C(1)
                if is_const(c) and c[1] == 0:
                    return
                ivar = self.X.canonical_index(s, fr, self)
                if ivar is not None:
                    key = ivar[2]
                    self.store[ivar[0]] = ("idx", ivar[1])
                else:
                    # the counters the increment writes are symbolic during the summarised iteration
                    j = 0
                    for x in walk(s["inc"]) if s.get("inc") is not None else []:
                        tgt = None
                        if x.get("k") == "un" and x.get("op") in ("++", "--"):
                            tgt = x["e"]
                        elif x.get("k") in ("assign", "cassign"):
                            tgt = x["lhs"]
                        elif x.get("k") == "opcall" and x.get("op") in ("++", "--", "+=", "-=", "="):
                            tgt = x["args"][0]
                        if tgt is not None:
                            lv = self.lvalue(tgt, fr)
                            if lv[0] == "cell":
                                self.store[lv] = it if j == 0 else it + (j,)
                                j += 1
                    if k == "while" or j == 0:
                        self.notes.append("loop without a recognised counter summarised at %s:%s" % (fr.func.file, s.get("l")))
                    key = ("ap", "while", self.ev(s["cond"], fr)) if s.get("cond") is not None else ("ap", "forever")
            # One symbolic iteration. Pass 1 finds the cells / fields the body writes; they are then replaced by prev(j)
            # ("the value at the beginning of an arbitrary iteration") and the body is evaluated again (pass 2): afterwards a
            # written cell holds loopvar(key, term of one iteration relative to prev, value before the loop).
            counters = {c_ for c_, v_ in self.store.items() if isinstance(v_, tuple) and v_ and v_[0] in ("it", "idx")}
            snap = (dict(self.store), dict(self.heap), len(self.events), list(self.conds), self.di, len(self.notes), self.ncell, self.nframe,
                    getattr(self, "nobj", 0), dict(fr.vars))
            self.stmt(s.get("body"), fr)
            # cells written on paths of the body this pass did not take: every local / parameter of this frame that the body
            # assigns, increments, mutates through a non-const member or hands to a non-const reference / pointer parameter
            syn = set()
            syn_mem = []
            for x in walk(s.get("body")) if s.get("body") is not None else []:
                tgt = []
                kx = x.get("k")
                if kx in ("assign", "cassign"):
                    tgt = [x["lhs"]]
                elif kx == "un" and x.get("op") in ("++", "--"):
                    tgt = [x["e"]]
                elif kx == "opcall" and x.get("args") and (x.get("op") in ("=", "++", "--", "<<", ">>") or (x.get("op") or "").endswith("=") and x.get("op") not in ("==", "!=", "<=", ">=")):
                    tgt = [x["args"][0]] + ([x["args"][1]] if x.get("op") == ">>" and len(x["args"]) > 1 else [])
                elif kx == "mcall" and x.get("mconst") is False and x.get("obj") is not None and not self.X.pure_method(x):
                    tgt = [x["obj"]]
                if kx in ("call", "mcall", "ctor"):
                    pk = x.get("pk") or ""
                    for i_, a_ in enumerate(x.get("args", [])):
                        if a_ is None or i_ >= len(pk):
                            continue
                        if pk[i_] == "r":
                            tgt.append(a_)
                        elif pk[i_] == "p" and a_.get("k") == "un" and a_.get("op") == "&":
                            tgt.append(a_["e"])
                for t_ in tgt:
                    while t_ is not None and t_.get("k") in ("cast",):
                        t_ = t_["e"]
                    while t_ is not None and t_.get("k") == "opcall" and t_.get("op") in ("<<", ">>", "[]") and t_.get("args"):
                        t_ = t_["args"][0]
                    if t_ is not None and t_.get("k") == "ref" and t_.get("dk") in ("local", "parm"):
                        c_ = snap[9].get(t_.get("d") or t_.get("n"))
                        if c_ is not None and c_ in snap[0]:
                            syn.add(c_)
                    elif t_ is not None and t_.get("k") == "mem":
                        syn_mem.append(t_)
            changed_cells = sorted((c_ for c_ in snap[0] if (self.store.get(c_) != snap[0][c_] or c_ in syn) and c_ not in counters), key=lambda c_: c_[1])
            def dflt(k_):
                return ("a", k_[1]) if k_[0] == ("a", "::") else ("f", k_[0], k_[1])
            changed_heap = sorted((k_ for k_ in set(self.heap) | set(snap[1]) if self.heap.get(k_, dflt(k_)) != snap[1].get(k_, dflt(k_))), key=repr)
            self.store, self.heap = dict(snap[0]), dict(snap[1])
            del self.events[snap[2]:]
            self.conds = list(snap[3])
            self.di = snap[4]
            del self.notes[snap[5]:]
            self.ncell, self.nframe, self.nobj = snap[6], snap[7], snap[8]
            fr.vars = dict(snap[9])
            self.status = None
            # fields assigned somewhere in the body (addressed in the pre-loop state)
            for t_ in syn_mem:
                try:
                    lv_ = self.lvalue(t_, fr)
                except (NeedDecision, Unsupported):
                    continue
                k_ = None
                if lv_[0] == "hp":
                    k_ = (lv_[1], lv_[2])
                elif lv_[0] == "hpv":
                    k_ = (("obj", lv_[1]), lv_[2])
                if k_ is not None and k_ not in changed_heap:
                    changed_heap.append(k_)
            changed_heap.sort(key=repr)
            del self.events[snap[2]:]
            self.conds = list(snap[3])
            self.di = snap[4]
            init = {}
            for j, c_ in enumerate(changed_cells):
                init[c_] = self.store[c_]
                self.store[c_] = ("prev", j)
            for j, k_ in enumerate(changed_heap):
                init[k_] = self.heap.get(k_, dflt(k_))
                self.heap[k_] = ("prev", len(changed_cells) + j)
            mark = len(self.events)
            self.stmt(s.get("body"), fr)
            if self.status in ("break", "continue"):
                self.status = None
            body_events = self.events[mark:]
            del self.events[mark:]
            ev = Ev("loop", "loop", [key], s, fr.func)
            ev.body = body_events
            ev.writes = {}
            self.emit(ev)
            for j, c_ in enumerate(changed_cells):
                new = self.store.get(c_)
                ev.writes[c_] = new
                self.store[c_] = ("ap", "loopvar", key, new, init[c_], C(j))
            for j, k_ in enumerate(changed_heap):
                new = self.heap.get(k_)
                ev.writes[k_] = new
                self.heap[k_] = ("ap", "loopvar", key, new, init[k_], C(len(changed_cells) + j))
            if ivar is not None:
                self.store[ivar[0]] = ("ap", "m:size", ivar[1])
        finally:
            self.loopdepth -= 1


class Explorer:
    def __init__(self, prog, assume=None, distinct=(), inline=None, transparent=None):
        self.prog = prog
        self.fb = prog.facts
        self.assume = assume
        self.distinct = set(distinct)
        self.inline_pred = inline
        self.globals = {}
        self.transparent = transparent
        self.stream_calls = {"Serialize", "WriteCompactSize"}

    def callee(self, n):
        cid = n.get("cid")
        if not cid or n.get("ext"):
            return None
        fs = [f for f in self.prog.resolve(cid) if f.body is not None] if not n.get("virt") else []
        if not fs:
            f = self.fb.funcs.get(cid)
            return f if f is not None and f.body is not None and not n.get("virt") else None
        return fs[0]

    def may_inline(self, fn, n):
        if self.inline_pred is None:
            return False
        return bool(self.inline_pred(fn, n))

    def transparent_ctor(self, n):
        if self.transparent is not None:
            return self.transparent(n)
        return False

    def pure_method(self, n):
        return astq.is_pure_accessor(n) if hasattr(astq, "is_pure_accessor") else False

    def index_term(self, base, idx):
        if isinstance(idx, tuple) and idx[0] == "idx" and idx[1] == base:
            return ("elem", base)
        return ("ap", "[]", base, idx)

    def canonical_index(self, s, fr, run):
        """for (T i = 0; i < V.size(); ++i / i++): -> (cell of i, term of V) or None"""
        if s["k"] != "for" or s.get("init") is None or s.get("cond") is None or s.get("inc") is None:
            return None
        ini = s["init"]
        if ini.get("k") != "decl" or len(ini["decls"]) != 1:
            return None
        d = ini["decls"][0]
        if astq.const_value(d.get("init")) != 0:
            return None
        c = s["cond"]
        while c is not None and c.get("k") == "cast":
            c = c["e"]
        if c is None or c.get("k") != "bin" or c["op"] != "<":
            return None
        lhs = c["lhs"]
        while lhs is not None and lhs.get("k") == "cast":
            lhs = lhs["e"]
        if lhs is None or lhs.get("k") != "ref" or lhs["n"] != d["n"]:
            return None
        rhs = c["rhs"]
        while rhs is not None and rhs.get("k") == "cast":
            rhs = rhs["e"]
        if rhs is None or rhs.get("k") != "mcall" or rhs.get("n") != "size":
            return None
        inc = s["inc"]
        if not (inc.get("k") == "un" and inc.get("op") == "++" and astq.estr(inc["e"]) == d["n"]):
            return None
        lv, vec = run.obj_of(rhs, fr)
        cell = fr.vars.get(d.get("d") or d["n"])
        if cell is None:
            return None
        return (cell, vec, run.locterm(rhs.get("obj"), fr) if rhs.get("obj") is not None else vec)

    def explore(self, func, this=None, params=None, heap=None, limit=MAX_PATHS, body=None):
        """Enumerate the paths of func (or of one statement `body` of it, evaluated in isolation: locals declared outside it
        are atoms named after themselves). params: {name: term}; heap: {(base, field): term}. -> [Outcome]"""
        outcomes = []
        work = [[]]
        import time as _time
        t_end = _time.time() + float(os.environ.get("VERIF_SYMX_BUDGET", "120"))
        while work:
            if _time.time() > t_end:
                raise Unsupported("time budget exceeded while enumerating the paths of %s" % func.name)
            dec = work.pop()
            run = Run(self, dec)
            fr = Frame(func, 0, this)
            run.heap.update(heap or {})
            for p in func.params:
                key = p.get("d") or p["n"]
                v0 = (params or {}).get(p["n"], ("a", p["n"]))
                fr.vars[key] = run.new_cell(v0, loc=v0 if isinstance(v0, tuple) and v0 and v0[0] == "a" else None)
            try:
                for ini in (func.d.get("inits", []) or []) if body is None else []:
                    if ini.get("field") and ini.get("e") is not None and this is not None:
                        run.heap[(this, ini["field"])] = run.ev(ini["e"], fr)
                    elif ini.get("e") is not None:
                        run.ev(ini["e"], fr)
                if run.status is None:
                    run.stmt(func.body if body is None else body, fr)
            except NeedDecision:
                work.append(dec + [False])
                work.append(dec + [True])
                if len(work) + len(outcomes) > limit:
                    raise Unsupported("path bound exceeded in %s" % func.name)
                continue
            o = Outcome(run)
            o.frame = fr
            o.run = run
            outcomes.append(o)
        return outcomes

    def eval_expr(self, func, node):
        """term of one expression of func evaluated in isolation (locals and parameters are atoms named after themselves)"""
        run = Run(self, [])
        fr = Frame(func, 0, ("a", "this"))
        try:
            return run.ev(node, fr)
        except NeedDecision:
            raise Unsupported("expression needs a decision")

    @staticmethod
    def param_field(outcome, name, field):
        """final term of field `field` of the object held by the parameter / local called name (None if never written)"""
        for key, cell in outcome.frame.vars.items():
            if key == name or key.split("#")[0] == name:
                return outcome.heap.get((("obj", cell), field))
        return None

    @staticmethod
    def var(outcome, name):
        """final term of the local/parameter called name in the top frame"""
        for key, cell in outcome.frame.vars.items():
            if key == name or key.split("#")[0] == name:
                if cell[0] == "hp":
                    return outcome.heap.get((cell[1], cell[2]), ("f", cell[1], cell[2]))
                return outcome.store.get(cell)
        return None
