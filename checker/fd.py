"""G-FD: evaluation of closed integer/boolean expressions of the extractor's AST over a finite domain.
This is constant folding over a finite lattice of inputs (e.g. hash_type in 0..255), not execution of the program."""
from . import astq


class Unknown(Exception):
    pass


def ev(n, env, width=None):
    if n is None:
        raise Unknown("none")
    k = n.get("k")
    if k in ("int", "char"):
        return n["v"]
    if k == "bool":
        return 1 if n["v"] else 0
    if k in ("ref", "mem"):
        name = n["n"]
        if name in env:
            return env[name]
        if "cv" in n:
            return n["cv"]
        if n.get("dk") == "enumc":
            return n["ev"]
        raise Unknown(name)
    if "cv" in n and k not in ("bin", "un", "cond", "cast"):
        return n["cv"]
    if k == "cast":
        v = ev(n["e"], env)
        ty = (n.get("ty") or "")
        if "uint8_t" in ty or "unsigned char" in ty:
            return v & 0xff
        if ty == "bool":
            return 1 if v else 0
        return v
    if k == "un":
        v = ev(n["e"], env)
        op = n["op"]
        if op == "!":
            return 0 if v else 1
        if op == "~":
            return ~v
        if op == "-":
            return -v
        if op == "+":
            return v
        raise Unknown(op)
    if k == "cond":
        return ev(n["then"], env) if ev(n["cond"], env) else ev(n["else"], env)
    if k == "bin":
        op = n["op"]
        if op == "&&":
            return 1 if (ev(n["lhs"], env) and ev(n["rhs"], env)) else 0
        if op == "||":
            return 1 if (ev(n["lhs"], env) or ev(n["rhs"], env)) else 0
        a, b = ev(n["lhs"], env), ev(n["rhs"], env)
        if op == "+": return a + b
        if op == "-": return a - b
        if op == "*": return a * b
        if op == "&": return a & b
        if op == "|": return a | b
        if op == "^": return a ^ b
        if op == "<<": return a << b
        if op == ">>": return a >> b
        if op == "==": return 1 if a == b else 0
        if op == "!=": return 1 if a != b else 0
        if op == "<": return 1 if a < b else 0
        if op == "<=": return 1 if a <= b else 0
        if op == ">": return 1 if a > b else 0
        if op == ">=": return 1 if a >= b else 0
        if op == "/": return a // b if b else 0
        if op == "%": return a % b if b else 0
        raise Unknown(op)
    if "cv" in n:
        return n["cv"]
    raise Unknown(k)
