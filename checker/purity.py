"""G-PUR: region purity. A region is *check-only* when it cannot change state that a later operation could
observe: no write through this / reference or pointer parameters / globals, directly or through resolved callees -
except the error sink (serror), stdio streams and logger switches."""
from . import astq
from .facts import walk

EXEMPT_GLOBALS = {"stderr", "stdout", "stdin", "btc_logf", "btc_sighash_logf", "btc_sign_logf", "btc_segwit_logf",
                  "btc_taproot_logf", "HashWriter::debug"}


def _exempt_path(p, func):
    r = p[0]
    if r[0] == "global":
        return r[1] in EXEMPT_GLOBALS
    fields = [f for f in p[1:] if f not in ("[]",)]
    if "serror" in fields:
        return True
    if r[0] == "parm" and isinstance(r[1], str) and r[1].split("#")[0] in ("serror", "ret"):
        return True
    return False


def mutations(prog, func, region_nodes):
    """[(node, description)] of statements inside the region that write non-exempt, non-local state"""
    inside = set()
    for r in region_nodes:
        for n in walk(r):
            inside.add(id(n))
    pidx = {p["d"]: i for i, p in enumerate(func.params)}
    pk = func.d.get("pk", "")
    # locals declared inside the region are region-local
    local_decls = set()
    for r in region_nodes:
        for n in walk(r):
            if n["k"] == "decl":
                for d in n["decls"]:
                    local_decls.add(d["d"])

    def visible(p):
        r = p[0]
        if _exempt_path(p, func):
            return False
        if r[0] == "this":
            return True
        if r[0] == "global":
            return True
        if r[0] == "parm":
            i = pidx.get(r[1])
            if i is None:
                return False
            k = pk[i] if i < len(pk) else "v"
            if k in ("r", "m"):
                return True
            if k == "p" and len(p) > 1 and p[1] == "*":
                return True
            return False
        if r[0] == "local":
            # a local declared outside the region is state a later statement can observe
            return r[1] not in local_decls
        return False
    out = []
    for (n, kind, ps, detail) in astq.write_events(func, lambda cid: (prog.resolve(cid) or None)):
        if id(n) not in inside:
            continue
        if kind == "call":
            eff = prog.call_effects(func, n)
            vis = [p for p in eff if visible(p)]
            if vis:
                out.append((n, "call %s writes %s" % (n.get("callee"), astq.path_str(vis[0]))))
        else:
            vis = [p for p in ps if visible(p)]
            if vis:
                out.append((n, "%s of %s" % (kind, astq.path_str(vis[0]))))
    return out
