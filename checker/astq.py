"""AST queries on the extractor's resolved trees: access paths, aliases, write events, printing."""
from .facts import walk, children

# ------------------------------------------------------------------ printing


def estr(n, depth=0):
    """Normalised, compact rendering of an expression (for reports and structural comparison)."""
    if n is None:
        return ""
    if depth > 40:
        return "..."
    k = n.get("k")
    d = depth + 1
    if k == "ref":
        return n.get("qn") if n.get("dk") == "enumc" else n["n"]
    if k == "mem":
        b = n.get("base")
        if b is None or b.get("k") == "this":
            return n["n"]
        return estr(b, d) + ("->" if n.get("arrow") else ".") + n["n"]
    if k == "this":
        return "this"
    if k in ("int", "char"):
        return str(n.get("v", n.get("vs")))
    if k == "bool":
        return "true" if n["v"] else "false"
    if k == "str":
        return '"%s"' % n["s"]
    if k == "null":
        return "nullptr"
    if k in ("bin", "assign", "cassign"):
        return "(%s %s %s)" % (estr(n["lhs"], d), n["op"], estr(n["rhs"], d))
    if k == "un":
        if n.get("post"):
            return "%s%s" % (estr(n["e"], d), n["op"])
        return "%s%s" % (n["op"], estr(n["e"], d))
    if k == "mcall":
        return "%s.%s(%s)" % (estr(n.get("obj"), d), n.get("n", "?"), ", ".join(estr(a, d) for a in n["args"]))
    if k == "call":
        name = n.get("callee") or estr(n.get("fn"), d)
        return "%s(%s)" % (name, ", ".join(estr(a, d) for a in n["args"]))
    if k == "opcall":
        a = n["args"]
        op = n["op"]
        if op == "[]" and len(a) == 2:
            return "%s[%s]" % (estr(a[0], d), estr(a[1], d))
        if op == "()":
            return "%s(%s)" % (estr(a[0], d), ", ".join(estr(x, d) for x in a[1:]))
        if len(a) == 2:
            return "(%s %s %s)" % (estr(a[0], d), op, estr(a[1], d))
        if len(a) == 1:
            return "%s%s" % (op, estr(a[0], d))
        return "%s(%s)" % (op, ", ".join(estr(x, d) for x in a))
    if k == "ctor":
        if n.get("copy") and len(n["args"]) == 1:
            return estr(n["args"][0], d)
        return "%s(%s)" % (n.get("ty", "?"), ", ".join(estr(a, d) for a in n["args"]))
    if k == "cast":
        return "(%s)%s" % (n.get("ty", "?"), estr(n["e"], d))
    if k == "cond":
        return "(%s ? %s : %s)" % (estr(n["cond"], d), estr(n["then"], d), estr(n["else"], d))
    if k == "index":
        return "%s[%s]" % (estr(n["base"], d), estr(n["idx"], d))
    if k in ("defarg", "definit", "stdinit", "opaque"):
        return estr(n.get("e"), d)
    if k == "initlist":
        return "{%s}" % ", ".join(estr(a, d) for a in n["ch"])
    if k == "sizeof":
        return "sizeof(%s)" % (n.get("ty") or estr(n.get("e"), d))
    if k == "new":
        return "new %s%s" % (n.get("ty"), "[]" if n.get("array") else "")
    if k == "delete":
        return "delete%s %s" % ("[]" if n.get("array") else "", estr(n["e"], d))
    if k == "throw":
        return "throw %s" % estr(n.get("e"), d)
    if k == "lambda":
        return "[lambda]"
    if k == "zeroinit":
        return "%s()" % n.get("ty", "")
    if k == "return":
        return "return %s" % estr(n.get("e"), d)
    return "<%s>" % k


def const_value(n):
    """Integer constant value of an expression if the compiler evaluated it."""
    if n is None:
        return None
    if "cv" in n:
        return n["cv"]
    if n.get("k") in ("int", "char"):
        return n.get("v")
    if n.get("k") == "bool":
        return 1 if n["v"] else 0
    if n.get("k") == "ref" and n.get("dk") == "enumc":
        return n.get("ev")
    if n.get("k") in ("cast", "defarg"):
        return const_value(n.get("e"))
    return None


# ------------------------------------------------------------------ access paths

class Aliases:
    """Local reference variables bound to lvalues: `auto& x = env.x;` -> x |-> paths(env.x)."""

    def __init__(self, func):
        self.map = {}
        self.func = func
        for n in func.nodes():
            if n["k"] == "decl":
                for d in n["decls"]:
                    if d.get("isref") and d.get("init") is not None:
                        ps = paths(d["init"], self)
                        if ps:
                            self.map[d["d"]] = ps


def aliases(func):
    if func._aliases is None:
        func._aliases = Aliases(func)
    return func._aliases


def paths(n, al=None):
    """List of access paths (root, field, field, ...) an lvalue expression may denote.
    root is ('parm'|'local'|'global', decl-id) or ('this',) ; pseudo-fields '[]' (element) and '*' (pointee)."""
    if n is None:
        return []
    k = n.get("k")
    if k == "ref":
        dk = n.get("dk")
        if dk in ("parm", "local", "global"):
            if al is not None and n["d"] in al.map:
                return list(al.map[n["d"]])
            return [((dk, n["d"]),)]
        return []
    if k == "this":
        return [(("this",), "*")]
    if k == "mem":
        if n.get("method"):
            return []
        if n.get("rec") == "static":
            return [(("global", n["d"]),)]
        b = n.get("base")
        bps = paths(b, al) if b is not None else [(("this",), "*")]
        out = []
        for p in bps:
            if n.get("arrow") and not (len(p) == 2 and p[0] == ("this",) and p[1] == "*"):
                p = p + ("*",)
            out.append(p + (n["n"],))
        # normalise this->x  ==  (this,*,x)
        return out
    if k == "un":
        if n["op"] == "*":
            return [p + ("*",) for p in paths(n["e"], al)]
        if n["op"] in ("++", "--") and not n.get("post"):
            return paths(n["e"], al)
        if n["op"] == "&":
            return []
        return []
    if k == "index":
        return [p + ("[]",) for p in paths(n["base"], al)]
    if k == "opcall":
        a = n["args"]
        if n["op"] == "[]" and a:
            return [p + ("[]",) for p in paths(a[0], al)]
        if n["op"] == "*" and len(a) == 1:
            return [p + ("*",) for p in paths(a[0], al)]
        if n["op"] in ("=", "+=", "-=", "|=", "&=", "^=", "<<=", ">>=", "*=", "/=", "%=") and a:
            return paths(a[0], al)
        if n["op"] == "->" and a:
            return [p + ("*",) for p in paths(a[0], al)]
        return []
    if k == "mcall":
        if n.get("n") in ("at", "back", "front", "top", "operator[]"):
            return [p + ("[]",) for p in paths(n.get("obj"), al)]
        if n.get("n") in ("get",):
            return paths(n.get("obj"), al)
        return []
    if k == "cast":
        return paths(n["e"], al)
    if k == "cond":
        return paths(n["then"], al) + paths(n["else"], al)
    if k in ("assign", "cassign"):
        return paths(n["lhs"], al)
    if k in ("defarg", "opaque"):
        return paths(n.get("e"), al)
    if k == "call" and n.get("callee") in ("std::move", "std::forward", "std::as_const"):
        return paths(n["args"][0], al) if n["args"] else []
    return []


def path_str(p):
    root = p[0]
    s = "this" if root[0] == "this" else ("$%d" % root[1] if isinstance(root[1], int) else root[1].split("#")[0])
    for f in p[1:]:
        if f == "[]":
            s += "[]"
        elif f == "*":
            s = "*" + s if "." not in s and "[" not in s else "(*%s)" % s
        else:
            s += "." + f
    return s


def fields_of(p):
    """Real field names on a path, skipping pseudo fields."""
    return tuple(f for f in p[1:] if f not in ("[]", "*"))


# ------------------------------------------------------------------ write events

# non-const overloads of standard accessors: they hand out a reference/iterator but do not modify the
# container; a modification through the result is seen at the assignment (paths() follows at/[]/back/front/*).
# std::map::operator[] is NOT in this list (it may insert).
STD_ACCESSORS = {"at", "data", "begin", "end", "rbegin", "rend", "cbegin", "cend", "back", "front", "find",
                 "lower_bound", "upper_bound", "equal_range", "get", "value", "operator*", "operator->",
                 "c_str", "first", "last", "subspan"}
STD_INDEXABLE = ("std::vector", "std::array", "std::basic_string", "std::deque", "prevector", "Span")


def is_pure_accessor(n):
    """call node n (external callee) is a reference-returning accessor that does not modify its object."""
    name = n.get("n") or ""
    callee = n.get("callee") or ""
    if name in STD_ACCESSORS:
        return True
    if n.get("k") == "opcall" and n.get("op") in ("[]", "*", "->"):
        rec = n.get("mrec") or ""
        if n.get("op") == "[]":
            return rec.startswith(STD_INDEXABLE) or not rec.startswith("std::")
        return True
    return False


ASSIGN_OPS = ("=", "+=", "-=", "|=", "&=", "^=", "<<=", ">>=", "*=", "/=", "%=", "++", "--")


def is_call(n):
    return n.get("k") in ("call", "mcall", "opcall", "ctor")


def call_args(n):
    """Arguments aligned with the callee's parameter list ('pk'); for member operator calls the object
    (args[0]) is split off. Returns (object_or_None, [args])."""
    k = n["k"]
    if k == "mcall":
        return n.get("obj"), n["args"]
    if k == "opcall":
        if "mrec" in n and not n.get("static"):
            return (n["args"][0] if n["args"] else None), n["args"][1:]
        return None, n["args"]
    return None, n["args"]


def write_events(func, resolve_callee=None):
    """Yields (node, kind, paths, detail). kind in: assign, incdec, method(non-const member call on external
    or unresolved callee), refarg (bound to non-const reference/pointer parameter of external callee),
    addr (address taken and escaping), call (resolved repo callee; detail=(callee_id, binding) where binding maps
    'this' / parameter index -> paths)."""
    al = aliases(func)
    pm = func.parent_map()
    for n in func.nodes():
        k = n["k"]
        if k in ("assign", "cassign"):
            ps = paths(n["lhs"], al)
            yield n, "assign", ps, None
        elif k == "un" and n["op"] in ("++", "--"):
            yield n, "incdec", paths(n["e"], al), None
        elif k == "un" and n["op"] == "&":
            par = pm.get(id(n))
            # &x passed directly to a call: handled at the call through 'pk'
            if par is not None and is_call(par):
                continue
            ps = paths(n["e"], al)
            if ps and not n.get("toconst"):
                yield n, "addr", ps, None
        elif is_call(n):
            obj, args = call_args(n)
            cid = n.get("cid")
            pk = n.get("pk", "")
            resolved = resolve_callee(cid) if (resolve_callee and cid) else None
            binding = {}
            if obj is not None:
                ops = paths(obj, al)
                if n.get("objptr") and not (obj.get("k") == "this"):
                    ops = [p + ("*",) for p in ops]
                if resolved is not None:
                    binding["this"] = ops
                elif n.get("mconst") is False and ops and not is_pure_accessor(n):
                    yield n, "method", ops, n.get("callee")
            for i, a in enumerate(args):
                kind = pk[i] if i < len(pk) else ("." if pk.endswith(".") else "v")
                if a is None:
                    continue
                if kind in ("r", "m"):
                    aps = paths(a, al)
                elif kind in ("p", "."):
                    # pointer argument: &x, array decay or pointer variable (pointee)
                    if a.get("k") == "un" and a["op"] == "&":
                        aps = paths(a["e"], al)
                    else:
                        aps = [p + ("*",) for p in paths(a, al)]
                    if kind == "." :
                        # variadic: only explicit &x counts (printf-style %n is not used in this tree)
                        if not (a.get("k") == "un" and a["op"] == "&"):
                            aps = []
                elif kind == "c":
                    if resolved is not None:
                        # const ref: callee cannot write through it, but keep the binding for reads
                        pass
                    continue
                else:
                    continue
                if not aps:
                    continue
                if resolved is not None:
                    binding[i] = aps
                else:
                    yield a, "refarg", aps, n.get("callee")
            if resolved is not None:
                yield n, "call", [], (cid, binding)


# ------------------------------------------------------------------ de-hoisting
def single_defs(func):
    """locals that are declared once with an initialiser and never written afterwards -> {decl key: init node}"""
    cache = getattr(func, "_single_defs", None)
    if cache is not None:
        return cache
    decls = {}
    for n in func.nodes():
        if n["k"] == "decl":
            for d in n["decls"]:
                if d.get("d"):
                    decls.setdefault(d["d"], []).append(d)
    written = set()
    for n in func.nodes():
        tgt = None
        if n["k"] in ("assign", "cassign"):
            tgt = n["lhs"]
        elif n["k"] == "un" and n.get("op") in ("++", "--"):
            tgt = n["e"]
        elif n["k"] == "opcall" and n.get("op") in ("=", "+=", "-=", "|=", "&=", "^=", "++", "--", "<<=", ">>=") and n["args"]:
            tgt = n["args"][0]
        elif n["k"] == "un" and n.get("op") == "&":
            tgt = n["e"]                      # address taken: may be written through the pointer
        if tgt is not None and tgt.get("k") == "ref" and tgt.get("d"):
            written.add(tgt["d"])
        if n["k"] == "mcall" and n.get("mconst") is False and n.get("obj") is not None and n["obj"].get("k") == "ref" and n["obj"].get("d") and not is_pure_accessor(n):
            written.add(n["obj"]["d"])
        if n["k"] in ("call", "mcall", "ctor"):
            pk = n.get("pk") or ""
            for i, a in enumerate(n.get("args", [])):
                if a is not None and a.get("k") == "ref" and a.get("d") and i < len(pk) and pk[i] == "r":
                    written.add(a["d"])
    out = {}
    for k, ds in decls.items():
        if len(ds) == 1 and ds[0].get("init") is not None and k not in written:
            out[k] = ds[0]["init"]
    func._single_defs = out
    return out


def expand(func, node, keep=(), depth=0):
    """copy of an expression in which every reference to a hoisted local (declared once with an initialiser, never written,
    and not named in `keep`) is replaced by its initialiser; casts and copy constructors are dropped. Rules that match on the
    spelling of an expression use this so that `const T x = e; ... x ...` and `... e ...` look the same."""
    if node is None or not isinstance(node, dict):
        return node
    k = node.get("k")
    if k in ("cast", "defarg", "definit", "stdinit", "opaque") and node.get("e") is not None:
        return expand(func, node["e"], keep, depth)
    if k == "ctor" and node.get("copy") and len(node.get("args", [])) == 1:
        return expand(func, node["args"][0], keep, depth)
    if k == "ref" and node.get("dk") == "local" and node.get("n") not in keep and depth < 6:
        init = single_defs(func).get(node.get("d"))
        if init is not None:
            return expand(func, init, keep, depth + 1)
    out = {}
    for key, v in node.items():
        if isinstance(v, dict):
            out[key] = expand(func, v, keep, depth)
        elif isinstance(v, list):
            out[key] = [expand(func, x, keep, depth) if isinstance(x, dict) else x for x in v]
        else:
            out[key] = v
    return out




def inline_pure(resolve, node, depth=0):
    """copy of an expression in which a call of a repository function whose body is a single `return E;` is replaced by E with
    the parameters replaced by the (inlined) arguments - predicate helpers such as `static bool HasX(a, b) { return a == K && ...; }`
    then read like the inline condition. resolve: callee id -> [Func]."""
    if node is None or not isinstance(node, dict):
        return node
    out = {}
    for key, v in node.items():
        if isinstance(v, dict):
            out[key] = inline_pure(resolve, v, depth)
        elif isinstance(v, list):
            out[key] = [inline_pure(resolve, x, depth) if isinstance(x, dict) else x for x in v]
        else:
            out[key] = v
    if out.get("k") == "call" and out.get("cid") and depth < 3:
        gs = [g for g in resolve(out["cid"]) if g.body is not None]
        if len(gs) == 1:
            g = gs[0]
            body = g.body.get("ch", []) if g.body.get("k") == "block" else [g.body]
            body = [b for b in body if b is not None and b.get("k") not in ("null_stmt",)]
            if len(body) == 1 and body[0].get("k") == "return" and body[0].get("e") is not None and len(g.params) == len(out.get("args", [])):
                sub = {(p.get("d") or p["n"]): a for p, a in zip(g.params, out["args"])}

                def subst(x):
                    if not isinstance(x, dict):
                        return x
                    if x.get("k") == "ref" and x.get("dk") == "parm" and (x.get("d") or x["n"]) in sub:
                        return sub[x.get("d") or x["n"]]
                    y = {}
                    for k2, v2 in x.items():
                        if isinstance(v2, dict):
                            y[k2] = subst(v2)
                        elif isinstance(v2, list):
                            y[k2] = [subst(z) if isinstance(z, dict) else z for z in v2]
                        else:
                            y[k2] = v2
                    return y
                e = body[0]["e"]
                while e is not None and e.get("k") == "cast":
                    e = e["e"]
                return inline_pure(resolve, subst(e), depth + 1)
    return out
