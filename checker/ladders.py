"""Compact-size ladder extraction (writer / reader / third sibling), shared by C13 and C14."""
from . import astq, structure as S
from .facts import walk

EXPECT_WRITER = [(252, None, 1), (0xFFFF, 253, 2), (0xFFFFFFFF, 254, 4), (None, 255, 8)]
WIDTH_OF = {"ser_writedata8": 1, "ser_writedata16": 2, "ser_writedata32": 4, "ser_writedata64": 8,
            "ser_readdata8": 1, "ser_readdata16": 2, "ser_readdata32": 4, "ser_readdata64": 8}


def _thr(cond):
    if cond is not None and cond.get("k") == "bin" and cond["op"] in ("<", "<="):
        K = astq.const_value(cond["rhs"])
        if K is not None:
            return K - 1 if cond["op"] == "<" else K
    return None


def writer_ladder(func, width_of_arm):
    """ordered [(max admitted, marker byte, payload width)] from a chain or sequence of `if (n < / <= K)` arms,
    followed by the final (else / fall-through) arm"""
    out = []
    ifs = [n for n in func.nodes() if n["k"] == "if" and _thr(n["cond"]) is not None]
    ifs.sort(key=lambda n: (n.get("l", 0), n.get("c", 0)))
    last_else = None
    for n in ifs:
        arm = n["then"]
        out.append((_thr(n["cond"]), marker_of(arm), width_of_arm(arm)))
        if n.get("else") is not None and n["else"].get("k") != "if":
            last_else = n["else"]
    if last_else is not None:
        out.append((None, marker_of(last_else), width_of_arm(last_else)))
    return out, ifs


def marker_of(arm):
    """marker byte = a literal 253/254/255 passed directly to push_back / ser_writedata8"""
    for x in walk(arm):
        if x["k"] in ("call", "mcall") and x.get("n") in ("push_back", "ser_writedata8"):
            for a in x["args"]:
                b = a
                while b is not None and b.get("k") == "cast":
                    b = b["e"]
                if b is not None and b.get("k") == "int" and b.get("v") in (253, 254, 255):
                    return b["v"]
    return None


def ser_width(arm):
    ws = [WIDTH_OF[x["n"]] for x in walk(arm) if x["k"] == "call" and x.get("n") in WIDTH_OF]
    ws = [w for w in ws if w > 1] or ws
    return ws[0] if ws else None


# ---------------------------------------------------------------------------------------------------------------------
# term-based extraction (G-SYM): the classes are read off the decided conditions of each path, so if-chains, sequences of
# early returns, switches and hoisted widths all give the same ladder
from . import symx  # noqa: E402
from .facts import AnalysisBroken  # noqa: E402


def interval(conds, var, top=None):
    """[lo, hi] of the values of term `var` admitted by the decided conditions (hi None = unbounded)"""
    lo, hi = 0, top
    excluded = set()
    for (t, v) in conds:
        if not isinstance(t, tuple):
            continue
        if t[0] == "ap" and t[1] == "bool" and len(t) == 3:
            t = t[2]
        if t == var:
            if v:
                lo = max(lo, 1)
            else:
                hi = 0 if hi is None else min(hi, 0)
            continue
        if t[0] == "ap" and t[1] == "<" and len(t) == 4:
            X, Y = t[2], t[3]
            if X == var and symx.is_const(Y):
                K = Y[1]
                if v:
                    hi = K - 1 if hi is None else min(hi, K - 1)
                else:
                    lo = max(lo, K)
            elif Y == var and symx.is_const(X):
                K = X[1]
                if v:
                    lo = max(lo, K + 1)
                else:
                    hi = K if hi is None else min(hi, K)
        elif t[0] == "eq" and len(t) == 3 and var in t[1:]:
            other = t[2] if t[1] == var else t[1]
            if symx.is_const(other):
                K = other[1]
                if v:
                    lo, hi = max(lo, K), (K if hi is None else min(hi, K))
                else:
                    excluded.add(K)
    while lo in excluded:
        lo += 1
    while hi is not None and hi in excluded:
        hi -= 1
    return lo, hi


def _explore(prog, func, **kw):
    X = symx.Explorer(prog, inline=lambda fn, n: False, transparent=lambda n: True)
    try:
        return X, X.explore(func, **kw)
    except symx.Unsupported as e:
        raise AnalysisBroken("%s: %s" % (func.name, e))


def writer_classes(prog, func):
    """WriteCompactSize(os, n): [(max admitted n, marker byte, payload width)] sorted by class"""
    if len(func.params) != 2:
        raise AnalysisBroken("%s takes %d parameters" % (func.name, len(func.params)))
    n = ("a", "n")
    X, outs = _explore(prog, func, params={func.params[0]["n"]: ("a", "os"), func.params[1]["n"]: n})
    out = []
    for o in outs:
        if o.status not in ("ret", "end"):
            continue
        lo, hi = interval(o.conds, n)
        ws = [e for e in o.events if e.kind == "call" and e.name in WIDTH_OF]
        marker = width = "?"
        if len(ws) == 1 and ws[0].terms[1] == n:
            marker, width = None, WIDTH_OF[ws[0].name]
        elif len(ws) == 2 and ws[0].name.endswith("data8") and symx.is_const(ws[0].terms[1]) and ws[1].terms[1] == n:
            marker, width = ws[0].terms[1][1], WIDTH_OF[ws[1].name]
        out.append((lo, hi, marker, width))
    out.sort(key=lambda x: x[0])
    return _ladder(out, func)


def _ladder(classes, func):
    # classes must tile [0, inf)
    nxt = 0
    lad = []
    for (lo, hi, marker, width) in classes:
        if lo != nxt:
            return [("gap/overlap at %d" % lo, marker, width)]
        lad.append((hi, marker, width))
        nxt = None if hi is None else hi + 1
    return lad


def prefix_classes(prog, func, this=("a", "this")):
    """Value::do_prefix_compact_size: [(max admitted length, marker byte pushed first, number of length bytes)] and whether
    every path ends by inserting the prefix at the beginning of the data"""
    X, outs = _explore(prog, func, this=this)
    out = []
    inserted = True
    for o in outs:
        if o.status not in ("ret", "end"):
            continue
        # the length variable: the term compared with constants
        cands = {}
        for (t, v) in o.conds:
            tt = t[2] if isinstance(t, tuple) and t[0] == "ap" and t[1] == "bool" and len(t) == 3 else t
            if isinstance(tt, tuple) and tt[0] == "ap" and tt[1] == "<" and len(tt) == 4:
                for x in (tt[2], tt[3]):
                    if not symx.is_const(x):
                        cands[x] = cands.get(x, 0) + 1
        if not cands:
            raise AnalysisBroken("%s: no length classes found" % func.name)
        var = max(cands, key=lambda k: cands[k])
        lo, hi = interval(o.conds, var)
        markers = []
        width = "?"
        for e in o.events:
            if e.kind == "mcall" and e.name == "push_back" and symx.is_const(e.terms[1]):
                markers.append(e.terms[1][1])
            if e.kind == "loop":
                key = e.terms[0]
                if isinstance(key, tuple) and key[0] == "ap" and key[1] == "while" and isinstance(key[2], tuple) and key[2][:3] == ("ap", "<", ("it", 0)) and symx.is_const(key[2][3]):
                    pb = [b for b in e.body if b.kind == "mcall" and b.name == "push_back" and isinstance(b.terms[1], tuple) and b.terms[1][:2] == ("ap", "&") and symx.is_const(b.terms[1][3]) and b.terms[1][3][1] == 0xff]
                    width = key[2][3][1] if pb else "loop body does not push (len & 0xff)"
        ins = [e for e in o.events if e.kind == "mcall" and e.name == "insert" and len(e.terms) == 4 and isinstance(e.terms[1], tuple) and e.terms[1][:2] == ("ap", "m:begin")]
        if not ins:
            inserted = False
        out.append((lo, hi, markers[0] if len(markers) == 1 else (None if not markers else tuple(markers)), width))
    out.sort(key=lambda x: x[0])
    return _ladder(out, func), inserted


def reader_classes(prog, func):
    """ReadCompactSize(is, range_check=false): {(lo, hi) of the marker byte: (payload width read, canonical lower bound)}"""
    if len(func.params) != 2:
        raise AnalysisBroken("%s takes %d parameters" % (func.name, len(func.params)))
    X, outs = _explore(prog, func, params={func.params[0]["n"]: ("a", "is"), func.params[1]["n"]: symx.C(0)})
    classes = {}
    for o in outs:
        reads = [e for e in o.events if e.kind == "call" and e.name in WIDTH_OF]
        if not reads or not reads[0].name.endswith("data8"):
            raise AnalysisBroken("%s does not start by reading the marker byte" % func.name)
        marker = ("ap", reads[0].name,) + tuple(reads[0].terms)
        lo, hi = interval(o.conds, marker, top=255)
        width = None
        canon = None
        val = marker
        if len(reads) == 2:
            width = WIDTH_OF[reads[1].name]
            val = ("ap", reads[1].name,) + tuple(reads[1].terms)
        elif len(reads) > 2:
            width = "?"
        cl, ch = interval(o.conds, val)
        rec = classes.setdefault((lo, hi), {"width": width, "canon": None, "ret_ok": True})
        if rec["width"] != width:
            rec["width"] = "?"
        if o.status == "throw":
            # thrown when the payload is below the canonical bound
            if ch is not None:
                rec["canon"] = ch + 1 if rec["canon"] is None else max(rec["canon"], ch + 1)
        elif o.status == "ret":
            if o.ret != val:
                rec["ret_ok"] = False
    return classes
