"""Compact-size ladder extraction (writer / reader / third sibling), shared by C13 and C14."""
from . import astq, structure as S
from .facts import walk

EXPECT_WRITER = [(252, None, 1), (0xFFFF, 253, 2), (0xFFFFFFFF, 254, 4), (None, 255, 8)]
WIDTH_OF = {"ser_writedata8": 1, "ser_writedata16": 2, "ser_writedata32": 4, "ser_writedata64": 8,
            "ser_readdata8": 1, "ser_readdata16": 2, "ser_readdata32": 4, "ser_readdata64": 8}


def _thr(cond):
    if cond is not None and cond.get("k") == "bin" and cond["op"] in ("<", "<="):
        K = astq.const_value(cond["rhs"])
        if K is not None:
            return K - 1 if cond["op"] == "<" else K
    return None


def writer_ladder(func, width_of_arm):
    """ordered [(max admitted, marker byte, payload width)] from a chain or sequence of `if (n < / <= K)` arms,
    followed by the final (else / fall-through) arm"""
    out = []
    ifs = [n for n in func.nodes() if n["k"] == "if" and _thr(n["cond"]) is not None]
    ifs.sort(key=lambda n: (n.get("l", 0), n.get("c", 0)))
    last_else = None
    for n in ifs:
        arm = n["then"]
        out.append((_thr(n["cond"]), marker_of(arm), width_of_arm(arm)))
        if n.get("else") is not None and n["else"].get("k") != "if":
            last_else = n["else"]
    if last_else is not None:
        out.append((None, marker_of(last_else), width_of_arm(last_else)))
    return out, ifs


def marker_of(arm):
    """marker byte = a literal 253/254/255 passed directly to push_back / ser_writedata8"""
    for x in walk(arm):
        if x["k"] in ("call", "mcall") and x.get("n") in ("push_back", "ser_writedata8"):
            for a in x["args"]:
                b = a
                while b is not None and b.get("k") == "cast":
                    b = b["e"]
                if b is not None and b.get("k") == "int" and b.get("v") in (253, 254, 255):
                    return b["v"]
    return None


def ser_width(arm):
    ws = [WIDTH_OF[x["n"]] for x in walk(arm) if x["k"] == "call" and x.get("n") in WIDTH_OF]
    ws = [w for w in ws if w > 1] or ws
    return ws[0] if ws else None
