"""C16 - exec applies operations exactly as the script would: structural clauses (DESIGN.md section 4, C16)."""
from .. import astq, structure as S
from ..engines import ExcEngine
from ..facts import AnalysisBroken, walk
from . import c15

EXPLANATION = (
    "R16.1 write-set of Instance::eval (interprocedural, alias aware): exec must leave the script position and the remaining "
    "script untouched, so the write-set must not contain pc, script, pend, curr_op_seq, done, successor_script, is_p2sh, p2shstack, "
    "tce or any history vector. R16.2 a failing or throwing exec'd operation is an error message, not the end of the session: no "
    "explicit throw escapes the exec command callback, and the failing edge of the step inside eval prints the script error. "
    "R16.3 eval executes the operations through the same operation step as the script, on the session's own environment (same flags, "
    "script version, stacks), reading bytes from its temporary script through a local iterator. R16.5 the operation step treats an "
    "exec'd operation exactly like a script operation: the `local_script` parameter is used only to select where bytes are read from, "
    "is passed on unchanged, and guards the one iterator store that would dangle (shared with C15 R15.9) - any other dependence on it "
    "makes exec behave differently from the script. R16.3 also: the stepping loop of eval is left early only over the failure edge of the step's result (or in a handler of a try around the step): no other test, e.g. of the session being finished, can stop exec. Token parsing of the exec arguments and equality of the resulting state with a "
    "reference are not decided.")
TRUSTED = ["clang 14 parser/Sema/CFG", "/verif extractor, write-set and exception engines"]
ASSUMPTIONS = ["the write-set is a may-analysis (path-insensitive): a field it does not contain is never written"]
DECLINED = ["classification of exec tokens (number / hex / opcode)", "equality of the resulting state with a reference interpreter"]

BANNED = {"pc", "script", "pend", "curr_op_seq", "done", "successor_script", "is_p2sh", "p2shstack", "tce", "scriptIn", "operational", "opcode_pos"}


def run(ctx, anchors=None):
    fb, prog = ctx.facts, ctx.prog
    ev = fb.fn("Instance::eval", file="instance.cpp")
    opstep = fb.fn("StepScript", file="script/interpreter.cpp")
    ext = fb.fn("StepExtended", file="debugger/interpreter.cpp")
    fexec = fb.fn("fn_exec")
    ctx.rule("R16.1", "write-set of Instance::eval excludes the script position, the script and the histories")
    ctx.rule("R16.2", "a failing / throwing exec'd operation is reported; the session survives")
    ctx.rule("R16.3", "eval steps through the same operation step on the session's own environment with a local iterator")
    ctx.rule("R16.5", "the operation step depends on `local_script` only for byte source selection, pass-through and the iterator-store guard")
    ws = prog.write_sets()
    w = ws[ev.id]
    fields = {}
    for p, wit in w.items():
        if p[0] != ("this",):
            continue
        fl = [x for x in p[1:] if x not in ("*", "[]")]
        if len(fl) >= 2 and fl[0] == "env":
            fields.setdefault(fl[1], wit)
    ctx.floor("R16.1", len(fields), 5, "session fields written by exec")
    for fld, wit in sorted(fields.items()):
        ctx.site()
        bad = fld in BANNED or fld.endswith("_history")
        ctx.inst(not bad, "R16.1", "exec-writes=" + fld, wit[1], "exec may write env.%s (allowed)" % fld,
                 "exec can write env.%s (at %s): the script position / remaining script / history is no longer untouched" % (fld, wit[1]))
    # exec must change the session only THROUGH the operation step: whatever eval / the exec command write themselves
    # (outside the step call) is a difference from "the operations were the next operations of the script"
    calls_ = [n for n in ev.nodes() if astq.is_call(n) and n.get("cid") == opstep.id]
    step_eff = set()
    for c_ in calls_:
        for p_ in prog.call_effects(ev, c_):
            fl = [x for x in p_[1:] if x not in ("*", "[]")]
            if len(fl) >= 2 and fl[0] == "env":
                step_eff.add(fl[1])
    extra = sorted(set(fields) - step_eff)
    ctx.site()
    ctx.inst(not extra, "R16.1", "exec-writes-only-through-the-step", ev.loc(),
             "every session field exec can write is written by the operation step itself",
             "Instance::eval writes %s outside the operation step (at %s): exec changes state that the same operations inside the script would not change"
             % (", ".join("env." + x for x in extra), "; ".join(fields[x][1] for x in extra)))
    own = []
    for (n_, kind, ps, detail) in astq.write_events(fexec, lambda cid: (prog.resolve(cid) or None)):
        if kind == "call":
            continue
        for p_ in ps:
            t = astq.path_str(p_)
            if "env" in t or "instance" in t:
                own.append((n_, t))
    ctx.inst(not own, "R16.1", "exec-command-does-not-touch-session", fexec.loc(own[0][0]) if own else fexec.loc(),
             "the exec command handler itself writes no session state",
             "fn_exec writes %s itself (at %s): after a throwing operation the state differs from what the script would have left" % (own[0][1] if own else "", fexec.loc(own[0][0]) if own else ""))
    # ---- R16.2
    exc = ExcEngine(prog)
    hard = c15.hard_escapes(exc, fexec)
    ctx.site()
    ctx.inst(not hard, "R16.2", "exec-callback-catches", fexec.loc(), "no explicit throw escapes the exec command",
             "exception %s escapes the exec command and kills the session: %s" % ("/".join(sorted(hard)), " -> ".join(hard[sorted(hard)[0]][:6]) if hard else ""))
    calls = [n for n in ev.nodes() if astq.is_call(n) and n.get("cid") == opstep.id]
    if len(calls) != 1:
        raise AnalysisBroken("R16.3: expected one call of the operation step in Instance::eval, found %d" % len(calls))
    call = calls[0]
    cfg = ev.cfg()
    sd = astq.single_defs(ev)

    def is_step_result(cid):
        n_ = ev.node_by_id(cid)
        if n_ is None:
            return False
        if n_["id"] == call["id"] or (astq.is_call(n_) and n_.get("cid") == opstep.id):
            return True
        if n_.get("k") == "ref" and n_.get("d") in sd:
            return any(x is call for x in walk(sd[n_["d"]]))
        return False
    fail_succ = None
    for (blk, s_, c, t) in cfg.cond_edges():
        if is_step_result(c) and t is False:      # the step's result tested directly or through a local that holds it
            fail_succ = s_
    errp = [n for n in ev.nodes() if n["k"] == "call" and n.get("n") in ("fprintf", "printf") and any(x["k"] == "call" and x.get("n") == "ScriptErrorString" for a in n["args"] if a for x in walk(a))]
    retf = [n for n in ev.nodes() if n["k"] == "return" and astq.const_value(n.get("e")) == 0]
    ctx.inst(fail_succ is not None and bool(errp) and cfg.must_pass_from_block(fail_succ, errp) and cfg.must_pass_from_block(fail_succ, retf), "R16.2", "failed-op-reported", ev.loc(call),
             "a failing exec'd operation prints the script error and returns false")
    # ---- R16.3
    obj, args = astq.call_args(call)
    a0 = astq.estr(args[0]) if args else ""
    ctx.inst(a0 in ("*env", "*this.env", "*this->env"), "R16.3", "same-environment", ev.loc(call), "the step runs on the session environment (%s)" % a0,
             "exec steps on `%s`, not on the session environment" % a0)
    it_ok = len(args) > 1 and args[1].get("k") == "ref" and args[1].get("dk") == "local"
    ctx.inst(it_ok, "R16.3", "local-iterator", ev.loc(call), "the iterator handed to the step is a local of eval (the session pc is not moved)",
             "exec hands `%s` to the step as iterator" % (astq.estr(args[1]) if len(args) > 1 else "?"))
    ls_ok = len(args) > 2 and args[2].get("k") == "un" and args[2]["op"] == "&" and args[2]["e"].get("dk") == "local"
    ctx.inst(ls_ok, "R16.3", "temporary-script-passed", ev.loc(call), "the temporary script is passed as local_script")
    # the loop runs until the temporary script is exhausted
    loops = [l for l in ev.nodes() if l["k"] == "while" and S.contains(l, call)]
    ctx.inst(bool(loops) and "end()" in astq.estr(loops[0]["cond"]), "R16.3", "all-operations-executed", ev.loc(call), "the loop continues until the end of the temporary script")
    # no way out of the stepping loop except a failed operation (seed C16-K: `if (env->done) return false;` in front of the step -
    # exec silently does nothing once the session has finished, where the same operations as next operations of the script run):
    # every return / break / goto inside the loop is reached only over the step's failure edge (directly, or through a local
    # that holds the step's result), or sits in a handler of a try around the step (a throwing operation is a failed one)
    if loops:
        exits = [n for n in walk(loops[0]["body"]) if n.get("k") in ("return", "break", "goto")]
        early = []
        for x in exits:
            in_handler = any(a.get("k") == "try" and S.contains(a["body"], call) and not S.contains(a["body"], x) for a in ev.ancestors(x))
            inner_loop = x["k"] == "break" and any(a.get("k") in ("while", "for", "do", "switch", "rangefor") and a is not loops[0] and S.contains(loops[0], a) for a in ev.ancestors(x))
            if in_handler or inner_loop:
                continue
            if not any(t is False and is_step_result(c) for (c, t) in cfg.guards_of(x)):
                early.append(x)
        ctx.site(len(exits))
        ctx.inst(not early, "R16.3", "loop-left-only-on-failure", ev.loc(early[0]) if early else ev.loc(call),
                 "the stepping loop of exec is left early only when an operation failed (%d exit(s) inspected)" % len(exits),
                 "exec can stop at %s before all operations were executed without any operation having failed (guards: %s): the operations would run as next operations of the script" %
                 (ev.loc(early[0]) if early else "", sorted(astq.estr(ev.node_by_id(c))[:50] + ("" if t else " is false") for (c, t) in cfg.guards_of(early[0]) if ev.node_by_id(c) is not None)[:4] if early else ""))
    # ---- R16.5
    nuse = 0
    for f in (opstep, ext):
        for n in f.nodes():
            if not (n["k"] == "ref" and n.get("dk") == "parm" and n["n"] == "local_script"):
                continue
            nuse += 1
            ctx.site()
            par = f.parent(n)
            kind = None
            # (a) byte source selection: local_script ? *local_script : env.script   (both the condition and the deref)
            anc = list(f.ancestors(n))
            conds = [a for a in anc if a.get("k") == "cond"]
            if conds and astq.estr(conds[0]).replace(" ", "") in ("(local_script?*local_script:env.script)",):
                kind = "byte source selection"
            # (b) pass-through argument
            elif par is not None and astq.is_call(par) and par.get("cid") in (opstep.id, ext.id):
                kind = "passed on unchanged"
            else:
                # (c) the guard of the iterator store
                p2 = par
                if p2 is not None and p2.get("k") == "un" and p2["op"] == "!":
                    p3 = f.parent(p2)
                    if p3 is not None and p3.get("k") == "if" and p3["cond"] is p2:
                        body = [x for x in walk(p3["then"]) if x["k"] in ("opcall", "assign", "call", "mcall", "cassign", "un")]
                        if len(body) == 1 and body[0]["k"] == "opcall" and body[0]["op"] == "=" and astq.estr(body[0]["args"][1]) == "pc":
                            kind = "guard of the iterator store"
            key = "local_script-use@%s:%s" % (f.name, astq.estr(par)[:40] if par is not None else "?")
            ctx.inst(kind is not None, "R16.5", key, f.loc(n), "local_script: %s" % kind,
                     "the operation step branches on `local_script` in `%s`: an exec'd operation is treated differently from the same operation in the script"
                     % (astq.estr([a for a in anc if a.get("k") in ("if", "bin", "cond")][0])[:80] if [a for a in anc if a.get("k") in ("if", "bin", "cond")] else astq.estr(par)[:60]))
    ctx.floor("R16.5", nuse, 3, "uses of local_script in the operation step")
    ctx.extra["exec_write_set"] = sorted(fields)


MUTANTS = [
    dict(name="exec-advances-opcode_pos", file="instance.cpp", find="            fprintf(stderr, \"Error: %s\\n\", ScriptErrorString(*env->serror).c_str());\n            return false;\n        }\n", replace="            fprintf(stderr, \"Error: %s\\n\", ScriptErrorString(*env->serror).c_str());\n            return false;\n        }\n        ++env->opcode_pos;\n", expect=["R16.1:exec-writes-only-through-the-step", "R16.1:exec-writes=opcode_pos"]),
    dict(name="exec-restores-stack-on-exception", file="functions.cpp", find="    } catch (std::exception const& ex) {\n        fprintf(stderr, \"exception: %s\\n\", ex.what());\n    }\n    print_dualstack();", replace="    } catch (std::exception const& ex) {\n        fprintf(stderr, \"exception: %s\\n\", ex.what());\n        env->stack.clear();\n    }\n    print_dualstack();", expect=["R16.1:exec-command-does-not-touch-session"]),
    dict(name="exec-moves-session-pc", file="instance.cpp", find="    CScript::const_iterator it = script.begin();\n    while (it != script.end()) {\n        if (!StepScript(*env, it, &script)) {",
         replace="    CScript::const_iterator it = script.begin();\n    while (it != script.end()) {\n        env->curr_op_seq++;\n        if (!StepScript(*env, it, &script)) {", expect=["R16.1:exec-writes=curr_op_seq"]),
    dict(name="exec-refuses-once-the-session-is-done", file="instance.cpp", find="        if (!StepScript(*env, it, &script)) {", replace="        if (env->done) return false;\n        if (!StepScript(*env, it, &script)) {", expect=["R16.3:loop-left-only-on-failure"]),
    dict(name="exec-uses-session-pc", file="instance.cpp", find="        if (!StepScript(*env, it, &script)) {", replace="        if (!StepScript(*env, env->pc, &script)) {", expect=["R16.3:local-iterator", "R16.1:exec-writes=pc"]),
    dict(name="exec-try-removed", file="functions.cpp", find="    try {\n        instance.eval(argc, argv);\n    } catch (std::exception const& ex) {\n        fprintf(stderr, \"exception: %s\\n\", ex.what());\n    }", replace="    instance.eval(argc, argv);",
         expect=["R16.2:exec-callback-catches"]),
    dict(name="exec-ops-not-counted", file="script/interpreter.cpp", find="if (opcode > OP_16 && ++nOpCount > MAX_OPS_PER_SCRIPT)", replace="if (opcode > OP_16 && !local_script && ++nOpCount > MAX_OPS_PER_SCRIPT)", expect=["R16.5:local_script-use"]),
    dict(name="exec-skips-minimal-check", file="script/interpreter.cpp", find="                if (fRequireMinimal && !CheckMinimalPush(vchPushValue, opcode)) {", replace="                if (fRequireMinimal && !local_script && !CheckMinimalPush(vchPushValue, opcode)) {", expect=["R16.5:local_script-use"]),
    dict(name="exec-silent-failure", file="instance.cpp", find="            fprintf(stderr, \"Error: %s\\n\", ScriptErrorString(*env->serror).c_str());\n            return false;", replace="            return false;", expect=["R16.2:failed-op-reported"]),
]
