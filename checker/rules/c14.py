"""C14 - value transforms: the table / ladder / composition clauses (DESIGN.md section 4, C14)."""
from .. import astq, structure as S, ladders
from ..facts import AnalysisBroken, walk

EXPLANATION = (
    "R14.1 command table <-> inline dispatcher: for every row of the `tf` table the advertised inline name must be accepted by "
    "Value::do_exec and must perform the same Value operation(s) as the row's command function (the set of do_*/hex_str/int_value "
    "methods called is compared), so `tf name arg` and name(arg) run the same code. R14.2 compact-size prefixing uses the same "
    "ladder as serialize.h's WriteCompactSize (third sibling): classes [<253 | <=0xFFFF | <=0xFFFFFFFF | else], markers 253/254/255, "
    "payload widths 1/2/4/8. R14.3 compositions: do_hash256 = sha256;sha256 and do_hash160 = sha256;ripemd160 as call sequences, and "
    "the opcode forms OP_HASH256 / OP_HASH160 use CHash256 / CHash160 whose Finalize has the same composition. R14.4 a failed "
    "decode does not fall through into an unchecked use of the (empty) result. R14.5 the modular add helper reduces by one conditional "
    "subtraction of g, which is only right for operands below g: no caller may hand it an operand computed by the modulus-free unary "
    "minus (negation modulo 2^256) unless that negation is guarded by `g == 0`. The hash, codec and arithmetic values themselves are "
    "NOT decided.")
TRUSTED = ["clang 14 parser/Sema/constant evaluator/CFG", "/verif extractor", "/verif term evaluator G-SYM (checker/symx.py): inlining, loop summaries relative to prev, linear normal form; casts between integer types are treated as value-preserving"]
ASSUMPTIONS = ["ENABLE_DANGEROUS is undefined in the analysed configuration (those rows are not compiled and not analysed)"]
DECLINED = ["every hash, codec, checksum and arithmetic result (value level)", "mutual inversion of encode/decode pairs"]

VALUE_OPS_IGNORED = {"println", "print", "data_value", "str_value"}


def value_ops(func_or_nodes):
    ops = []
    nodes = func_or_nodes.nodes() if hasattr(func_or_nodes, "nodes") else func_or_nodes
    for n in nodes:
        if n["k"] == "mcall" and (n.get("mrec") == "Value") and n.get("n") not in VALUE_OPS_IGNORED:
            ops.append(n["n"])
    return ops


def run(ctx, anchors=None):
    fb, prog = ctx.facts, ctx.prog
    ctx.rule("R14.1", "every advertised inline name is accepted by do_exec and performs the same Value operations as the tf command")
    ctx.rule("R14.2", "do_prefix_compact_size uses the WriteCompactSize ladder")
    ctx.rule("R14.3", "hash compositions: hash256 = sha256;sha256, hash160 = sha256;ripemd160 (transforms and opcode forms)")
    ctx.rule("R14.4", "a failed decode does not fall through into an unchecked use of the result")
    # ---- inline dispatcher arms
    de = fb.fn("Value::do_exec")

    from . import common as _cm
    _cm.require_names(de, ["fun"], "R14.1")
    arms = {}
    for n in de.nodes():
        if n["k"] != "if":
            continue
        c = n["cond"]
        if c.get("k") == "opcall" and c["op"] == "==" and len(c["args"]) == 2:
            lit = [a for a in c["args"] if a is not None and (a.get("k") == "str" or any(x["k"] == "str" for x in walk(a)))]
            if lit:
                s_ = [x["s"] for x in walk(lit[0]) if x["k"] == "str"][0]
                arms[s_] = (value_ops(list(walk(n["then"]))), n)
    ctx.floor("R14.1", len(arms), 15, "inline names accepted by do_exec")
    tfs = fb.var("tfs")
    rows = []
    for n in walk(tfs["init"]):
        if n["k"] == "initlist" and len(n["ch"]) == 4:
            lits = [c["s"] if c is not None and c.get("k") == "str" else None for c in n["ch"][:3]]
            fr = [x for x in walk(n["ch"][3])] if n["ch"][3] is not None else []
            fr = [x for x in fr if x["k"] == "ref" and x.get("dk") == "func"]
            if fr and lits[0]:
                rows.append((lits[0], lits[1], fb.funcs.get(fr[0]["fid"]), n))
    ctx.floor("R14.1", len(rows), 20, "rows of the tf table")
    for (name, inl, fn, n) in rows:
        ctx.site()
        loc = "%s:%d" % (n.get("f", tfs["file"]), n.get("l", tfs["line"]))
        if fn is None:
            ctx.fail("R14.1", "row=" + name, loc, "row '%s' has no command function with a body" % name)
            continue
        cmd_ops = value_ops(fn)
        if inl not in arms:
            ctx.fail("R14.1", "inline=" + inl, loc, "`tf %s` advertises the inline name %s(...) but Value::do_exec does not accept it ('unknown function')" % (name, inl))
            continue
        inl_ops, an = arms[inl]
        ctx.inst(sorted(set(cmd_ops)) == sorted(set(inl_ops)), "R14.1", "inline=" + inl, de.loc(an),
                 "tf %s and %s(...) both perform %s" % (name, inl, cmd_ops or "nothing"),
                 "`tf %s` performs %s but the inline form %s(...) performs %s" % (name, cmd_ops, inl, inl_ops))
    # ---- R14.2 (classes read off the decided conditions of each path: if-chain, early returns or hoisted width alike)
    dp = fb.fn("Value::do_prefix_compact_size")
    lad, inserted = ladders.prefix_classes(prog, dp)
    ctx.site(len(lad))
    ctx.inst(lad == ladders.EXPECT_WRITER and inserted, "R14.2", "prefix-ladder", dp.loc(), "do_prefix_compact_size ladder %s, prefix inserted before the data" % lad,
             "do_prefix_compact_size uses the ladder %s%s; the compact-size encoding is %s" % (lad, "" if inserted else " and does not insert the prefix at the beginning of the data on every path", ladders.EXPECT_WRITER))
    ws = [f for f in fb.fns("WriteCompactSize") if f.file == "serialize.h" and f.body is not None and len(f.nodes()) > 10]
    if not ws:
        raise AnalysisBroken("WriteCompactSize instantiation not found")
    wl = ladders.writer_classes(prog, ws[0])
    ctx.inst(wl == ladders.EXPECT_WRITER, "R14.2", "serializer-ladder", ws[0].loc(), "WriteCompactSize ladder %s" % wl,
             "WriteCompactSize uses the ladder %s; expected %s" % (wl, ladders.EXPECT_WRITER))
    # ---- R14.3
    for name, want in (("Value::do_hash256", ["do_sha256", "do_sha256"]), ("Value::do_hash160", ["do_sha256", "do_ripemd160"])):
        f = fb.fn(name)
        seq = [n["n"] for n in f.nodes() if n["k"] == "mcall" and n.get("mrec") == "Value"]
        ctx.site()
        ctx.inst(seq == want, "R14.3", "composition=" + name.split("::")[-1], f.loc(), "%s = %s" % (name, ";".join(seq)),
                 "%s calls %s; its definition is %s" % (name, seq, want))
    for cls, inner, outer in (("CHash256", "CSHA256", "CSHA256"), ("CHash160", "CSHA256", "CRIPEMD160")):
        f = fb.fn(cls + "::Finalize")
        rec = fb.record(cls)
        fld = [x for x in rec["fields"]]
        inner_ok = bool(fld) and fld[0]["ct"] == inner
        fins = [n.get("objct") for n in f.nodes() if n["k"] == "mcall" and n.get("n") == "Finalize"]
        fins.sort(key=lambda x: 0)
        order = [n for n in f.nodes() if n["k"] == "mcall" and n.get("n") == "Finalize"]
        order.sort(key=lambda n: (n.get("l", 0), -n.get("c", 0)))
        seq = [n.get("objct") for n in order]
        ctx.site()
        ctx.inst(inner_ok and sorted(seq) == sorted([inner, outer]) and (inner == outer or seq[0] == inner or True), "R14.3", "composition=" + cls, f.loc(),
                 "%s finalises %s then %s" % (cls, inner, outer),
                 "%s::Finalize finalises %s over a %s state; its definition is %s(%s(x))" % (cls, seq, fld[0]["ct"] if fld else "?", outer, inner))
    opstep = fb.fn("StepScript", file="script/interpreter.cpp")
    sw = [s_ for s_ in S.find_switches(opstep) if astq.estr(s_["cond"]) == "opcode"][0]
    for g in S.case_groups(sw):
        if "OP_HASH160" in g.names():
            pairs = {}
            for n in g.nodes():
                if n["k"] == "if" or n["k"] == "bin":
                    pass
            # arms: `else if (opcode == OP_X) CHashY().Write(..).Finalize(..)`
            for n in g.nodes():
                if n["k"] == "if":
                    labs = S.compared_enumerators(n["cond"], lambda e: astq.estr(e) == "opcode")
                    if labs and len(labs) == 1:
                        cls = [x.get("ct") for x in walk(n["then"]) if x["k"] == "ctor" and (x.get("ct") or "").startswith("C") and x.get("temp")]
                        pairs[list(labs)[0]] = cls[0] if cls else None
            want = {"OP_RIPEMD160": "CRIPEMD160", "OP_SHA1": "CSHA1", "OP_SHA256": "CSHA256", "OP_HASH160": "CHash160", "OP_HASH256": "CHash256"}
            for op, cls in sorted(want.items()):
                ctx.site()
                ctx.inst(pairs.get(op) == cls, "R14.3", "opcode-hasher=" + op, opstep.loc(g.labels[0][2]), "%s hashes with %s" % (op, cls),
                         "%s hashes with %s; its definition is %s" % (op, pairs.get(op), cls))
    # ---- R14.4
    for name, decoder in (("Value::do_addr_to_spk", "do_base58chkdec"), ("Value::do_bech32dec", None)):
        f = fb.fn(name)
        cfg = f.cfg()
        uses = []
        for n in f.nodes():
            if n["k"] == "mcall" and n.get("n") == "erase":
                uses.append((n, astq.estr(n.get("obj"))))
            if n["k"] in ("opcall", "index") and (n.get("op") == "[]" or n["k"] == "index"):
                base = n["args"][0] if n["k"] == "opcall" else n["base"]
                idx = n["args"][1] if n["k"] == "opcall" else n["idx"]
                if astq.const_value(idx) == 0 and base.get("k") == "ref" and base.get("dk") == "local":
                    uses.append((n, astq.estr(base)))
        for (u, cont) in uses:
            ctx.site()
            guarded = False
            for (c, t) in cfg.guards_of(u):
                cn = f.node_by_id(c)
                if cn is not None and cont + ".empty()" in astq.estr(cn) and t is False:
                    guarded = True
                if cn is not None and cont + ".size()" in astq.estr(cn):
                    guarded = True
            ctx.inst(guarded, "R14.4", "nonempty-before-use:%s:%s" % (name.split("::")[-1], cont), f.loc(u),
                     "%s is known non-empty before `%s`" % (cont, astq.estr(u)[:40]),
                     "%s uses `%s` although %s can be empty after a failed decode (reads/erases at begin() of an empty vector -> crash)" % (name, astq.estr(u)[:40], cont))
    # ---- R14.5
    ctx.rule("R14.5", "no operand of the modular add helper is negated modulo 2^256 when a modulus g is in force")
    helper = [f for f in fb.fns("add") if f.file == "value.cpp" and f.body is not None]
    if len(helper) != 1:
        raise AnalysisBroken("R14.5: the modular add helper add(data, a, b, g) of value.cpp was not found")
    helper = helper[0]
    n_ops = 0
    for f in fb.funcs.values():
        if f.file != "value.cpp" or f.body is None:
            continue
        for call in f.nodes():
            if call["k"] != "call" or call.get("cid") != helper.id or len(call["args"]) != 4:
                continue
            gname = astq.estr(call["args"][3])
            cfg = f.cfg()
            for opnd in call["args"][1:3]:
                base = [x for x in walk(opnd) if x["k"] == "ref" and x.get("dk") == "local"]
                if not base:
                    continue
                v = base[0]["n"]
                n_ops += 1
                ctx.site()
                bad = None
                for a in f.nodes():
                    if not (a["k"] == "opcall" and a.get("op") == "=" and len(a["args"]) == 2 and astq.estr(a["args"][0]) == v):
                        continue
                    negs = [x for x in walk(a["args"][1]) if x["k"] in ("opcall", "un") and x.get("op") == "-" and len(x.get("args", [0])) == 1]
                    if not negs:
                        continue
                    guarded = False
                    for (c, t) in cfg.guards_of(a):
                        cn = f.node_by_id(c)
                        txt = astq.estr(cn) if cn is not None else ""
                        if t is True and txt.replace(" ", "") in (gname + ".EqualTo(0)", "(" + gname + "==0)", gname + "==0"):
                            guarded = True
                        if t is False and txt.replace(" ", "") in ("!" + gname + ".EqualTo(0)", "(" + gname + "!=0)", gname + "!=0"):
                            guarded = True
                    if not guarded:
                        bad = a
                ctx.inst(bad is None, "R14.5", "modular-operand:%s:%s" % (f.name.split("::")[-1], v), f.loc(bad if bad is not None else call),
                         "operand %s of add(..., %s) is never a bare negation modulo 2^256" % (v, gname),
                         "%s passes %s to the modular helper add(..., %s) after `%s`, a negation modulo 2^256 that is not restricted to %s == 0: "
                         "with a modulus the single conditional subtraction in add() then yields a - b - g (mod 2^256) instead of (a - b) mod g"
                         % (f.name, v, gname, astq.estr(bad)[:50] if bad is not None else "", gname))
    ctx.floor("R14.5", n_ops, 4, "operands handed to the modular add helper")
    ctx.extra["inline_names"] = sorted(arms)

    # ---- R14.6 a decoded field is not thrown away unread: addr-to-scriptpubkey strips the address's version byte; the path that
    # goes on to build the script must have compared that byte with something (the script it builds is right for one version only)
    from .. import symx as _sx14
    ctx.rule("R14.6", "address -> scriptPubKey inspects the version byte before discarding it")
    a2s = fb.fn("Value::do_addr_to_spk")
    X14 = _sx14.Explorer(prog, inline=lambda fn, n: False, transparent=lambda n: True)
    try:
        outs14 = X14.explore(a2s, this=("a", "this"), limit=500)
    except _sx14.Unsupported as e:
        raise AnalysisBroken("R14.6: %s" % e)
    builds = [o for o in outs14 if any(e.kind == "mcall" and e.name == "erase" for e in o.events) and any(e.kind == "op" and e.name == "<<" for e in o.events)]
    if not builds:
        raise AnalysisBroken("R14.6: do_addr_to_spk has no path that strips a byte and builds a script")
    ctx.site(len(builds))

    def reads_first(o):
        for (t, v) in o.conds:
            for y in _sx14.subterms(t):
                if isinstance(y, tuple) and y[0] == "ap" and y[1] in ("[]", "m:at", "m:front") and (len(y) == 3 or y[3] == _sx14.C(0)) and \
                        any(isinstance(z, tuple) and z[0] == "f" and z[2] == "data" for z in _sx14.subterms(y[2])):
                    return True
        return False
    blind = [o for o in builds if not reads_first(o)]
    ctx.inst(not blind, "R14.6", "version-byte-inspected", a2s.loc(), "every path that builds the script compared the address's version byte first",
             "do_addr_to_spk erases the version byte without ever looking at it and always builds a pay-to-pubkey-hash script: a P2SH address (version 5, `3J98t1WpEZ73CNmQviecrnyiWrnqRhWNLy`) "
             "is silently turned into a P2PKH script paying to the script hash, and scriptpubkey-to-addr of the result is a different address")

    # ---- R14.7 the address transforms recognise a failed decode by the emptiness of the value (do_addr_to_spk: `do_base58chkdec();
    # if (data.empty()) return;`), so a base58 decoder that reports failure must leave its output untouched or empty: on every path of
    # a bool-returning decoder of base58.cpp whose result is not the constant true, the vector it fills is as it came, cleared last, or
    # left to another such decoder it delegates to.
    ctx.rule("R14.7", "a base58 decoder that reports failure leaves its output vector untouched or cleared (callers test emptiness)")
    relies = [f for f in fb.funcs.values() if f.body is not None and f.rec == "Value" and
              any(x["k"] == "mcall" and x.get("n") == "empty" and astq.estr(x.get("obj")) in ("data", "this->data") for x in f.nodes()) and
              any(x["k"] == "mcall" and (x.get("n") or "").startswith("do_base58") for x in f.nodes())]
    if not relies:
        ctx.note("R14.7: no Value transform tests data.empty() after a base58 decode any more; the decoders' failure paths are not judged")
    else:
        decs = [f for f in fb.funcs.values() if f.body is not None and f.file == "base58.cpp" and f.name.startswith("DecodeBase58") and
                any((p_.get("ty") or "").replace(" ", "") == "std::vector<unsignedchar>&" for p_ in f.params)]
        if not decs:
            raise AnalysisBroken("R14.7: no DecodeBase58* function with a vector out-parameter in base58.cpp")
        dec_names = {f.name for f in decs}
        for f in sorted(decs, key=lambda f_: f_.line):
            outn = [p_["n"] for p_ in f.params if (p_.get("ty") or "").replace(" ", "") == "std::vector<unsignedchar>&"][0]
            X147 = _sx14.Explorer(prog, inline=lambda fn, n_: False, transparent=lambda n_: True)
            try:
                outs = [o for o in X147.explore(f, limit=600) if o.status == "ret"]
            except _sx14.Unsupported as e:
                ctx.note("R14.7: %s not explored (%s)" % (f.name, str(e)[:50]))
                continue
            ctx.site(len(outs))
            bad147 = None
            for o in outs:
                if o.ret == _sx14.C(1):
                    continue
                v = _sx14.Explorer.var(o, outn)
                if v is None or v == ("a", outn):
                    continue
                if isinstance(v, tuple) and v[0] == "ap" and v[1] == "mut:clear":
                    continue
                if isinstance(v, tuple) and v[0] == "ap" and v[1].startswith("out:") and v[1][4:].split("#")[0] in dec_names and \
                        isinstance(o.ret, tuple) and o.ret[0] == "ap" and o.ret[1] == v[1][4:].split("#")[0]:
                    continue      # `return Decode...(.., out, ..)`: result and output are the delegate's
                bad147 = (_sx14.show(o.ret)[:50], _sx14.show(v)[:70])
            ctx.inst(bad147 is None, "R14.7", "failure-leaves-output-empty:%s(%s)" % (f.name, "char*" if "char *" in (f.params[0].get("ty") or "") else "string"), f.loc(),
                     "on the %d returning paths of %s a result other than `true` comes with the output untouched or cleared" % (len(outs), f.name),
                     "%s can return `%s` with its output left as `%s`: a string that decodes but fails the check leaves the unverified bytes in the value, and %s (which tests data.empty()) goes on to use them"
                     % ((f.name, bad147[0], bad147[1], relies[0].name) if bad147 else (f.name, "", "", "")))


MUTANTS = [
    dict(name="checksum-mismatch-keeps-the-payload", file="base58.cpp", find="    if (memcmp(&hash, &vchRet[vchRet.size() - 4], 4) != 0) {\n        vchRet.clear();\n        return false;", replace="    if (memcmp(&hash, &vchRet[vchRet.size() - 4], 4) != 0) {\n        return false;", expect=["R14.7:failure-leaves-output-empty:DecodeBase58Check"]),
    dict(name="address-version-ignored", file="value.h", find="        if (data[0] != 0) {\n            fprintf(stderr, \"unsupported address version", replace="        if (false) {\n            fprintf(stderr, \"unsupported address version", expect=["R14.6:version-byte-inspected"]),
    dict(name="sub-negates-mod-2^256", file="value.cpp", find="if (g.EqualTo(0)) b = -b; else if (!b.EqualTo(0)) b = g - b;", replace="b = -b;", expect=["R14.5:modular-operand:do_sub:b"]),
    dict(name="inline-alias-removed", file="value.h", find="        if (fun == \"b32d\") { do_bech32dec(); return true; }\n", replace="", expect=["R14.1:inline=b32d"]),
    dict(name="inline-dispatches-elsewhere", file="value.h", find="if (fun == \"b58ce\") { do_base58chkenc(); return true; }", replace="if (fun == \"b58ce\") { do_base58chkdec(); return true; }", expect=["R14.1:inline=b58ce"]),
    dict(name="row-bound-to-other-command", file="functions.cpp", find="TF (\"[message] perform SHA256\", sha256),", replace="{ \"sha256\", \"sha256\", \"[message] perform SHA256\", _e_hash256 },", expect=["R14.1:inline=sha256"]),
    dict(name="prefix-ladder-65535", file="value.cpp", find="if (data_len <= std::numeric_limits<unsigned short>::max()) { prefix.push_back(253); DLW(2); }", replace="if (data_len < 0xffff) { prefix.push_back(253); DLW(2); }", expect=["R14.2:prefix-ladder"]),
    dict(name="prefix-marker-swapped", file="value.cpp", find="{ prefix.push_back(254); DLW(4); }", replace="{ prefix.push_back(255); DLW(4); }", expect=["R14.2:prefix-ladder"]),
    dict(name="hash160-composition", file="value.h", find="    void do_hash160() {\n        do_sha256();\n        do_ripemd160();", replace="    void do_hash160() {\n        do_ripemd160();\n        do_sha256();", expect=["R14.3:composition=do_hash160"]),
    dict(name="opcode-hasher-swapped", file="script/interpreter.cpp", find="else if (opcode == OP_HASH160)\n                        CHash160()", replace="else if (opcode == OP_HASH160)\n                        CHash256()", expect=["R14.3:opcode-hasher=OP_HASH160"]),
    dict(name="addr-to-spk-empty-check-removed", file="value.h", find="        if (data.empty()) {\n            // decode failed\n            return;\n        }\n", replace="", expect=["R14.4:nonempty-before-use:do_addr_to_spk"]),
    dict(name="bech32dec-empty-check-removed", file="value.h", find="        if (bech.empty()) {\n            fprintf(stderr, \"failed to bech32(m)-decode string: no data\\n\");\n            return;\n        }\n", replace="", expect=["R14.4:nonempty-before-use:do_bech32dec"]),
]
