"""Rule fragments shared between properties."""
from .. import astq
from ..facts import AnalysisBroken, walk

STDIO_GLOBALS = {"stderr", "stdout", "stdin"}


def nonlocal_writes(prog, func):
    """[(node, description)] statements of func that write state visible outside the call (through this,
    reference/pointer parameters or globals), directly or through resolved callees. stdio streams excluded."""
    out = []
    pidx = {p["d"]: i for i, p in enumerate(func.params)}
    pk = func.d.get("pk", "")

    def visible(p):
        r = p[0]
        if r[0] == "this":
            return True
        if r[0] == "global":
            return r[1] not in STDIO_GLOBALS
        if r[0] == "parm":
            i = pidx.get(r[1])
            if i is None:
                return False
            k = pk[i] if i < len(pk) else "v"
            if k in ("r", "m"):
                return True
            if k in ("p",) and len(p) > 1 and p[1] == "*":
                return True
        return False
    for (n, kind, ps, detail) in astq.write_events(func, lambda cid: (prog.resolve(cid) or None)):
        if kind == "call":
            eff = prog.call_effects(func, n)
            vis = [p for p in eff if visible(p)]
            if vis:
                out.append((n, "call %s writes %s" % (n.get("callee"), astq.path_str(vis[0]))))
        else:
            vis = [p for p in ps if visible(p)]
            if vis:
                out.append((n, "%s %s" % (kind, astq.path_str(vis[0]))))
    return out


def refusal_before_mutation(ctx, prog, func, rule, label):
    """every `return false` (constant) of func is reached without any write to non-local state before it."""
    cfg = func.cfg()
    refusals = [n for n in func.nodes() if n["k"] == "return" and astq.const_value(n.get("e")) == 0]
    if not refusals:
        ctx.fail(rule, "%s:has-refusal" % label, func.loc(), "%s has no refusal path (constant `return false`): a rewind that cannot be performed is no longer refused" % label)
        return
    writes = nonlocal_writes(prog, func)
    reach = cfg.reachable_blocks()
    for r in refusals:
        ctx.site()
        rp = cfg.position(r)
        if rp is None:
            # a bare `return false;` has its value as element
            continue
        bad = []
        for (w, desc) in writes:
            wp = cfg.position(w)
            if wp is None or wp[0] not in reach:
                continue
            if wp[0] == rp[0]:
                if wp[1] < rp[1]:
                    bad.append((w, desc))
            elif rp[0] in cfg.reachable_from(wp[0]):
                bad.append((w, desc))
        key = "%s:refusal@%s" % (label, guard_text(func, cfg, r))
        if bad:
            ctx.fail(rule, key, func.loc(r), "%s can refuse (return false) after it already performed: %s at %s"
                     % (label, bad[0][1], func.loc(bad[0][0])))
        else:
            ctx.ok(rule, key, func.loc(r), "%s refuses before any write to session state" % label)


def guard_text(func, cfg, node):
    """Readable, position-independent description of the conditions guarding node (used in instance keys)."""
    gs = cfg.guards_of(node)
    parts = []
    for (c, t) in sorted(gs):
        cn = func.node_by_id(c)
        if cn is None:
            continue
        parts.append(("" if t else "!") + astq.estr(cn))
    return " && ".join(sorted(parts))[:160] or "always"


# ---------------------------------------------------------------------------------------------------------------
# script switches of the session stepper, helper-aware: a switch is either a direct assignment to env.script or a call
# of a repository function whose write-set contains env.script (e.g. an EnterScript(env, next) helper)

def _env_field_written(prog, func, node, fld, al):
    """does this statement-level node write session field `fld` (directly or through a resolved callee)?"""
    k = node.get("k")
    lhs = None
    if k == "opcall" and node.get("op") in ("=", "+=", "-=") and node["args"]:
        lhs = node["args"][0]
    elif k in ("assign", "cassign"):
        lhs = node["lhs"]
    elif k == "un" and node.get("op") in ("++", "--"):
        lhs = node["e"]
    if lhs is not None:
        for p in astq.paths(lhs, al):
            if tuple(x for x in p[1:] if x not in ("*", "[]")) == (fld,):
                return True
        # chained assignment  a = b = c : the inner assignment is its own node
        return False
    if k == "mcall" and node.get("ext") and node.get("mconst") is False and node.get("obj") is not None and node.get("n") in ("clear", "assign", "swap", "resize"):
        # a library container of the session emptied / replaced in place
        for p in astq.paths(node["obj"], al):
            if tuple(x for x in p[1:] if x not in ("*", "[]")) == (fld,):
                return True
    if astq.is_call(node) and node.get("cid") and prog.resolve(node["cid"]):
        for p in prog.call_effects(func, node):
            if p[0][0] == "parm" and tuple(x for x in p[1:] if x not in ("*", "[]"))[:1] == (fld,):
                return True
    return False


def field_writers(prog, func, fld):
    al = astq.aliases(func)
    out = []
    for n in func.nodes():
        if n.get("k") in ("opcall", "assign", "cassign", "un", "call", "mcall"):
            if _env_field_written(prog, func, n, fld, al):
                out.append(n)
    return out


def script_switches(prog, stepper):
    """nodes of the stepper at which the session script is replaced"""
    return field_writers(prog, stepper, "script")


def func_calling(fb, file, callee_short, kind=("call", "mcall")):
    """the function defined in `file` that contains a call of `callee_short` (the tool's driver may be main itself or a
    worker function main delegates to)"""
    hits = []
    for f in fb.funcs.values():
        if f.file != file:
            continue
        for n in f.nodes():
            if n.get("k") in kind and n.get("n") == callee_short:
                hits.append(f)
                break
    if not hits:
        raise AnalysisBroken("no function in %s calls %s" % (file, callee_short))
    return hits[0]


def driver_of(fb, prog, file, callee_short):
    """the function of `file` that holds the tool's option handling and set-up and from which `callee_short` is reached: main
    itself, a worker main delegates to, or the caller of a small helper - the largest function of the file reaching the call"""
    inner = func_calling(fb, file, callee_short)
    cands = [inner]
    for g in fb.funcs.values():
        if g.file == file and g.body is not None and g is not inner and inner.id in prog.reachable([g]):
            cands.append(g)
    return max(cands, key=lambda g: len(g.nodes()))


def main_of(fb, file):
    m = [f for f in fb.funcs.values() if f.d.get("main") and f.file == file]
    if not m:
        raise AnalysisBroken("main() of %s not found" % file)
    return m[0]


def declared_names(func):
    """names of parameters, locals, and fields/globals referenced in func"""
    out = {p["n"] for p in func.params}
    for n in func.nodes():
        if n["k"] == "decl":
            for d in n["decls"]:
                out.add(d["n"])
        elif n["k"] in ("ref", "mem"):
            out.add(n["n"])
        elif n["k"] == "forrange" and n.get("var"):
            out.add(n["var"])
    return out


_ANCHOR_TABLE = None
_ANCHOR_RECORD = {}


def _slot(parent, child):
    for k, v in parent.items():
        if v is child:
            return k
        if isinstance(v, list):
            for i, x in enumerate(v):
                if x is child:
                    return "%s[%d]" % (k, i)
    return "?"


def fingerprints(func):
    """rename-invariant fingerprint of every local / parameter of func: canonical type, parameter position, and the sorted
    multiset of syntactic contexts of its uses (parent kind, child slot, callee / operator / member, grand-parent kind).
    {decl key: (current name, fingerprint)}"""
    import hashlib
    uses = {}
    names = {}
    tys = {}
    for i, p_ in enumerate(func.params):
        k = p_.get("d") or p_["n"]
        names[k] = p_["n"]
        tys[k] = "param%d:%s" % (i, (p_.get("ct") or p_.get("ty") or "?"))
    for n in func.nodes():
        if n["k"] == "decl":
            for d in n["decls"]:
                k = d.get("d") or d["n"]
                names[k] = d["n"]
                tys.setdefault(k, "local:%s:%s" % (d.get("ct") or d.get("ty") or "?", (d.get("init") or {}).get("k")))
        elif n["k"] == "forrange" and n.get("var"):
            k = n.get("vard") or n["var"]
            names[k] = n["var"]
            tys.setdefault(k, "rangevar:%s" % (n.get("varty") or "?"))
    for n in func.nodes():
        if n["k"] == "ref" and n.get("dk") in ("local", "parm") and (n.get("d") or n["n"]) in names:
            par = func.parent(n)
            gp = func.parent(par) if par is not None else None
            ctxt = "-"
            if par is not None:
                ctxt = "%s/%s/%s/%s" % (par.get("k"), _slot(par, n), par.get("n") or par.get("op") or par.get("callee") or "", gp.get("k") if gp is not None else "")
            uses.setdefault(n.get("d") or n["n"], []).append(ctxt)
    out = {}
    for k, nm in names.items():
        h = hashlib.sha256(("%s|%s" % (tys.get(k), "|".join(sorted(uses.get(k, []))))).encode()).hexdigest()[:16]
        out[k] = (nm, h)
    return out


def _rename(func, key, new):
    for p_ in func.params:
        if (p_.get("d") or p_["n"]) == key:
            p_["n"] = new
    for n in func.nodes():
        if n["k"] == "ref" and (n.get("d") or n["n"]) == key:
            n["n"] = new
        elif n["k"] == "decl":
            for d in n["decls"]:
                if (d.get("d") or d["n"]) == key:
                    d["n"] = new
        elif n["k"] == "forrange" and (n.get("vard") or n.get("var")) == key:
            n["var"] = new
    func._aliases = None
    if hasattr(func, "_single_defs"):
        func._single_defs = None


def require_names(func, names, rule):
    """The rules that follow match these identifiers by name. A local or parameter that was merely renamed is recognised by its
    rename-invariant fingerprint (type + use contexts, table spec/anchors.json generated from the confirmed tree by
    tools/gen_anchors.py) and given its anchor name back in the in-memory tree. If a name is gone for any other reason the code
    was restructured: that is 'analysis broken' (exit 2), never a VIOLATION."""
    global _ANCHOR_TABLE
    import json
    import os
    from ..facts import VERIF
    have = declared_names(func)
    fkey = "%s@%s" % (func.name, func.file)
    if os.environ.get("VERIF_RECORD_ANCHORS"):
        fps = fingerprints(func)
        byname = {nm: h for (nm, h) in fps.values()}
        _ANCHOR_RECORD.setdefault(fkey, {}).update({n: byname[n] for n in names if n in byname})
        with open(os.environ["VERIF_RECORD_ANCHORS"], "a") as fh:
            fh.write(json.dumps({fkey: {n: byname[n] for n in names if n in byname}}) + "\n")
    if _ANCHOR_TABLE is None:
        try:
            _ANCHOR_TABLE = json.load(open(os.path.join(VERIF, "spec", "anchors.json")))
        except Exception:
            _ANCHOR_TABLE = {}
    tab = _ANCHOR_TABLE.get(fkey, {})
    # a name the table knows as a local / parameter must still be declared as one: a member of the same name that the function
    # also mentions (`env->flags` next to the local `flags`) does not stand in for it
    have_local = {p["n"] for p in func.params} | {d["n"] for n in func.nodes() if n["k"] == "decl" for d in n["decls"]} | \
                 {n["var"] for n in func.nodes() if n["k"] == "forrange" and n.get("var")}
    missing = [n for n in names if (n not in have_local if n in tab else n not in have)]
    if missing:
        fps = fingerprints(func)
        for n in list(missing):
            want = tab.get(n)
            if not want:
                continue
            cands = [k for k, (nm, h) in fps.items() if h == want and nm not in names]
            if len(cands) == 1:
                _rename(func, cands[0], n)
                missing.remove(n)
    if missing:
        raise AnalysisBroken("%s: anchor name(s) %s not found in %s (%s) - renamed or restructured; update the anchor table" % (rule, missing, func.name, func.loc()))


def executed_flag(opstep):
    """the local that caches vfExec.all_true() in the operation step (called fExec today) -> its name"""
    for n in opstep.nodes():
        if n["k"] == "decl":
            for d in n["decls"]:
                i = d.get("init")
                if i is not None and i.get("k") == "mcall" and i.get("n") == "all_true" and "vfExec" in astq.estr(i.get("obj")):
                    return d["n"]
    raise AnalysisBroken("the operation step has no local initialised from vfExec.all_true() (the executed/unexecuted flag)")


def opcode_predicate_set(prog, func, cond, is_opcode):
    """The set of opcode enumerator names (qualified as the case labels are) for which `cond` holds, when cond is a pure
    predicate of the opcode variable - written inline (==, ||, ranges) or as a call of a repository helper taking the opcode
    (evaluated for each of the 256 values by G-FD / G-SYM). None if cond is not such a predicate."""
    from .. import fd, symx
    fb = prog.facts
    en = [e for e in fb.enums if e["name"].endswith("opcodetype")]
    if not en:
        raise AnalysisBroken("enum opcodetype not found")
    byval = {}
    for c in en[0]["consts"]:
        byval.setdefault(c["v"], []).append(c["n"])
    # every variable mentioned must be the opcode
    names = set()
    helper = None
    for x in walk(cond):
        if x["k"] == "ref" and x.get("dk") in ("local", "parm", "global"):
            if not is_opcode(x):
                return None
            names.add(x["n"])
        elif x["k"] == "mem":
            if not is_opcode(x):
                return None
        elif x["k"] in ("call",) and x is cond:
            fs = [f for f in prog.resolve(x["cid"]) if f.body is not None] if x.get("cid") and not x.get("ext") else []
            if len(fs) != 1 or len(x["args"]) != 1 or len(fs[0].params) != 1 or not is_opcode(x["args"][0]):
                return None
            helper = fs[0]
        elif x["k"] in ("call", "mcall"):
            return None
    if not names and helper is None:
        return None
    true_vals = []
    if helper is not None:
        X = symx.Explorer(prog, inline=lambda fn, n: fn.file == helper.file)
        for v in range(256):
            try:
                outs = [o for o in X.explore(helper, params={helper.params[0]["n"]: symx.C(v)}) if o.status == "ret"]
            except symx.Unsupported:
                return None
            rs = {o.ret for o in outs}
            if len(rs) != 1 or not symx.is_const(list(rs)[0]):
                return None
            if list(rs)[0][1]:
                true_vals.append(v)
    else:
        for v in range(256):
            try:
                if fd.ev(cond, {n: v for n in names}):
                    true_vals.append(v)
            except fd.Unknown:
                return None
    out = set()
    for v in true_vals:
        for n in byval.get(v, ["0x%02x" % v]):
            out.add(n)
    return out


# ---------------------------------------------------------------------------------------------------------------- de-hoisting
from ..astq import single_defs as _single_defs, expand  # noqa: E402,F401


def xstr(func, node, keep=()):
    return astq.estr(expand(func, node, keep))


def call_result_edges(func, cfg, call):
    """(block reached when the boolean result of `call` is true, block reached when it is false): the call is the branch
    condition itself, or its result is held in a local whose only non-constant definition is this call (`ok = f(..)` inside a
    try, `if (!ok)` after it) and that local is the branch condition. (None, None) when the result is not branched on."""
    succ = fail = None
    for (a, s_, c, t) in cfg.cond_edges():
        if c == call["id"]:
            if t:
                succ = s_
            else:
                fail = s_
    if succ is not None and fail is not None:
        return succ, fail
    holder = None
    for n in func.nodes():
        if n["k"] == "assign" and n["rhs"] is call and n["lhs"].get("k") == "ref" and n["lhs"].get("dk") == "local":
            holder = n["lhs"]["d"]
        if n["k"] == "decl":
            for d in n["decls"]:
                if d.get("init") is call:
                    holder = d["d"]
    if holder is None:
        return None, None
    for n in func.nodes():
        if n["k"] == "assign" and n["lhs"].get("k") == "ref" and n["lhs"].get("d") == holder and n["rhs"] is not call and astq.const_value(n["rhs"]) is None:
            return None, None      # another non-constant definition: the local is not (only) the call's result
    for (a, s_, c, t) in cfg.cond_edges():
        cn = func.node_by_id(c)
        while cn is not None and cn.get("k") in ("cast", "paren"):
            cn = cn["e"]
        if cn is not None and cn.get("k") == "ref" and cn.get("d") == holder:
            if t:
                succ = s_
            else:
                fail = s_
    return succ, fail


def null_test_edges(func, cfg, holder):
    """(block reached where the pointer local `holder` (declaration key) was found non-null, block where it was found null):
    `if (p)`, `if (!p)`, `p == NULL`, `NULL != p`, `p != nullptr` - any spelling of the test. (None, None) when never tested."""
    def strip(e):
        while e is not None and e.get("k") in ("cast", "paren"):
            e = e["e"]
        return e

    def is_holder(e):
        e = strip(e)
        return e is not None and e.get("k") == "ref" and e.get("d") == holder

    def is_null(e):
        e = strip(e)
        return e is not None and (e.get("k") == "null" or (e.get("k") == "int" and e.get("v") == 0) or astq.const_value(e) == 0)
    nonnull = null = None
    for (a, s_, c, t) in cfg.cond_edges():
        cn = strip(func.node_by_id(c))
        if cn is None:
            continue
        pol = None
        if is_holder(cn):
            pol = t
        elif cn.get("k") == "bin" and cn.get("op") in ("==", "!=") and ((is_holder(cn["lhs"]) and is_null(cn["rhs"])) or (is_holder(cn["rhs"]) and is_null(cn["lhs"]))):
            pol = t if cn["op"] == "!=" else (not t)
        if pol is None:
            continue
        if pol:
            nonnull = s_
        else:
            null = s_
    return nonnull, null
