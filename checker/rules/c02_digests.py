"""C02 digest layout on terms (R02.3 / R02.7): the byte stream every digest function hashes, as a Herbrand term per path
(G-SYM), compared with the term BIP341/342, BIP143 and the legacy SIGHASH rules prescribe for each hash type 0..255.

The expected streams below are a transcription of the BIPs (field order, field types, the hash-type dependent selection,
single vs double SHA256); the field *names* come from spec/digests.json.  Parameters are bound by position, so local names,
helper extraction/inlining, loop style (range-for or index), early-return vs else and hoisted sub-expressions do not matter.
"""
from .. import symx
from ..symx import C
from ..facts import AnalysisBroken

SIGVER = {"BASE": 0, "WITNESS_V0": 1, "TAPROOT": 2, "TAPSCRIPT": 3}


def F(base, *names):
    t = base
    for n in names:
        t = ("f", t, n)
    return t


def IDX(vec, i):
    return ("ap", "[]", vec, i)


def SIZE(vec):
    return ("ap", "m:size", vec)


HW = ("ap", "new:HashWriter")
PREV = ("prev", 0)
ZERO256 = ("ap", "new:uint256")


def I(term, ty):
    return ("op", "<<", term, ("s", ty))


def items_term(base, items):
    t = base
    for it in items:
        t = ("ap", "mut:" + it[1], t) + tuple(it[2:])
    return t


def sha_helper(vec, item, ty, fin="m:GetSHA256"):
    return ("ap", fin, ("ap", "loopvar", vec, items_term(PREV, [I(item(("elem", vec)), ty)]), HW, C(0)))


def helper_terms(tx, spent):
    return {
        "GetPrevoutsSHA256": sha_helper(F(tx, "vin"), lambda e: F(e, "prevout"), "COutPoint"),
        "GetSequencesSHA256": sha_helper(F(tx, "vin"), lambda e: F(e, "nSequence"), "unsigned int"),
        "GetOutputsSHA256": sha_helper(F(tx, "vout"), lambda e: e, "CTxOut"),
        "GetSpentAmountsSHA256": sha_helper(spent, lambda e: F(e, "nValue"), "long"),
        "GetSpentScriptsSHA256": sha_helper(spent, lambda e: F(e, "scriptPubKey"), "CScript"),
    }


def flatten(t):
    """term of a stream -> ([items], base); items: ("op", name, args...) | ("loop", key, [items])"""
    items = []
    while isinstance(t, tuple) and t and t[0] == "ap":
        if t[1].startswith("mut:"):
            items.append(("op", t[1][4:]) + tuple(t[3:]))
            t = t[2]
        elif t[1] == "loopvar" and len(t) == 6:
            # loopvar(key, term of one iteration relative to prev, term before the loop)
            sub, _ = flatten(t[3])
            items.append(("loop", t[2], sub))
            t = t[4]
        elif t[1].startswith("out:") and len(t) >= 3:
            items.append(("op", "call:" + t[1][4:].split("#")[0]) + tuple(t[3:]))
            t = t[2]
        else:
            break
    items.reverse()
    return items, t


def subst(t, a, b):
    """replace every occurrence of term a by term b (tuples and lists, recursively)"""
    if t == a:
        return b
    if isinstance(t, tuple):
        return tuple(subst(x, a, b) for x in t)
    if isinstance(t, list):
        return [subst(x, a, b) for x in t]
    return t


def show_item(it):
    if it is None:
        return "<nothing>"
    if it[0] == "loop":
        return "for each %s { %s }" % (symx.show(it[1]), "; ".join(show_item(x) for x in it[2]))
    args = it[2:]
    if args and isinstance(args[-1], tuple) and args[-1][0] == "s":
        return "%s %s : %s" % (it[1], ", ".join(symx.show(a) for a in args[:-1]), args[-1][1])
    return "%s %s" % (it[1], ", ".join(symx.show(a) for a in args))


def first_diff(got, want):
    for i in range(max(len(got), len(want))):
        g = got[i] if i < len(got) else None
        w = want[i] if i < len(want) else None
        if g != w:
            return i, g, w
    return None


def cond_value(o, term):
    for (t, v) in o.conds:
        if t == term:
            return v
    return None


def bind(func, canon, fixed=None):
    """bind parameters by position to canonical atoms -> params dict for Explorer.explore"""
    if len(func.params) != len(canon):
        raise AnalysisBroken("%s takes %d parameters, the rule was written for %d (%s)" % (func.name, len(func.params), len(canon), canon))
    out = {}
    for p, c in zip(func.params, canon):
        out[p["n"]] = (fixed or {}).get(c, ("a", c))
    return out


def require_fields(fb, table):
    missing = []
    for rec, names in table.items():
        have = set(fb.record_fields(rec))
        missing += ["%s::%s" % (rec, n) for n in names if n not in have]
    if missing:
        raise AnalysisBroken("R02.3: anchor name(s) %s not found - renamed or restructured; update spec/digests.json and the anchor table" % missing)


# ------------------------------------------------------------------------------------------------ BIP341 / BIP342
def bip341_expected(h, tapscript, annex, single_cached):
    tx, cache, ex, pos = ("a", "tx_to"), ("a", "cache"), ("a", "execdata"), ("a", "in_pos")
    out_t = 1 if h == 0 else (h & 3)
    acp = bool(h & 0x80)
    ext = 1 if tapscript else 0
    e = [("epoch (0x00)", I(C(0), "unsigned char")), ("hash_type", I(C(h), "unsigned char")),
         ("nVersion", I(F(tx, "nVersion"), "int")), ("nLockTime", I(F(tx, "nLockTime"), "unsigned int"))]
    if not acp:
        e += [("sha_prevouts", I(F(cache, "m_prevouts_single_hash"), "uint256")), ("sha_amounts", I(F(cache, "m_spent_amounts_single_hash"), "uint256")),
              ("sha_scriptpubkeys", I(F(cache, "m_spent_scripts_single_hash"), "uint256")), ("sha_sequences", I(F(cache, "m_sequences_single_hash"), "uint256"))]
    if out_t == 1:
        e.append(("sha_outputs", I(F(cache, "m_outputs_single_hash"), "uint256")))
    e.append(("spend_type", I(C(ext * 2 + (1 if annex else 0)), "unsigned char")))
    if acp:
        e += [("outpoint", I(F(IDX(F(tx, "vin"), pos), "prevout"), "COutPoint")), ("amount + scriptPubKey", I(IDX(F(cache, "m_spent_outputs"), pos), "CTxOut")),
              ("nSequence", I(F(IDX(F(tx, "vin"), pos), "nSequence"), "unsigned int"))]
    else:
        e.append(("input_index", I(pos, "unsigned int")))
    if annex:
        e.append(("sha_annex", I(F(ex, "m_annex_hash"), "uint256")))
    if out_t == 3:
        if single_cached:
            v = ("ap", "m:value", F(ex, "m_output_hash"))
        else:
            v = ("ap", "m:value", ("ap", "m:GetSHA256", items_term(HW, [I(IDX(F(tx, "vout"), pos), "CTxOut")])))
        e.append(("sha_single_output", I(v, "uint256")))
    if tapscript:
        e += [("tapleaf_hash (BIP342)", I(F(ex, "m_tapleaf_hash"), "uint256")), ("key_version (BIP342)", I(C(0), "unsigned char")),
              ("codesep_pos (BIP342)", I(F(ex, "m_codeseparator_pos"), "unsigned int"))]
    return e


def all_bip341_items():
    seen = {}
    for ts in (0, 1):
        for h in (0, 1, 2, 3, 0x81, 0x82, 0x83):
            for an in (0, 1):
                for sc in (0, 1):
                    for (name, it) in bip341_expected(h, ts, an, sc):
                        if name not in ("spend_type", "hash_type", "epoch (0x00)", "key_version (BIP342)"):
                            seen.setdefault(it, name)
    return seen


def run_bip341(ctx, fb, prog, spec, X):
    shs = fb.fns("SignatureHashSchnorr")
    if not shs:
        raise AnalysisBroken("SignatureHashSchnorr not found")
    names = [e["bip"] for e in spec["bip341"]]
    index = {n: i for i, n in enumerate(names)}
    blame = {}
    count_bad = []
    hasher_bad = []
    fin_msg_bad = []
    fin_single_bad = []
    valid = set()
    leak = []
    known = all_bip341_items()
    canon = ["hash_out", "execdata", "tx_to", "in_pos", "hash_type", "sigversion", "cache", "mdb"]
    nout = 0
    for sh in shs:
        for sv in ("TAPROOT", "TAPSCRIPT"):
            for h in range(256):
                try:
                    outs = X.explore(sh, params=bind(sh, canon, {"hash_type": C(h), "sigversion": C(SIGVER[sv])}))
                except symx.Unsupported as e:
                    raise AnalysisBroken("R02.3: SignatureHashSchnorr: %s" % e)
                hv = [p["n"] for p in sh.params][0]
                for o in outs:
                    if o.status != "ret":
                        continue
                    nout += 1
                    ho = X.var(o, hv)
                    if o.ret == C(0):
                        if ho != ("a", "hash_out"):
                            leak.append((sv, h))
                        continue
                    if o.ret != C(1):
                        raise AnalysisBroken("R02.3: SignatureHashSchnorr returns %s" % symx.show(o.ret))
                    valid.add(h)
                    if not (isinstance(ho, tuple) and ho[0] == "ap" and ho[1].startswith("m:Get") and len(ho) == 3):
                        fin_msg_bad.append((sv, h, symx.show(ho)[:80]))
                        continue
                    if ho[1] != "m:GetSHA256":
                        fin_msg_bad.append((sv, h, ho[1][2:]))
                    got, base = flatten(ho[2])
                    if base != ("a", "HASHER_TAPSIGHASH"):
                        hasher_bad.append(symx.show(base))
                    annex = cond_value(o, F(("a", "execdata"), "m_annex_present"))
                    cached = cond_value(o, ("ap", "m:operator bool", F(("a", "execdata"), "m_output_hash")))
                    exp = bip341_expected(h, sv == "TAPSCRIPT", bool(annex), bool(cached))
                    want = [it for (_, it) in exp]
                    d = first_diff(got, want)
                    if d is None:
                        continue
                    i, g, w = d
                    # single-output finaliser only?
                    wname = exp[i][0] if i < len(exp) else None
                    gname = known.get(g)
                    if wname == "sha_single_output" and g is not None and g[0] == "op" and len(g) == 4 and isinstance(g[2], tuple) and symx.contains(g[2], IDX(F(("a", "tx_to"), "vout"), ("a", "in_pos"))):
                        fin_single_bad.append((sv, h, show_item(g)))
                    if gname is not None and gname not in [n for (n, _) in exp]:
                        key = gname
                        why = "streams %s for hash type 0x%02x (%s%s) where BIP341 has no such field" % (show_item(g), h, sv, ", annex" if annex else "")
                    elif wname is not None:
                        key = wname
                        why = "for hash type 0x%02x (%s%s) field %d must be %s [%s]; the code streams %s" % (h, sv, ", annex" if annex else "", i, wname, show_item(w), show_item(g))
                    else:
                        count_bad.append("for hash type 0x%02x (%s) %d extra operand(s) after the last BIP341 field: %s" % (h, sv, len(got) - len(want), show_item(g)))
                        continue
                    blame.setdefault(key, why)
    if nout == 0:
        raise AnalysisBroken("R02.3: SignatureHashSchnorr has no returning path")
    ctx.site(nout)
    loc = shs[0].loc()
    for n in names:
        ctx.inst(n not in blame, "R02.3", "bip341#%02d:%s" % (index[n], n), loc, "field %s is streamed exactly when and where BIP341/342 prescribe, with its type, for all 2x256 (version, hash type) and both annex states" % n,
                 "BIP341 message: %s" % blame.get(n, ""))
    ctx.inst(not count_bad, "R02.3", "bip341-field-count", loc, "no operand beyond the BIP341/342 fields", "; ".join(count_bad[:2]))
    ctx.inst(not hasher_bad, "R02.3", "bip341-tagged-hasher", loc, "the message is hashed with TapSighash", "the message is hashed into %s; BIP341 uses the TapSighash tagged hasher" % sorted(set(hasher_bad))[:2])
    want_valid = spec["bip341_valid_hash_types"]
    ctx.inst(sorted(valid) == want_valid and not leak, "R02.3", "table:valid-hash-types", loc, "exactly the hash types %s produce a digest; every other one returns false without touching hash_out" % want_valid,
             "hash types producing a digest are %s, BIP341 defines %s%s" % (sorted(valid)[:12], want_valid, ("; hash_out is written on a failing path for %s" % leak[:3]) if leak else ""))
    ctx.rule("R02.7", "finalisers: single SHA256 (GetSHA256) for the BIP341 message, its single-output hash and the five sub-hash helpers; double SHA256 (GetHash) for the BIP143 / legacy digests and the BIP143 single-output hash")
    ctx.inst(not fin_msg_bad, "R02.7", "finaliser:bip341 message", loc, "the BIP341 message is finalised with the single tagged SHA256",
             "bip341 message is finalised with %s; the BIP prescribes GetSHA256 (single vs double SHA256): every signature committing to it is rejected" % fin_msg_bad[:2])
    ctx.inst(not fin_single_bad, "R02.7", "finaliser:bip341 single output", loc, "sha_single_output is the single SHA256 of the output",
             "bip341 single output is computed as %s; the BIP prescribes the single SHA256 (GetSHA256) of the serialised output: every SIGHASH_SINGLE taproot signature is rejected" % fin_single_bad[:1])


# ------------------------------------------------------------------------------------------------ helpers / binding
def run_helpers(ctx, fb, prog, spec, X):
    tx, spent = ("a", "txTo"), ("a", "outputs_spent")
    want = helper_terms(tx, spent)
    for name in sorted(spec["sha_helpers"]):
        fs = [f_ for f_ in fb.funcs.values() if f_.short == name and f_.file == "script/interpreter.cpp" and f_.body is not None]
        ctx.site()
        if not fs:
            raise AnalysisBroken("R02.3: anchor name(s) ['%s'] not found - renamed or restructured" % name)
        bad = None
        badfin = None
        for f in fs:
            if len(f.params) != 1:
                raise AnalysisBroken("R02.3: %s takes %d parameters" % (name, len(f.params)))
            atom = spent if "Spent" in name else tx
            try:
                outs = [o for o in X.explore(f, params={f.params[0]["n"]: atom}) if o.status == "ret"]
            except symx.Unsupported as e:
                raise AnalysisBroken("R02.3: %s: %s" % (name, e))
            if not outs:
                raise AnalysisBroken("R02.3: %s has no returning path" % name)
            for o in outs:
                if o.ret != want[name]:
                    if isinstance(o.ret, tuple) and len(o.ret) == 3 and o.ret[0] == "ap" and o.ret[1] != want[name][1] and o.ret[2] == want[name][2]:
                        badfin = o.ret[1][2:]
                    else:
                        bad = symx.show(o.ret)
        ctx.inst(bad is None, "R02.3", "helper=" + name, fs[0].loc(), "%s = %s" % (name, symx.show(want[name])),
                 "%s computes %s; BIP341 defines it as %s" % (name, bad, symx.show(want[name])))
        ctx.inst(badfin is None, "R02.7", "finaliser:" + name, fs[0].loc(), "%s returns the single SHA256" % name, "%s is finalised with %s; BIP341 sub-hashes are single SHA256" % (name, badfin))
    inits = [f for f in fb.fns("PrecomputedTransactionData::Init") if f.body is not None]
    if not inits:
        raise AnalysisBroken("PrecomputedTransactionData::Init not found")
    this = ("a", "this")
    tx = ("a", "txTo")
    hx = helper_terms(tx, ("a", "spent_outputs"))
    wantb = {}
    for field, src in spec["binding"].items():
        wantb[field] = hx[src] if src in hx else ("ap", "SHA256Uint256", hx[spec["binding"][src]])
    badb = {}
    for f in inits:
        if len(f.params) != 3:
            raise AnalysisBroken("R02.3: PrecomputedTransactionData::Init takes %d parameters" % len(f.params))
        try:
            outs = [o for o in X.explore(f, this=this, params={f.params[0]["n"]: tx, f.params[1]["n"]: ("a", "spent_outputs"), f.params[2]["n"]: C(1)}) if o.status in ("end", "ret")]
        except symx.Unsupported as e:
            raise AnalysisBroken("R02.3: PrecomputedTransactionData::Init: %s" % e)
        if not outs:
            raise AnalysisBroken("R02.3: PrecomputedTransactionData::Init(force) has no completing path")
        for o in outs:
            for field, w in wantb.items():
                g = o.field(this, field)
                if g != w:
                    badb[field] = symx.show(g)
    for field in sorted(wantb):
        ctx.site()
        ctx.inst(field not in badb, "R02.3", "binding=" + field, inits[0].loc(), "%s = %s" % (field, symx.show(wantb[field])[:120]),
                 "%s is computed as %s; it must be %s" % (field, badb.get(field), symx.show(wantb[field])))


# ------------------------------------------------------------------------------------------------ BIP143 + legacy
def bip143_expected(h, ready, in_range):
    tx, cache, nIn = ("a", "txTo"), ("a", "cache"), ("a", "nIn")
    base = h & 0x1f
    acp = bool(h & 0x80)
    hx = helper_terms(tx, None)

    def sub(field, helper):
        return F(cache, field) if ready else ("ap", "SHA256Uint256", hx[helper])
    hp = ZERO256 if acp else sub("hashPrevouts", "GetPrevoutsSHA256")
    hs = ZERO256 if (acp or base in (2, 3)) else sub("hashSequence", "GetSequencesSHA256")
    if base not in (2, 3):
        ho = sub("hashOutputs", "GetOutputsSHA256")
    elif base == 3 and in_range:
        ho = ("ap", "m:GetHash", items_term(HW, [I(IDX(F(tx, "vout"), nIn), "CTxOut")]))
    else:
        ho = ZERO256
    return [I(F(tx, "nVersion"), "int"), I(hp, "uint256"), I(hs, "uint256"), I(F(IDX(F(tx, "vin"), nIn), "prevout"), "COutPoint"), I(("a", "scriptCode"), "CScript"),
            I(("a", "amount"), "long"), I(F(IDX(F(tx, "vin"), nIn), "nSequence"), "unsigned int"), I(ho, "uint256"), I(F(tx, "nLockTime"), "unsigned int"), I(C(h), "int")]


def legacy_expected(h, it_is_nin):
    """items of CTransactionSignatureSerializer::Serialize(s) for hash type h; it_is_nin: the summarised loop counter equals nIn"""
    tx, nIn, it = ("a", "txTo"), ("a", "nIn"), ("it", 0)
    base = h & 0x1f
    acp, single, none = bool(h & 0x80), base == 3, base == 2
    NI = C(1) if acp else SIZE(F(tx, "vin"))
    x = nIn if (acp or it_is_nin) else it
    other = (x != nIn)
    inp = [I(F(IDX(F(tx, "vin"), x), "prevout"), "COutPoint")]
    inp.append(I(("ap", "new:CScript"), "CScript") if other else ("op", "call:SerializeScriptCode"))
    inp.append(I(C(0), "int") if (other and (single or none)) else I(F(IDX(F(tx, "vin"), x), "nSequence"), "unsigned int"))
    items = [I(F(tx, "nVersion"), "int"), ("op", "WriteCompactSize", NI, ("s", "unsigned int")), ("loop", ("ap", "while", ("ap", "<", it, NI)), inp)]
    NO = C(0) if none else (symx.lin_add(nIn, C(1)) if single else SIZE(F(tx, "vout")))
    items.append(("op", "WriteCompactSize", NO, ("s", "unsigned int")))
    if not none:
        y = nIn if it_is_nin else it
        outp = [I(("ap", "new:CTxOut"), "CTxOut")] if (single and y != nIn) else [I(IDX(F(tx, "vout"), y), "CTxOut")]
        items.append(("loop", ("ap", "while", ("ap", "<", it, NO)), outp))
    items.append(I(F(tx, "nLockTime"), "unsigned int"))
    return items


def run_sighash(ctx, fb, prog, spec, X):
    sgs = [f for f in fb.fns("SignatureHash") if f.file == "script/interpreter.cpp" and f.body is not None]
    if not sgs:
        raise AnalysisBroken("SignatureHash not found")
    canon = ["scriptCode", "txTo", "nIn", "nHashType", "amount", "sigversion", "cache"]
    order_bad, sel_bad, single_bad, fin_bad, fin_single_bad = [], [], [], [], []
    legacy_top_bad, legacy_fin_bad, legacy_one_bad = [], [], []
    tx, nIn = ("a", "txTo"), ("a", "nIn")
    in_range_t = ("ap", "<", nIn, SIZE(F(tx, "vout")))
    nout = 0
    sers = {}
    for sg in sgs:
        for h in range(256):
            try:
                outs = X.explore(sg, params=bind(sg, canon, {"nHashType": C(h), "sigversion": C(SIGVER["WITNESS_V0"])}))
            except symx.Unsupported as e:
                raise AnalysisBroken("R02.3: SignatureHash: %s" % e)
            for o in outs:
                if o.status != "ret":
                    continue
                nout += 1
                r = o.ret
                if not (isinstance(r, tuple) and r[0] == "ap" and r[1].startswith("m:Get") and len(r) == 3):
                    order_bad.append("hash type 0x%02x: returns %s" % (h, symx.show(r)[:100]))
                    continue
                if r[1] != "m:GetHash":
                    fin_bad.append(r[1][2:])
                got, base = flatten(r[2])
                ready = bool(cond_value(o, ("a", "cache"))) and bool(cond_value(o, F(("a", "cache"), "m_bip143_segwit_ready")))
                inr = cond_value(o, in_range_t)
                want = bip143_expected(h, ready, bool(inr))
                if base != HW:
                    order_bad.append("hash type 0x%02x: the digest is streamed into %s, not a fresh hasher" % (h, symx.show(base)))
                d = first_diff(got, want)
                if d is None:
                    continue
                i, g, w = d
                msg = "hash type 0x%02x: field %d must be [%s]; the code streams [%s]" % (h, i, show_item(w), show_item(g))
                if len(got) != len(want) or i not in (1, 2, 7):
                    order_bad.append(msg)
                elif i == 7 and (h & 0x1f) == 3:
                    if inr and g is not None and len(g) == 4 and isinstance(g[2], tuple) and g[2][0] == "ap" and g[2][1].startswith("m:Get") and g[2][1] != "m:GetHash" and g[2][2:] == w[2][2:]:
                        fin_single_bad.append("`%s`" % symx.show(g[2])[:90])
                    else:
                        single_bad.append(msg + (" (no range test nIn < vout.size() decided on this path)" if inr is None else ""))
                else:
                    sel_bad.append(msg)
            # legacy
            try:
                outs = X.explore(sg, params=bind(sg, canon, {"nHashType": C(h), "sigversion": C(SIGVER["BASE"])}))
            except symx.Unsupported as e:
                raise AnalysisBroken("R02.3: SignatureHash (legacy): %s" % e)
            for o in outs:
                if o.status != "ret":
                    continue
                nout += 1
                r = o.ret
                inr = cond_value(o, in_range_t)
                if (h & 0x1f) == 3 and inr is False:
                    if r != F(("a", "uint256"), "ONE") and r != ("a", "ONE") and not (isinstance(r, tuple) and symx.show(r).endswith("ONE")):
                        legacy_one_bad.append("hash type 0x%02x with nIn >= vout.size() returns %s" % (h, symx.show(r)[:60]))
                    continue
                if not (isinstance(r, tuple) and r[0] == "ap" and r[1].startswith("m:Get") and len(r) == 3):
                    legacy_top_bad.append("hash type 0x%02x: returns %s" % (h, symx.show(r)[:100]))
                    continue
                if r[1] != "m:GetHash":
                    legacy_fin_bad.append(r[1][2:])
                got, base = flatten(r[2])
                ok = base == HW and len(got) == 2 and got[1] == I(C(h), "int") and got[0][1] == "<<" and isinstance(got[0][2], tuple) and got[0][2][0] == "ap" and got[0][2][1].startswith("obj:") and "CTransactionSignatureSerializer" in got[0][2][1]
                if not ok:
                    legacy_top_bad.append("hash type 0x%02x: the legacy digest streams [%s]; it must be [serializer(txTo, scriptCode, nIn, hash type)] [<< %d : int]" % (h, "; ".join(show_item(x) for x in got), h))
                    continue
                obj = got[0][2][2]
                flags = tuple(o.heap.get((obj, k_)) for k_ in ("txTo", "scriptCode", "nIn", "fAnyoneCanPay", "fHashSingle", "fHashNone"))
                sers.setdefault(h, set()).add(flags)
    if nout == 0:
        raise AnalysisBroken("R02.3: SignatureHash has no returning path")
    ctx.site(nout)
    loc = sgs[0].loc()
    ctx.inst(not order_bad, "R02.3", "bip143-field-order", loc, "the segwit v0 digest streams the ten BIP143 fields in order with their types, for all 256 hash types", "; ".join(order_bad[:2]))
    ctx.inst(not sel_bad, "R02.3", "table:bip143-subhash-selection", loc, "hashPrevouts / hashSequence / hashOutputs(all) are committed (cached or recomputed) for exactly the hash types BIP143 names, zero otherwise (256 tabulated)",
             "BIP143 sub-hash selection differs from the BIP: %s" % "; ".join(sel_bad[:2]))
    ctx.inst(not single_bad, "R02.3", "bip143-single-output", loc, "SIGHASH_SINGLE commits to the double SHA256 of the output at the input's index when it exists, zero otherwise", "; ".join(single_bad[:2]))
    ctx.inst(not fin_bad, "R02.7", "finaliser:bip143 digest", loc, "the BIP143 digest is the double SHA256", "the BIP143 digest is finalised with %s; BIP143 prescribes the double SHA256 (GetHash)" % sorted(set(fin_bad)))
    ctx.inst(not fin_single_bad, "R02.7", "finaliser:bip143 single output", loc, "the BIP143 single-output hash is the double SHA256",
             "SignatureHash finalises the BIP143 single-output hash as %s: BIP143 prescribes the double SHA256 (GetHash), so every SIGHASH_SINGLE segwit signature is rejected" % fin_single_bad[0] if fin_single_bad else "")
    ctx.inst(not legacy_fin_bad, "R02.7", "finaliser:legacy digest", loc, "the legacy digest is the double SHA256", "the legacy digest is finalised with %s" % sorted(set(legacy_fin_bad)))
    ctx.inst(not legacy_top_bad, "R02.3", "legacy-digest", loc, "legacy digest = Hash(serializer(txTo, scriptCode, nIn, hash type) || hash type as int32)", "; ".join(legacy_top_bad[:2]))
    ctx.inst(not legacy_one_bad, "R02.3", "legacy-single-out-of-range", loc, "SIGHASH_SINGLE without a matching output signs the constant ONE", "; ".join(legacy_one_bad[:2]))
    # the flags the serializer is constructed with
    bad = []
    for h in range(256):
        want = (tx, ("a", "scriptCode"), nIn, C(1 if h & 0x80 else 0), C(1 if (h & 0x1f) == 3 else 0), C(1 if (h & 0x1f) == 2 else 0))
        for fl in sers.get(h, ()):
            norm = tuple((C(1 if x[1] else 0) if symx.is_const(x) else x) if x is not None else None for x in fl)
            if norm != want:
                bad.append((h, [symx.show(x) if x is not None else None for x in fl[3:]]))
    ctx.site(256)
    ctx.inst(not bad and len(sers) >= 250, "R02.3", "table:legacy-flags", loc, "the serializer is built from (txTo, scriptCode, nIn) with fAnyoneCanPay / fHashSingle / fHashNone = h&0x80 / (h&0x1f)==3 / (h&0x1f)==2 for all 256 hash types",
             "legacy serializer flags differ from the SIGHASH definition at hash types %s" % bad[:4])
    # the serializer itself
    ser = [f for f in fb.funcs.values() if "CTransactionSignatureSerializer" in f.name and f.short == "Serialize" and f.body is not None]
    if not ser:
        raise AnalysisBroken("legacy signature serializer not found")
    this = ("a", "ser")
    blame = {}
    npaths = 0
    for sf in ser:
        if len(sf.params) != 1:
            raise AnalysisBroken("R02.3: CTransactionSignatureSerializer::Serialize takes %d parameters" % len(sf.params))
        sp = sf.params[0]["n"]
        for h in range(256):
            heap = {(this, "txTo"): tx, (this, "scriptCode"): ("a", "scriptCode"), (this, "nIn"): nIn, (this, "fAnyoneCanPay"): C(1 if h & 0x80 else 0),
                    (this, "fHashSingle"): C(1 if (h & 0x1f) == 3 else 0), (this, "fHashNone"): C(1 if (h & 0x1f) == 2 else 0)}
            try:
                outs = X.explore(sf, this=this, params={sp: ("a", "s")}, heap=heap)
            except symx.Unsupported as e:
                raise AnalysisBroken("R02.3: legacy serializer: %s" % e)
            for o in outs:
                if o.status not in ("end", "ret"):
                    continue
                npaths += 1
                got, base = flatten(X.var(o, sp))
                eqv = cond_value(o, ("eq",) + tuple(sorted((("it", 0), nIn), key=repr)))
                want = legacy_expected(h, bool(eqv))
                if eqv:
                    got = subst(got, ("it", 0), nIn)      # on this path the summarised counter equals nIn
                    want = subst(want, ("it", 0), nIn)
                if base != ("a", "s"):
                    blame.setdefault("legacy-field-order", "the serializer writes into %s" % symx.show(base))
                    continue
                d = first_diff(got, want)
                if d is None:
                    continue
                i, g, w = d
                if g is not None and w is not None and g[0] == "loop" and w[0] == "loop":
                    which = "legacy-SerializeInput" if i == 2 else "legacy-SerializeOutput"
                    if g[1] != w[1]:
                        blame.setdefault("legacy-counts", "hash type 0x%02x: the %s loop runs %s; it must run %s" % (h, "input" if i == 2 else "output", symx.show(g[1]), symx.show(w[1])))
                    else:
                        dd = first_diff(g[2], w[2])
                        blame.setdefault(which, "hash type 0x%02x, %s index %s nIn: element %d must be [%s]; the code writes [%s]" % (
                            h, "input" if i == 2 else "output", "==" if eqv else "!=", dd[0], show_item(dd[2]), show_item(dd[1])))
                elif w is not None and w[0] == "op" and w[1] == "WriteCompactSize" or (g is not None and g[0] == "op" and g[1] == "WriteCompactSize"):
                    blame.setdefault("legacy-counts", "hash type 0x%02x: item %d must be [%s]; the code writes [%s]" % (h, i, show_item(w), show_item(g)))
                else:
                    blame.setdefault("legacy-field-order", "hash type 0x%02x: item %d must be [%s]; the code writes [%s]" % (h, i, show_item(w), show_item(g)))
    if npaths == 0:
        raise AnalysisBroken("R02.3: the legacy serializer has no completing path")
    ctx.site(npaths)
    sloc = ser[0].loc()
    for key, okmsg in (("legacy-field-order", "legacy serialisation = nVersion, #inputs, inputs, #outputs, outputs, nLockTime"),
                       ("legacy-counts", "inputs: 1 if ANYONECANPAY else all; outputs: 0 if NONE, nIn+1 if SINGLE, else all"),
                       ("legacy-SerializeInput", "per input: prevout; scriptCode for the signed input, empty script otherwise; nSequence, or 0 for other inputs under SINGLE/NONE; with ANYONECANPAY the one input is the signed one"),
                       ("legacy-SerializeOutput", "per output: the output, or an empty CTxOut for the other indices under SINGLE")):
        ctx.inst(key not in blame, "R02.3", key, sloc, okmsg, "legacy sighash serialisation: %s" % blame.get(key, ""))


def run(ctx, fb, prog, spec):
    require_fields(fb, {
        "ScriptExecutionData": ["m_annex_present", "m_annex_hash", "m_output_hash", "m_tapleaf_hash", "m_codeseparator_pos"],
        "PrecomputedTransactionData": ["m_prevouts_single_hash", "m_spent_amounts_single_hash", "m_spent_scripts_single_hash", "m_sequences_single_hash", "m_outputs_single_hash",
                                       "m_spent_outputs", "hashPrevouts", "hashSequence", "hashOutputs", "m_bip143_segwit_ready"],
        "CTransaction": ["nVersion", "nLockTime", "vin", "vout"], "CTxIn": ["prevout", "nSequence"], "CTxOut": ["nValue", "scriptPubKey"],
    })
    no_inline = {"btc_sighash_logf", "btc_sign_logf", "SerializeScriptCode", "print_vec"}
    X = symx.Explorer(prog, inline=lambda fn, n: fn.file == "script/interpreter.cpp" and fn.short not in no_inline)
    run_bip341(ctx, fb, prog, spec, X)
    run_helpers(ctx, fb, prog, spec, X)
    run_sighash(ctx, fb, prog, spec, X)


# ---------------------------------------------------------------------------------------------------------------- R02.8
def concrete_eval(t, env):
    """value of a term under env = {term: int}; None when it mentions something else"""
    if t in env:
        return env[t]
    if not isinstance(t, tuple):
        return None
    h = t[0]
    if h == "c":
        return t[1] if isinstance(t[1], int) else None
    if h == "lin":
        acc = t[1]
        for (x, k) in t[2]:
            v = concrete_eval(x, env)
            if v is None:
                return None
            acc += k * v
        return acc
    if h == "eq":
        a, b = concrete_eval(t[1], env), concrete_eval(t[2], env)
        return None if a is None or b is None else int(a == b)
    if h == "not":
        a = concrete_eval(t[1], env)
        return None if a is None else int(not a)
    if h == "ap" and t[1] in ("<", "&", "|", "^") and len(t) == 4:
        a, b = concrete_eval(t[2], env), concrete_eval(t[3], env)
        if a is None or b is None:
            return None
        return {"<": int(a < b), "&": a & b, "|": a | b, "^": a ^ b}[t[1]]
    return None


def pubkey_predicate_table(fb, prog, func, sizes=(0, 1, 32, 33, 34, 64, 65, 66)):
    """{(size, first byte): True/False} of a bool predicate over a byte vector parameter, by G-SYM evaluation with every
    condition decided from the concrete (size, first byte); helpers in pubkey.h are inlined"""
    V = ("a", "key")
    table = {}
    for size in sizes:
        for b0 in (range(256) if size > 0 else (0,)):
            env = {("ap", "m:size", V): size, ("ap", "m:empty", V): int(size == 0)}
            if size > 0:
                env[("ap", "[]", V, symx.C(0))] = b0
                env[("ap", "m:at", V, symx.C(0))] = b0
                env[("ap", "m:front", V)] = b0

            def assume(term, conds, env=env):
                v = concrete_eval(term, env)
                return None if v is None else bool(v)
            X = symx.Explorer(prog, assume=assume, inline=lambda fn, n: fn.file in ("pubkey.h", func.file) and fn.id != func.id, transparent=lambda n: True)
            outs = X.explore(func, params={func.params[0]["n"]: V}, limit=64)
            rets = set()
            for o in outs:
                r = concrete_eval(o.ret, env) if o.ret is not None else None
                rets.add(r)
            if len(rets) != 1 or None in rets:
                raise AnalysisBroken("R02.8: %s is not decided by (size, first byte) at (%d, 0x%02x): %s" % (func.name, size, b0, [symx.show(o.ret) for o in outs][:3]))
            table[(size, b0)] = bool(rets.pop())
    return table


def run_pubkey_encoding(ctx, fb, prog):
    ctx.rule("R02.8", "public-key encoding predicates of STRICTENC / WITNESS_PUBKEYTYPE accept exactly (33 bytes, 02|03) [and (65 bytes, 04)] - tabulated over sizes x first byte")
    specs = {"IsCompressedOrUncompressedPubKey": lambda s, b: (s == 33 and b in (2, 3)) or (s == 65 and b == 4),
             "IsCompressedPubKey": lambda s, b: s == 33 and b in (2, 3)}
    for name, spec in sorted(specs.items()):
        f = fb.fn(name, file="script/interpreter.cpp")
        try:
            tab = pubkey_predicate_table(fb, prog, f)
        except symx.Unsupported as e:
            raise AnalysisBroken("R02.8: %s: %s" % (name, e))
        ctx.site(len(tab))
        diff = sorted(k for k, v in tab.items() if v != bool(spec(*k)))
        ctx.inst(not diff, "R02.8", "pubkey-encoding:" + name, f.loc(), "%s agrees with the rule on all %d (size, first byte) pairs" % (name, len(tab)),
                 "%s %s a %d-byte key starting 0x%02x (%d of %d pairs differ from the rule): hybrid / wrongly sized keys must fail the encoding check" %
                 ((name, "accepts" if tab[diff[0]] else "rejects", diff[0][0], diff[0][1], len(diff), len(tab)) if diff else (name, "", 0, 0, 0, 0)))
