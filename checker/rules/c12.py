"""C12 - the script listing and position marker show exactly what executes next (DESIGN.md section 4, C12)."""
from .. import astq, structure as S
from ..facts import AnalysisBroken, walk
from . import c04

EXPLANATION = (
    "Counting / pairing analysis between the listing built in btcdeb's main and the position counter maintained by the session "
    "stepper. R12.1 every listed section is counted: each script appended to the listing has, under the same structural guard, a "
    "decoding loop over the same object that increments the line count, a header line is counted iff its header literal is non-empty, "
    "the taproot-commitment lines are counted under the condition under which they are emitted, and the line array is allocated from "
    "the count after all contributions (no later update). R12.2 described steps = executed steps: the number of lines "
    "TaprootCommitmentEnv::Description() yields (1 per path node + c_D constant lines) equals the number of marker advances the "
    "commitment phase makes (1 per path node + c_I non-failed terminal phases of Iterate()). R12.3 one marker advance per script "
    "switch (= one header line per appended script), and the listing enters the P2SH section under the same predicate the stepper "
    "uses (flag P2SH and the P2SH template). R12.4 the counter moves +1 per successful operation step and -1 per accepted rewind "
    "(shared with C04). R12.5 the marker shown by `print` and the line echoed by step/rewind are indexed by that counter and guarded "
    "by the line count. R12.7 a failed operation step restores every snapshotted session field (stack, alt stack, pc, operation count, "
    "conditional stack, code-hash start, signing data, opcode position) from the snapshot taken before it, so the marker keeps "
    "designating the operation the next step executes. The text of each line is not decided. R12.11: the scans that remember the last pushed value of the scriptSig as P2SH redeem script (listing and pane) take the value on every iteration.")
TRUSTED = ["clang 14 parser/Sema/CFG", "/verif extractor"]
ASSUMPTIONS = ["GetOp decodes the same operation sequence in the listing loop and in the stepper (same function, same bytes)"]
DECLINED = ["text of each listing line (snprintf into 1024 bytes truncates pushes longer than ~508 bytes)", "equality of the listed bytes with the executed bytes beyond object identity"]


def obj_txt(n):
    t = astq.estr(n)
    return t.replace("&", "").replace("(", "").replace(")", "").replace("*", "").replace("->", ".")


def guards_txt(func, n):
    return tuple(sorted(("" if t else "!") + astq.estr(c) for (c, t) in S.ast_guards(func, n)))


def run(ctx, anchors=None):
    fb, prog = ctx.facts, ctx.prog
    ctx.rule("R12.1", "every listed section is counted under the same guard; the line array is allocated after all counting")
    ctx.rule("R12.2", "lines described for the taproot commitment == marker advances of the commitment phase")
    ctx.rule("R12.3", "one marker advance per script switch; the listing enters the P2SH section under the stepper's predicate")
    ctx.rule("R12.4", "position counter: +1 per successful operation step, -1 per accepted rewind (shared with C04 R04.2)")
    ctx.rule("R12.5", "the marker / echoed line are indexed by the position counter and bounded by the line count")
    from . import common
    main = common.driver_of(fb, prog, "btcdeb.cpp", "ContinueScript")
    cfg = main.cfg()
    common.require_names(main, ["script_ptrs", "script_headers", "count", "tc_desc", "script_lines", "has_p2sh", "header"], "R12.1")
    # ---- R12.1
    pushes = [n for n in main.nodes() if n["k"] == "mcall" and n.get("n") == "push_back" and astq.estr(n.get("obj")) == "script_ptrs"]
    heads = [n for n in main.nodes() if n["k"] == "mcall" and n.get("n") == "push_back" and astq.estr(n.get("obj")) == "script_headers"]
    ctx.floor("R12.1", len(pushes), 3, "scripts appended to the listing")
    if len(heads) != len(pushes):
        ctx.fail("R12.1", "headers-parallel", main.loc(), "script_ptrs gets %d entries but script_headers %d" % (len(pushes), len(heads)))
    # contributions to `count`: (kind, what, guards, node): ("ops", script) for one per decoded operation of a script - a GetOp loop
    # incrementing count, or `count += ... f(script) ...` where f is an operation counter (a same-file function that returns
    # the number of iterations of a GetOp loop over its parameter) -, ("const", k) for k lines, ("size", v) for v.size() lines
    def op_counter(fn):
        if fn.body is None or len(fn.params) != 1:
            return False
        lw = [n for n in fn.nodes() if n["k"] == "while" and n["cond"].get("k") == "mcall" and n["cond"].get("n") == "GetOp" and obj_txt(n["cond"].get("obj")) == fn.params[0]["n"]]
        if len(lw) != 1:
            return False
        incs = [x for x in walk(lw[0]["body"]) if x["k"] == "un" and x["op"] == "++" and x["e"].get("k") == "ref" and x["e"].get("dk") == "local"]
        rets = [x for x in fn.nodes() if x["k"] == "return" and x.get("e") is not None]
        return len(incs) == 1 and len(rets) == 1 and any(y["k"] == "ref" and y.get("d") == incs[0]["e"].get("d") for y in walk(rets[0]["e"])) and \
            sum(1 for x in fn.nodes() if x["k"] in ("assign", "cassign") or (x["k"] == "un" and x["op"] in ("++", "--"))) == 1

    def summands(e):
        while e is not None and e.get("k") == "cast":
            e = e["e"]
        if e is not None and e.get("k") == "bin" and e["op"] == "+":
            return summands(e["lhs"]) + summands(e["rhs"])
        return [e]
    contrib = []
    loops = []
    for n in main.nodes():
        if n["k"] == "while" and n["cond"].get("k") == "mcall" and n["cond"].get("n") == "GetOp":
            incs = [x for x in walk(n["body"]) if x["k"] == "un" and x["op"] == "++" and astq.estr(x["e"]) == "count"]
            if incs:
                loops.append((obj_txt(n["cond"].get("obj")), n, guards_txt(main, n)))
                contrib.append(("ops", obj_txt(n["cond"].get("obj")), guards_txt(main, n), n))
        elif n["k"] == "un" and n["op"] == "++" and astq.estr(n["e"]) == "count" and not any(a.get("k") == "while" for a in main.ancestors(n)):
            contrib.append(("const", 1, guards_txt(main, n), n))
        elif n["k"] == "cassign" and n["op"] == "+=" and astq.estr(n["lhs"]) == "count":
            for t in summands(n["rhs"]):
                cv = astq.const_value(t)
                if cv is not None:
                    contrib.append(("const", cv, guards_txt(main, n), n))
                elif t is not None and t.get("k") == "call" and t.get("cid") and len(t["args"]) == 1 and any(op_counter(g_) for g_ in prog.resolve(t["cid"])):
                    contrib.append(("ops", obj_txt(t["args"][0]), guards_txt(main, n), n))
                    loops.append((obj_txt(t["args"][0]), n, guards_txt(main, n)))
                elif t is not None and t.get("k") == "mcall" and t.get("n") == "size":
                    contrib.append(("size", obj_txt(t.get("obj")), guards_txt(main, n), n))
                else:
                    contrib.append(("other", astq.estr(t), guards_txt(main, n), n))
    count_incs = [c for c in contrib if c[0] == "const"]
    for i, p in enumerate(pushes):
        ctx.site()
        obj = obj_txt(p["args"][0])
        g = guards_txt(main, p)
        lp = [l for l in loops if l[0] == obj]
        lit = None
        if i < len(heads):
            ls = [x["s"] for x in walk(heads[i]["args"][0]) if x["k"] == "str"]
            lit = ls[0] if ls else None
        key = "section=%s" % (lit or obj)
        ok_loop = bool(lp) and lp[0][2] == g
        ctx.inst(ok_loop, "R12.1", "ops-counted:" + key, main.loc(p), "the operations of %s are counted by a GetOp loop under the same guard" % obj,
                 "%s is appended to the listing but its operations are %s: the line array is too small / the marker runs past the listing"
                 % (obj, "not counted" if not lp else "counted under a different condition (%s vs %s)" % (lp[0][2], g)))
        if lit:
            hc = sum(c[1] for c in count_incs if c[2] == g)
            ctx.inst(hc == 1, "R12.1", "header-counted:" + key, main.loc(p), "the header line \"%s\" is counted once under the same guard" % lit,
                     "the header line \"%s\" is counted %d time(s) under its guard (expected once)" % (lit, hc))
        else:
            hc = sum(c[1] for c in count_incs if c[2] == g)
            ctx.inst(hc == 0, "R12.1", "no-header-count:" + key, main.loc(p), "no header line is counted for the section without header")
    # taproot commitment lines
    desc_assign = [n for n in main.nodes() if n["k"] == "opcall" and n["op"] == "=" and astq.estr(n["args"][0]) == "tc_desc"]
    adds = [c[3] for c in contrib if c[0] == "size"]
    unknown = [c for c in contrib if c[0] == "other"]
    ctx.inst(not unknown, "R12.1", "count-contributions-understood", main.loc(unknown[0][3]) if unknown else main.loc(), "every contribution to count is a constant, an operation count or a container size",
             "count is increased by `%s`, which is neither a constant, an operation count nor a container size" % (unknown[0][1] if unknown else ""))
    emit = [n for n in main.nodes() if n["k"] == "forrange" and astq.estr(n.get("range")) == "tc_desc"]
    okd = len(desc_assign) == 1 and len(adds) == 1 and "tc_desc.size()" in astq.estr(adds[0]["rhs"]) and guards_txt(main, adds[0]) == guards_txt(main, desc_assign[0]) and len(emit) == 1
    if okd:
        # emitted under the condition under which it is filled (sigversion == TAPSCRIPT)
        # the whole condition that mentions TAPSCRIPT (all of its conjuncts), not only that conjunct
        def tap_cond(node):
            out = []
            for (c, t) in S._ast_guards_raw(main, node):
                if t and "TAPSCRIPT" in astq.estr(c):
                    out.append(sorted(astq.estr(x) for x in S.conjuncts(c)))
            return out
        gf, ge = tap_cond(desc_assign[0]), tap_cond(emit[0])
        okd = bool(gf) and gf == ge
    ctx.site()
    ctx.inst(okd, "R12.1", "commitment-lines-counted", main.loc(desc_assign[0]) if desc_assign else main.loc(),
             "the taproot commitment lines are counted (count += tc_desc.size()) under the condition under which they are emitted")
    mallocs = [n for n in main.nodes() if n["k"] == "call" and n.get("n") == "malloc" and "count" in astq.estr(n)]
    if len(mallocs) != 1:
        ctx.fail("R12.1", "array-from-count", main.loc(), "script_lines is not allocated from `count` exactly once")
    else:
        m = mallocs[0]
        mp = cfg.position(m)
        later = []
        for c in [c_[3] for c_ in contrib]:
            p = cfg.position(c)
            if p and mp and (p[0] in cfg.reachable_from(mp[0])) and not cfg.dominates(c, m):
                later.append(c)
        ctx.inst(not later, "R12.1", "array-from-count", main.loc(m), "the line array is allocated after every contribution to count",
                 "count is still increased at %s after the line array was allocated" % (main.loc(later[0]) if later else ""))
    # emission loop mirrors the counting: header iff non-empty, one line per GetOp
    em_loops = [n for n in main.nodes() if n["k"] == "while" and n["cond"].get("k") == "mcall" and n["cond"].get("n") == "GetOp"
                and any(x["k"] == "assign" and "script_lines" in astq.estr(x["lhs"]) for x in walk(n["body"]))]
    hdr_emit = [n for n in main.nodes() if n["k"] == "if" and "header != \"\"" in astq.estr(n["cond"]).replace("(", "").replace(")", "") and any("script_lines" in astq.estr(x.get("lhs")) for x in walk(n["then"]) if x["k"] == "assign")]
    ctx.inst(len(em_loops) == 1 and len(hdr_emit) == 1, "R12.1", "emission-mirrors-counting", main.loc(em_loops[0]) if em_loops else main.loc(),
             "the emission loop writes a header line iff the header is non-empty and one line per decoded operation")

    # ---- R12.2
    tdesc = fb.fn("TaprootCommitmentEnv::Description")
    tit = fb.fn("TaprootCommitmentEnv::Iterate")
    per_node_D = c_D = 0
    for n in tdesc.nodes():
        if n["k"] == "mcall" and n.get("n") == "push_back" and astq.estr(n.get("obj")) == "rv":
            inloop = [a for a in tdesc.ancestors(n) if a.get("k") in ("for", "forrange", "while")]
            if inloop:
                lc = astq.estr(inloop[0].get("cond"))
                if "m_path_len" in lc:
                    per_node_D += 1
                else:
                    c_D += 100   # a loop over something else: not a linear form we understand
            else:
                c_D += 1
    per_node_I = c_I = 0
    for n in tit.nodes():
        if n["k"] != "return":
            continue
        e = n.get("e")
        states = {x["n"] for x in walk(e) if x["k"] == "ref" and x.get("dk") == "enumc"}
        if states <= {"Failed"}:
            continue
        guards = [astq.estr(c) for (c, t) in S.ast_guards(tit, n) if t]
        if any("m_path_len" in g for g in guards):
            per_node_I += 1
        else:
            c_I += 1
    stepper = fb.fn("StepScript", file="debugger/interpreter.cpp")
    # every non-failed state advances the marker exactly once, Failed not at all: read off the paths of the stepper per state of
    # Iterate() (G-SYM outcomes; the dispatch may be a switch or an if-chain)
    from . import c03_setup
    _st, prol = c03_setup.commitment_prologue(fb, prog)
    adv_ok = bool(prol)
    for name_, outs_ in prol.items():
        for o_ in outs_:
            want_ = 0 if name_ == "Failed" else 1
            adv_ok = adv_ok and c03_setup.advance_of(o_) == want_
    sw = []
    ctx.site(4)
    ctx.inst(adv_ok, "R12.2", "one-advance-per-commitment-step", stepper.loc(sw[0]) if sw else stepper.loc(),
             "each non-failed commitment state advances the marker exactly once, Failed does not")
    ctx.inst(per_node_D == per_node_I == 1 and c_D == c_I, "R12.2", "described==executed", tdesc.loc(),
             "Description(): %d line(s) per node + %d; Iterate(): %d step(s) per node + %d terminal" % (per_node_D, c_D, per_node_I, c_I),
             "Description() lists %d line(s) per path node + %d constant line(s) but Iterate() executes %d step(s) per node + %d terminal step(s): "
             "in every tapscript session the marker is off by %d line(s)" % (per_node_D, c_D, per_node_I, c_I, abs(c_D - c_I)))

    # ---- R12.3
    sal = astq.aliases(stepper)
    scfg = stepper.cfg()
    from . import common
    switches = common.script_switches(prog, stepper)
    ctx.floor("R12.3", len(switches), 2, "script switches in the stepper")
    seq_incs = common.field_writers(prog, stepper, "curr_op_seq")
    seq_incs = [n for n in seq_incs if not any(S.contains(a, n) and a.get("k") == "switch" for a in stepper.ancestors(n))]
    for swn in switches:
        ctx.site()
        after = [i for i in seq_incs if i is swn or (scfg.position(i) and scfg.position(swn) and (scfg.position(i)[0] in scfg.reachable_from(scfg.position(swn)[0]))
                 and not scfg.dominates(i, swn))]
        must = (swn in seq_incs) or scfg.must_pass_after(swn, seq_incs)
        ctx.inst(must and len(after) == 1, "R12.3", "advance-at-switch:" + astq.estr(swn)[:40], stepper.loc(swn),
                 "the script switch advances the marker exactly once (over the section header line)",
                 "the script switch `%s` advances the marker %s: the marker no longer passes the section header line in step with execution"
                 % (astq.estr(swn), "%d times" % len(after) if must else "not on every path"))
    # P2SH predicate agreement: listing vs stepper
    listing_p2sh = None
    for n in main.nodes():
        if n["k"] == "if" and any(x["k"] == "assign" and astq.estr(x["lhs"]) == "has_p2sh" for x in walk(n["then"])):
            cj = [astq.estr(c) for c in S.conjuncts(n["cond"])]
            if any("successor_script" in c for c in cj):
                if listing_p2sh is None or len(list(walk(n))) < len(list(walk(listing_p2sh[0]))):
                    listing_p2sh = (n, cj)
    ctx.site()
    if listing_p2sh is None:
        ctx.fail("R12.3", "p2sh-section-predicate", main.loc(), "the condition under which the P2SH section is listed was not found")
    else:
        n, cj = listing_p2sh
        has_flag = any("SCRIPT_VERIFY_P2SH" in c and "flags" in c for c in cj)
        has_tmpl = any("IsPayToScriptHash" in c for c in cj)
        ctx.inst(has_flag and has_tmpl and len(cj) == 2, "R12.3", "p2sh-section-predicate", main.loc(n),
                 "the P2SH section is listed iff (flags & P2SH) && scriptPubKey is the P2SH template - the stepper's predicate",
                 "the P2SH section is listed under `%s` but the stepper enters it under (flags & SCRIPT_VERIFY_P2SH) && <P2SH template>: "
                 "the listing shows a section that never runs (or hides one that does)" % " && ".join(cj))
    # ---- R12.6 the second listing (left column of the dual-stack display, rebuilt on every command) agrees with the first
    ctx.rule("R12.6", "the dual-stack display builds its section list like the numbered listing: same headers in the same order, same P2SH predicate, commitment lines from Description()")
    pds = fb.fn("print_dualstack")

    def header_literals(func, var):
        out = []
        for n in func.nodes():
            if n["k"] == "mcall" and n.get("n") == "push_back" and astq.estr(n.get("obj")) == var:
                ls = [x["s"] for x in walk(n["args"][0]) if x["k"] == "str"]
                out.append(ls[0] if ls else "?")
        return out
    h1 = header_literals(main, "script_headers")
    common.require_names(pds, ["headers", "scripts", "has_p2sh"], "R12.6")
    h2 = header_literals(pds, "headers")
    ctx.site()
    ctx.inst(h1 == h2 and len(h1) >= 3, "R12.6", "same-section-headers", pds.loc(), "both listings use the sections %s" % h1,
             "the numbered listing has the sections %s but the dual-stack display has %s: the two views of the script disagree" % (h1, h2))

    def p2sh_pred(func):
        best = None
        for n in func.nodes():
            if n["k"] == "if" and any(x["k"] == "assign" and astq.estr(x["lhs"]) == "has_p2sh" for x in walk(n["then"])):
                cj = sorted(astq.estr(c).replace("instance.", "").replace("env->", "") for c in S.conjuncts(n["cond"]))
                if any("successor_script" in c for c in cj):
                    size = len(list(walk(n)))
                    if best is None or size < best[0]:
                        best = (size, cj)      # the innermost such branch
        return best[1] if best else None
    p1, p2 = p2sh_pred(main), p2sh_pred(pds)
    ctx.site()
    ctx.inst(p1 is not None and p1 == p2, "R12.6", "same-p2sh-predicate", pds.loc(), "both listings show the P2SH section under %s" % p1,
             "the numbered listing shows the P2SH section under %s, the dual-stack display under %s" % (p1, p2))
    sv = fb.fn("svprintscripts")
    uses_desc = any(n["k"] == "mcall" and n.get("n") == "Description" for n in sv.nodes())
    ctx.inst(uses_desc, "R12.6", "commitment-lines-from-description", sv.loc(), "the dual-stack display lists the commitment steps from the same Description()")
    # ---- R12.4 (shared)
    from .. import report
    sub = report.Ctx("C04", ctx.tier, fb, prog, ctx.seed)
    c04.run(sub, failed_step_rule=True)
    ctx.rule("R12.7", "a failed operation step leaves the session at the failing operation (every snapshotted field restored on the failing edge)")
    for i in sub.instances:
        if i["rule"] == "R04.F":
            ctx.instances.append(dict(i, rule="R12.7"))
        if i["rule"] == "R04.5":
            # an operation that throws is a failed step as well: restored and dropped in the handler around the call
            ctx.instances.append(dict(i, rule="R12.7", key="on-exception:" + i["key"]))
        if i["rule"] == "R04.2" and i["key"].startswith("counter"):
            ctx.instances.append(dict(i, rule="R12.4"))
        if i["rule"] == "R04.4":
            ctx.instances.append(dict(i, rule="R12.4"))
    # ---- R12.5
    fprint = fb.fn("fn_print")
    # every read of the line array, wherever it was moved to, is bounded by the line count; the echo after step / rewind is
    # indexed by the position counter
    reads = []
    for f in fb.funcs.values():
        if f.file != "functions.cpp" or f.body is None:
            continue
        for n in f.nodes():
            base = idx = None
            if n["k"] == "index":
                base, idx = n["base"], n["idx"]
            elif n["k"] == "opcall" and n.get("op") == "[]" and len(n["args"]) == 2:
                base, idx = n["args"]
            if base is None or not any(x["k"] == "ref" and x["n"] == "script_lines" and x.get("dk") == "global" for x in walk(base)):
                continue
            reads.append((f, n, idx))
    ctx.floor("R12.5", len(reads), 2, "reads of script_lines[...] in functions.cpp")
    echo_fns = set()
    for (f, n, idx) in reads:
        it = astq.estr(idx)
        fcfg = f.cfg()
        bounded = False
        for (c, t) in fcfg.guards_of(n):
            cn = f.node_by_id(c)
            if cn is None or t is not True:
                continue
            for cj in S.conjuncts(cn):
                txt = astq.estr(cj).replace(" ", "")
                if txt in ("(%s<count)" % it.replace(" ", ""), "(count>%s)" % it.replace(" ", "")):
                    bounded = True
        ctx.site()
        if it.endswith("curr_op_seq"):
            echo_fns.add(f.name)
        ctx.inst(bounded, "R12.5", "echo-bounded:" + f.name, f.loc(n), "%s reads script_lines[%s] only when %s < count" % (f.name, it, it),
                 "%s echoes script_lines[%s] without the `%s < count` guard (reads past the line array after the last operation)" % (f.name, it, it))
    # `print`: a loop over the lines, the marker is shown on the line whose index equals the position counter
    pr = [(n, astq.estr(idx)) for (f, n, idx) in reads if f is fprint]
    marks = []
    for (n, it) in pr:
        for c in fprint.nodes():
            if c["k"] == "cond":
                txt = common.xstr(fprint, c["cond"], keep=(it,)).replace(" ", "")
                if txt in ("(%s==env->curr_op_seq)" % it, "(env->curr_op_seq==%s)" % it) and any(a.get("k") in ("for", "while", "forrange") and S.contains(a, n) for a in fprint.ancestors(c)):
                    marks.append(c)
    ctx.site()
    ctx.inst(bool(marks), "R12.5", "print-marker-at-counter", fprint.loc(), "`print` marks line i iff i == curr_op_seq",
             "`print` does not place the marker on the line whose index equals curr_op_seq")
    ctx.inst(bool(pr), "R12.5", "print-lists-count-lines", fprint.loc(), "`print` lists the lines of the array (bounded by `count`, see echo-bounded:fn_print)")
    # step and rewind both reach an echo of the line at the position counter
    for fname in ("fn_step", "fn_rewind"):
        f = fb.fn(fname)
        reach = {f.name}
        for n in f.nodes():
            if astq.is_call(n) and n.get("cid"):
                for g in prog.resolve(n["cid"]):
                    if g.file == "functions.cpp":
                        reach.add(g.name)
        ctx.site()
        ctx.inst(bool(reach & echo_fns), "R12.5", "echo-at-counter:" + fname, f.loc(), "%s echoes the line at the position counter" % fname,
                 "%s no longer echoes script_lines[curr_op_seq]" % fname)

    # ---- R12.9 the script pane lists what is still to be executed: during the commitment phase that is the description from the
    # step the environment has reached (Description() has one line per step of Iterate()), not the whole description
    ctx.rule("R12.9", "the script pane starts the commitment section at the step that is pending")
    sv_ = fb.fn("svprintscripts")
    desc_loops = []
    for n in sv_.nodes():
        if n["k"] in ("forrange", "for"):
            txt = astq.estr(n.get("range")) if n["k"] == "forrange" else astq.estr(n.get("cond"))
            def pushes(x_):
                if x_["k"] == "mcall" and x_.get("n") == "push_back":
                    return True
                if x_["k"] == "call" and x_.get("cid") and not x_.get("ext"):      # a line-appending helper
                    return any(y_["k"] == "mcall" and y_.get("n") == "push_back" for g_ in prog.resolve(x_["cid"]) if g_.body is not None for y_ in g_.nodes())
                return False
            body_pushes = [x for x in walk(n.get("body")) if pushes(x)]
            if body_pushes and "desc" in (txt or ""):
                desc_loops.append(n)
    if len(desc_loops) != 1:
        raise AnalysisBroken("R12.9: expected one loop over the commitment description in svprintscripts, found %d" % len(desc_loops))
    dl = desc_loops[0]
    # necessary condition, whatever the loop looks like: the code that builds the section consults the environment's progress (m_i)
    blk_ = [a for a in sv_.ancestors(dl) if a.get("k") == "if"]
    scope_ = blk_[0] if blk_ else dl
    from_pending = any(x["k"] == "mem" and x.get("n") == "m_i" for x in walk(scope_))
    ctx.site()
    ctx.inst(from_pending, "R12.9", "commitment-section-from-pending-step", sv_.loc(dl),
             "the pane lists the commitment description from index m_i (the step Iterate() performs next)",
             "the pane lists the whole commitment description on every refresh: after k steps the first k `Branch:` lines are still shown as pending although the right column already shows i: k")

    # ---- R12.10 the script pane starts at the operation the next step executes: the iterator handed to the pane printer is the
    # session's program counter itself (directly, or through a local that is set from it and never written or lent out by
    # non-const reference in between).
    ctx.rule("R12.10", "the script pane is decoded from the session's program counter")
    n1210 = 0
    for f in sorted(fb.funcs.values(), key=lambda f_: f_.id):
        if f.body is None or f is sv_ or not f.file.startswith(("functions.", "btcdeb.cpp", "instance.")):
            continue
        for n in f.nodes():
            if n["k"] == "call" and n.get("cid") == sv_.id:
                its = [a for a, p_ in zip(n["args"], sv_.params) if "const_iterator" in (p_.get("ty") or "") or "const unsigned char *" in (p_.get("ty") or "")]
                if len(its) != 1:
                    raise AnalysisBroken("R12.10: svprintscripts no longer takes exactly one script iterator")
                n1210 += 1
                ctx.site()
                e = astq.expand(f, its[0])
                is_pc = e is not None and e.get("k") == "mem" and e.get("n") == "pc"
                ctx.inst(is_pc, "R12.10", "pane-from-program-counter@" + f.name, f.loc(n), "the pane is decoded from `%s`" % astq.estr(e)[:30],
                         "%s hands svprintscripts `%s`, which is not (only) the session's pc at that point - it was reassigned or advanced by a decoder in between: the pane starts at another "
                         "operation than the one the next step executes (pending operations are missing from it)" % (f.name, astq.estr(e)[:40]))
    ctx.floor("R12.10", n1210, 1, "calls of the pane printer")

    # ---- R12.11 the redeem script shown for a P2SH spend is what execution will take from the top of the stack after the
    # (push-only) scriptSig: the value of its LAST operation, whatever that value is. The scans that remember "the last pushed
    # value" (listing in main, pane in print_dualstack) therefore take it on every iteration: an assignment under a condition
    # (seed C12-L: only non-empty pushes) lists a redeem script that never runs when the scriptSig ends in OP_0.
    ctx.rule("R12.11", "the scans for the P2SH redeem script remember the value of every operation of the scriptSig, i.e. the last one")
    n1211 = 0
    for f in sorted(fb.funcs.values(), key=lambda f_: f_.id):
        if f.body is None or not f.file.startswith(("functions.", "btcdeb.cpp", "instance.", "debugger/")):
            continue
        for lp in f.nodes():
            if lp["k"] != "while" or lp.get("cond") is None:
                continue
            gets = [x for x in walk(lp["cond"]) if x.get("k") == "mcall" and x.get("n") == "GetOp" and len(x.get("args") or []) == 3]
            if len(gets) != 1 or gets[0]["args"][2] is None or gets[0]["args"][2].get("k") != "ref" or gets[0]["args"][2].get("dk") != "local":
                continue
            v = gets[0]["args"][2]["d"]
            takes = []
            for x in walk(lp["body"]):
                if x.get("k") == "opcall" and x.get("op") == "=" and len(x.get("args") or []) == 2 and all(a is not None and a.get("k") == "ref" for a in x["args"]) and x["args"][1].get("d") == v:
                    takes.append(x)
                elif x.get("k") == "assign" and x["lhs"].get("k") == "ref" and x["rhs"].get("k") == "ref" and x["rhs"].get("d") == v:
                    takes.append(x)
            for x in takes:
                n1211 += 1
                ctx.site()
                conds = [a for a in f.ancestors(x) if a.get("k") in ("if", "cond", "switch", "while", "for", "do") and S.contains(lp["body"], a)]
                conds += [a for a in f.ancestors(x) if a.get("k") == "bin" and a.get("op") in ("&&", "||") and S.contains(lp["body"], a)]
                ctx.inst(not conds, "R12.11", "last-value-taken-unconditionally@" + f.name.split("(")[0], f.loc(x), "`%s` runs on every iteration of the scriptSig scan" % astq.estr(x)[:50],
                         "%s takes the pushed value only under `%s`: when the last operation of the scriptSig does not satisfy it, the listed P2SH script is an earlier push, not the element execution uses as redeem script"
                         % (f.name.split("(")[0], astq.estr(conds[0].get("cond") or conds[0])[:60] if conds else ""))
    ctx.floor("R12.11", n1211, 1, "scans remembering the last pushed value of the scriptSig")

    # ---- R12.8 the numbered listing shows every operation in full (it is "the exact decoding"): a fixed-size buffer that
    # receives the hex rendering of a push must hold the largest legal push - 2 * MAX_SCRIPT_ELEMENT_SIZE digits - plus whatever
    # precedes it in that buffer and the terminator. (The two-column pane abbreviates long values on purpose; it is not judged.)
    ctx.rule("R12.8", "the listing's line buffer holds the hex of a maximum-size push plus its prefix")
    mse = fb.var("MAX_SCRIPT_ELEMENT_SIZE").get("value")
    if not mse:
        raise AnalysisBroken("R12.8: MAX_SCRIPT_ELEMENT_SIZE not found")
    n128 = 0
    # the driver itself, and the functions it calls to format one line (a helper shared with the pane)
    fmt_funcs = [(main, 8)]
    for cn_ in main.nodes():
        if cn_["k"] == "call" and cn_.get("cid") and not cn_.get("ext"):
            for g_ in prog.resolve(cn_["cid"]):
                if g_.body is not None and g_.file.startswith(("functions.", "btcdeb.cpp", "instance.")) and all(g_ is not x_[0] for x_ in fmt_funcs):
                    fmt_funcs.append((g_, 0))

    def fixed_array_of(ff, dst):
        while dst is not None and dst.get("k") in ("cast", "paren"):
            dst = dst["e"]
        if dst is None or dst.get("k") != "ref":
            return None
        for dn in ff.nodes():
            if dn["k"] == "decl":
                for d in dn["decls"]:
                    if d["d"] == dst.get("d"):
                        if d.get("arraysize"):
                            return d
                        if d.get("init") is not None:
                            return fixed_array_of(ff, d["init"])
        return None
    for (ff, prefix_len) in fmt_funcs:
        for n in ff.nodes():
            if not (astq.is_call(n) and n.get("n") in ("snprintf", "sprintf") and any(x["k"] == "call" and x.get("n") == "HexStr" for a in n.get("args", [])[2:] if a for x in walk(a))):
                continue
            if ff is not main and ff.name == "svprintscripts":
                continue      # the two-column pane abbreviates long values on purpose
            arr = fixed_array_of(ff, n["args"][0])
            if arr is None:
                continue
            n128 += 1
            ctx.site()
            need = 2 * mse + 1 + prefix_len      # ('#' + up to five digits + blank in the driver's own buffer,) the digits, the terminator
            ctx.inst(arr["arraysize"] >= need, "R12.8", "listing-buffer-holds-a-maximal-push@%s" % ff.name, ff.loc(n),
                     "%s[%d] holds 2 x %d hex digits plus the line prefix" % (arr["n"], arr["arraysize"], mse),
                     "the listing formats the hex of a push into %s[%d] (%s): a push of more than %d bytes (up to %d are legal) is cut short, so `print` does not show the script's exact decoding" %
                     (arr["n"], arr["arraysize"], ff.name, (arr["arraysize"] - 1 - prefix_len) // 2, mse))
    if n128 == 0:
        ctx.note("R12.8: the listing code formats no push into a fixed-size buffer (lines built as std::string): nothing to bound")
    ctx.extra["R12.8_fixed_buffers"] = n128


MUTANTS = [
    dict(name="listing-remembers-only-non-empty-pushes", file="btcdeb.cpp", find="    while (env->script.GetOp(it, opcode, vchPushValue)) { p2sh_script_payload = vchPushValue; ++count; }", replace="    while (env->script.GetOp(it, opcode, vchPushValue)) { if (!vchPushValue.empty()) p2sh_script_payload = vchPushValue; ++count; }", expect=["R12.11:last-value-taken-unconditionally@main"]),
    dict(name="pane-iterator-reused-for-the-redeem-script-scan", file="functions.cpp", find="            CScript::const_iterator it = env->script.begin();\n            opcodetype opcode;\n            valtype vchPushValue, p2sh_script_payload;", replace="            it = env->script.begin();\n            opcodetype opcode;\n            valtype vchPushValue, p2sh_script_payload;", expect=["R12.10:pane-from-program-counter@print_dualstack"]),
    dict(name="pane-lists-finished-commitment-steps", file="functions.cpp", find="        for (size_t k = tce->m_i; k < desc.size(); ++k) {", replace="        for (size_t k = 0; k < desc.size(); ++k) {", expect=["R12.9:commitment-section-from-pending-step"]),
    dict(name="listing-buffer-too-small", file="btcdeb.cpp", find="    char buf[16 + 2 * MAX_SCRIPT_ELEMENT_SIZE];", replace="    char buf[1024];", expect=["R12.8:listing-buffer-holds-a-maximal-push"]),
    dict(name="commitment-counted-under-narrower-guard", file="btcdeb.cpp", find="    } else if (env->sigversion == SigVersion::TAPSCRIPT) {\n        // add commitment phase",
         replace="    } else if (env->sigversion == SigVersion::TAPSCRIPT && env->tce && env->tce->m_path_len > 0) {\n        // add commitment phase", expect=["R12.1:commitment-lines-counted"]),
    dict(name="failed-step-keeps-pc", file="debugger/interpreter.cpp", before="bool RewindScript(InterpreterEnv& env)", find="    env.pc = env.pc_history.back();\n", replace="",
         expect=["R12.7:restored-on-failure:pc_history", "R12.7:on-exception:snapshot-dropped-on-exception:pc_history"]),
    dict(name="throwing-step-not-undone", file="debugger/interpreter.cpp", find="            UndoFailedStep(env);\n            throw;\n", replace="            throw;\n", expect=["R12.7:on-exception:snapshot-dropped-on-exception"]),
    dict(name="dualstack-p2sh-without-flag", file="functions.cpp", find="        if ((env->flags & SCRIPT_VERIFY_P2SH) && env->successor_script.IsPayToScriptHash()) {", replace="        if (env->successor_script.IsPayToScriptHash()) {", expect=["R12.6:same-p2sh-predicate"]),
    dict(name="dualstack-header-differs", file="functions.cpp", find="        headers.push_back(\"<<< scriptPubKey >>>\");", replace="        headers.push_back(\"\");", expect=["R12.6:same-section-headers"]),
    dict(name="header-not-counted", file="btcdeb.cpp", find="        script_headers.push_back(\"<<< scriptPubKey >>>\");\n        count++;", replace="        script_headers.push_back(\"<<< scriptPubKey >>>\");", expect=["R12.1:header-counted"]),
    dict(name="p2sh-ops-not-counted", file="btcdeb.cpp", find="        it = p2sh_script.begin();\n        while (p2sh_script.GetOp(it, opcode, vchPushValue)) ++count;\n", replace="", expect=["R12.1:ops-counted"]),
    dict(name="extra-description-line", file="debugger/interpreter.cpp", find="    // one line per step of Iterate(): the tweak is applied and checked in a single step\n", replace="    rv.push_back(strprintf(\"Tweak: %s\", m_p.ToString().c_str()));\n", expect=["R12.2:described==executed"]),
    dict(name="processing-does-not-advance", file="debugger/interpreter.cpp", find="        case TaprootCommitmentEnv::State::Processing:\n            ++env.curr_op_seq;\n            return true;", replace="        case TaprootCommitmentEnv::State::Processing:\n            return true;", expect=["R12.2:one-advance-per-commitment-step"]),
    dict(name="switch-without-advance", file="debugger/interpreter.cpp", find="            pend = script.end();\n            env.curr_op_seq++;\n            env.nOpCount = 0;", replace="            pend = script.end();\n            env.nOpCount = 0;", expect=["R12.3:advance-at-switch"]),
    dict(name="p2sh-listed-without-flag", file="btcdeb.cpp", find="        if ((env->flags & SCRIPT_VERIFY_P2SH) && instance.successor_script.IsPayToScriptHash()) {", replace="        if (instance.successor_script.IsPayToScriptHash()) {", expect=["R12.3:p2sh-section-predicate"]),
    dict(name="echo-unbounded", file="functions.cpp", find="    if (env->curr_op_seq < count) {\n        printf(\"%s\\n\", script_lines[env->curr_op_seq]);\n    }\n    return 0;\n}\n\nint fn_rewind", replace="    printf(\"%s\\n\", script_lines[env->curr_op_seq]);\n    return 0;\n}\n\nint fn_rewind", expect=["R12.5:echo-bounded:fn_step"]),
    dict(name="count-after-alloc", file="btcdeb.cpp", find="    script_lines = (char**)malloc(sizeof(char*) * count);\n", replace="    script_lines = (char**)malloc(sizeof(char*) * count);\n    if (has_p2sh) count++;\n", expect=["R12.1:array-from-count"]),
    dict(name="rewind-guard-by-history", file="instance.cpp", find="    if (env->pc == env->script.begin()) {\n        return false;\n    }\n    if (env->done) {", replace="    if (env->stack_history.empty()) {\n        return false;\n    }\n    if (env->done) {", expect=["R12.4:no-rewind-across-script-switch"]),
]
