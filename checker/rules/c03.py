"""C03 - a --tx/--txin session reproduces consensus validation of that input: structural clauses (DESIGN.md section 4, C03)."""
from .. import astq, structure as S
from ..facts import AnalysisBroken, walk

EXPLANATION = (
    "R03.1 index-role discipline: tx->vin / mtx.vin and `amounts` are subscripted only by the input index (txin_index or the value it "
    "is assigned from), txin->vout only by the output index (txin_vout_index), in instance.cpp and tap.cpp; the output index is "
    "assigned only from prevout.n of the same input that defines the input index. R03.2 selection: both definitions of the input "
    "index are dominated by equality of the funding txid with that input's prevout.hash, and with --select the selected input is the "
    "one used (the select branch assigns the input index from the selection on every path to success; mismatch and out-of-range edges "
    "return false). R03.3 commitments fail closed: the P2SH-wrapped program hash (HASH160 of the pushed program), the v0 witness "
    "script/key hash (SHA256 for 32-byte programs, HASH160 for 20-byte ones) and the v1 script path (construction of the commitment "
    "environment after the control-size check) are each compared / constructed before the script to execute is chosen, with a "
    "rejecting mismatch edge. R03.4 script-switch epilogue (shared with C01 R01.5). R03.5 the P2SH redeem-script continuation exists "
    "only for SigVersion::BASE and only with the P2SH flag (every definition of is_p2sh carries both conjuncts). R03.6 agreement with "
    "the batch twin VerifyWitnessProgram on program sizes, the annex rule and the validation-weight initialiser. That a finished "
    "session equals consensus validity is NOT decided. R03.10: CheckLockTime / CheckSequence never narrow their 5-byte operand through the saturating CScriptNum::getint() outside log calls.")
TRUSTED = ["clang 14 parser/Sema/CFG", "/verif extractor"]
ASSUMPTIONS = ["the debugger leaves final-stack truthiness / clean-stack judgement to the user (not modelled)"]
DECLINED = ["equality of the finished session with consensus validity", "SIGPUSHONLY, witness-malleation and unexpected-witness rules (not modelled by the debugger)"]

ROLE = {"vin": {"txin_index", "select_index", "i"}, "amounts": {"txin_index"}, "vout": {"txin_vout_index"}}
# locals the patterns below are written over; every other single-assignment local is a hoisted sub-expression and is expanded
KEEP = ("wstack", "scriptSig", "scriptPubKey", "pushval", "wsh", "validation", "witprogver", "sigver", "control", "program", "stack", "wscript",
        "opcode", "it", "source", "i", "input", "select_index", "txin_hash", "hash", "p2sh_script", "execdata", "hashsrc", "amounts", "witness", "exec_script")


def index_vars(func, idx, depth=0):
    """names of the variables an index expression depends on; a local that is initialised once and never reassigned
    (a hoisted sub-expression) stands for the variables of its initialiser"""
    bases = {id(x.get("base")) for x in walk(idx) if x["k"] == "mem" and x.get("base") is not None}
    out = set()
    for x in walk(idx):
        if x["k"] not in ("ref", "mem") or id(x) in bases or x.get("dk") == "enumc":
            continue
        if x["k"] == "ref" and x.get("dk") == "local" and depth < 4 and x["n"] not in ROLE["vin"] | ROLE["vout"] | ROLE["amounts"]:
            decl = [d for n in func.nodes() if n["k"] == "decl" for d in n["decls"] if d.get("d") == x.get("d") and d.get("init") is not None]
            writes = [n for n in func.nodes() if (n["k"] in ("assign", "cassign") and n["lhs"].get("k") == "ref" and n["lhs"].get("d") == x.get("d"))
                      or (n["k"] == "un" and n.get("op") in ("++", "--") and n["e"].get("k") == "ref" and n["e"].get("d") == x.get("d"))]
            if len(decl) == 1 and not writes:
                out |= index_vars(func, decl[0]["init"], depth + 1)
                continue
        out.add(x["n"])
    return out


def _X(func, node):
    """spelling of an expression with hoisted locals expanded (see common.expand)"""
    from . import common as _c
    return _c.xstr(func, node, KEEP)


def run(ctx, anchors=None):
    fb, prog = ctx.facts, ctx.prog
    ctx.rule("R03.1", "index roles: vin/amounts by the input index, vout by the output index; output index from the same input's prevout.n")
    ctx.rule("R03.2", "input selection: txid equality dominates both definitions; --select is honoured; refusals return false")
    ctx.rule("R03.3", "hash commitments are checked (rejecting) before the script to execute is chosen")
    ctx.rule("R03.4", "script-switch epilogue (shared with C01 R01.5)")
    ctx.rule("R03.5", "P2SH continuation only for SigVersion::BASE and only with the P2SH flag")
    ctx.rule("R03.6", "agreement with VerifyWitnessProgram: program sizes, annex rule, validation weight")
    # ---- R03.1
    nsub = 0
    for f in fb.funcs.values():
        if f.file not in ("instance.cpp", "tap.cpp"):
            continue
        for n in f.nodes():
            base = idx = None
            if n["k"] == "opcall" and n.get("op") == "[]" and len(n["args"]) == 2:
                base, idx = n["args"]
            elif n["k"] == "index":
                base, idx = n["base"], n["idx"]
            if base is None:
                continue
            btxt = astq.estr(base)
            cont = None
            for c in ("vin", "vout", "amounts"):
                if btxt.endswith(c) or btxt.endswith(c + ")"):
                    cont = c
            if cont is None:
                continue
            # which transaction: vout of the funding tx only
            if cont == "vout" and "txin" not in btxt:
                continue
            if cont == "vin" and not ("tx" in btxt):
                continue
            ivars = index_vars(f, idx)
            if astq.const_value(idx) is not None:
                continue
            nsub += 1
            ctx.site()
            allowed = ROLE[cont]
            loop_ok = False
            if cont == "vin" and ivars <= {"i"}:
                loop_ok = any(a.get("k") == "for" and "vin.size()" in astq.estr(a.get("cond")) for a in f.ancestors(n))
            ok = bool(ivars) and ivars <= allowed and (("i" not in ivars) or loop_ok)
            # amounts[txin_index > -1 ? txin_index : 0] style is fine: variables used are all the input index
            key = "subscript=%s[%s]@%s" % (cont, astq.estr(idx)[:30], f.name)
            ctx.inst(ok, "R03.1", key, f.loc(n), "%s[...] is indexed by %s" % (btxt, sorted(ivars)),
                     "`%s` indexes the %s with %s; %s must be indexed by %s (a spend whose input position differs from the spent output position reads the wrong %s)"
                     % (astq.estr(n)[:70], "funding outputs" if cont == "vout" else ("spending inputs" if cont == "vin" else "amount list"), sorted(ivars), cont, sorted(allowed - {"i", "select_index"}),
                        "output" if cont == "vout" else "input"))
    ctx.floor("R03.1", nsub, 12, "subscripts of vin / vout / amounts in instance.cpp and tap.cpp")
    pit = fb.fn("Instance::parse_input_transaction")
    cfg = pit.cfg()

    from . import common as _cm
    _cm.require_names(pit, ["select_index", "txin_hash", "txin_index", "txin_vout_index"], "R03.2")
    defs_in = [n for n in pit.nodes() if n["k"] == "assign" and _X(pit, n["lhs"]).endswith("txin_index") and not _X(pit, n["lhs"]).endswith("vout_index")]
    defs_out = [n for n in pit.nodes() if n["k"] == "assign" and _X(pit, n["lhs"]).endswith("txin_vout_index")]
    ctx.floor("R03.2", len(defs_in), 1, "definitions of the input index")
    for d in defs_out:
        ctx.site()
        r = _cm.xstr(pit, d["rhs"], KEEP)
        # the matching input-index definition in the same block
        sib = [x for x in defs_in if cfg.position(x) and cfg.position(d) and cfg.position(x)[0] == cfg.position(d)[0]]
        same = False
        if sib:
            iv = _cm.xstr(pit, sib[0]["rhs"], KEEP)
            same = r.endswith("prevout.n") and (("vin[%s]" % iv) in r or (iv == "i" and r.startswith("input.")))
        ctx.inst(same, "R03.1", "vout-index-from-same-input:" + r[:40], pit.loc(d), "txin_vout_index = prevout.n of the input that defines txin_index",
                 "txin_vout_index is assigned `%s`, which is not prevout.n of the input chosen as txin_index" % r)
    # ---- R03.2
    rej = [n for n in pit.nodes() if n["k"] == "return" and astq.const_value(n.get("e")) == 0]
    for d in defs_in:
        ctx.site()
        eq = False
        for (c, t) in cfg.guards_of(d):
            cn = pit.node_by_id(c)
            txt = _X(pit, cn) if cn else ""
            if "prevout.hash" in txt and "txin_hash" in txt and (("==" in txt and t) or ("!=" in txt and not t)):
                eq = True
        ctx.inst(eq, "R03.2", "txid-match-before:" + _X(pit, d)[:40], pit.loc(d), "the input index is only set for an input whose prevout.hash equals the funding txid",
                 "`%s` is not dominated by prevout.hash == funding txid" % _X(pit, d))
    sel_if = [n for n in pit.nodes() if n["k"] == "if" and _X(pit, n["cond"]).replace(" ", "") in ("(select_index>-1)", "(select_index>=0)")]
    if not sel_if:
        ctx.fail("R03.2", "select-branch", pit.loc(), "the --select branch (select_index > -1) was not found")
    else:
        s_if = sel_if[0]
        s_defs = [d for d in defs_in if S.contains(s_if["then"], d) and _X(pit, d["rhs"]) == "select_index"]
        oks = False
        if s_defs and s_if.get("else") is not None:
            # every path through the then-branch either rejects or passes the definition
            then_first = cfg.position(s_if["then"])
            oks = then_first is not None and cfg.must_pass_from_block(then_first[0], s_defs + rej)
        ctx.site()
        ctx.inst(oks, "R03.2", "select-honoured", pit.loc(s_if), "with --select the input index is assigned from the selection on every non-rejecting path of that branch, and auto-detection is the else-branch",
                 "with --select the input index is not taken from the selection (the branch %s): another input spending the same transaction can be debugged instead"
                 % ("never assigns txin_index = select_index" if not s_defs else "falls through into auto-detection"))
        bounds = [n for n in walk(s_if["then"]) if n["k"] == "if" and "vin.size()" in _X(pit, n["cond"]) and "select_index" in _X(pit, n["cond"]) and S.terminates(n["then"])]
        mism = [n for n in walk(s_if["then"]) if n["k"] == "if" and "prevout.hash" in _X(pit, n["cond"]) and "!=" in _X(pit, n["cond"]) and S.terminates(n["then"])]
        ctx.inst(bool(bounds) and bool(mism), "R03.2", "select-refusals", pit.loc(s_if), "an out-of-range or non-matching selection returns false")
    nf = [n for n in pit.nodes() if n["k"] == "if" and "txin_index" in _X(pit, n["cond"]) and "-1" in _X(pit, n["cond"]) and S.terminates(n["then"])]
    ctx.inst(bool(nf), "R03.2", "no-match-refused", pit.loc(nf[0]) if nf else pit.loc(), "a funding transaction that no input spends is refused")

    # ---- R03.3 on the accepting paths of configure_tx_txin (G-SYM outcomes, see c03_setup)
    cf = fb.fn("Instance::configure_tx_txin")
    from . import common as _cm
    from . import c03_setup
    c03_setup.check_commitments(ctx, fb, prog)
    c03_setup.check_commitment_not_skipped(ctx, fb, prog)
    # the stepper runs the commitment first and fails the step on Failed
    stepper = fb.fn("StepScript", file="debugger/interpreter.cpp")
    first_if = [n for n in stepper.nodes() if n["k"] == "if" and astq.estr(n["cond"]).replace(" ", "") in ("env.tce",)]
    scfg = stepper.cfg()
    opcall = [n for n in stepper.nodes() if astq.is_call(n) and n.get("callee") == "StepScript"]
    ctx.inst(bool(first_if) and all(scfg.dominates(first_if[0]["cond"], c) for c in opcall), "R03.3", "commitment-runs-before-script", stepper.loc(first_if[0]) if first_if else stepper.loc(),
             "while a commitment environment exists the stepper iterates it before any script operation")
    # ---- R03.7 the script version is decided by configure_tx_txin on every path to success (parse_transaction pre-sets
    # WITNESS_V0 whenever ANY input has a witness, so a branch that does not assign it inherits the wrong version)
    ctx.rule("R03.7", "every successful path of configure_tx_txin assigns the script version (BASE for the legacy branch)")
    c03_setup.check_sigver(ctx, fb, prog)
    # ---- R03.4 (shared)
    from .. import report
    from . import c01
    sub = report.Ctx("C01", ctx.tier, fb, prog, ctx.seed)
    c01.run(sub)
    for i in sub.instances:
        if i["rule"] == "R01.5":
            ctx.instances.append(dict(i, rule="R03.4"))
    # ---- R03.5
    ndef = 0
    for f in fb.funcs.values():
        if not f.file.startswith("debugger/"):
            continue
        for n in f.nodes():
            if n["k"] == "assign" and astq.estr(n["lhs"]).split(".")[-1] == "is_p2sh":
                if astq.const_value(n["rhs"]) == 0:
                    continue
                ndef += 1
                ctx.site()
                cj = [astq.estr(c) for c in S.conjuncts(astq.inline_pure(prog.resolve, astq.expand(f, n["rhs"])))]
                has_base = any("sigversion == SigVersion::BASE" in c for c in cj)
                has_flag = any("SCRIPT_VERIFY_P2SH" in c and "flags" in c and not c.startswith("!") for c in cj)
                ctx.inst(has_base and has_flag, "R03.5", "p2sh-only-for-BASE-with-flag@%s" % f.name, f.loc(n),
                         "is_p2sh requires sigversion == BASE and the P2SH flag",
                         "is_p2sh is defined as `%s` without %s: %s" % (" && ".join(cj)[:90], "the sigversion == BASE conjunct" if not has_base else "the SCRIPT_VERIFY_P2SH flag conjunct",
                                                                    "witness scripts of the shape HASH160 <20> EQUAL get a bogus redeem-script phase" if not has_base else "the redeem script is executed even when the P2SH flag is cleared"))
    ctx.floor("R03.5", ndef, 2, "definitions of is_p2sh")
    c03_setup.check_p2sh_once(ctx, fb, prog)
    # ---- R03.6 agreement with the batch twin, on the accepting paths of both
    c03_setup.check_agreement(ctx, fb, prog)
    c03_setup.check_initial_stack(ctx, fb, prog)
    c03_setup.check_scripts_validated(ctx, fb, prog)
    amt = [n for n in cf.nodes() if n["k"] == "assign" and "amounts[txin_index]" in _X(cf, n["lhs"])]
    ctx.inst(bool(amt) and "vout[txin_vout_index]" in _cm.xstr(cf, amt[0]["rhs"], KEEP).replace(" ", "") and _cm.xstr(cf, amt[0]["rhs"], KEEP).endswith(".nValue"), "R03.6", "amount-from-spent-output", cf.loc(amt[0]) if amt else cf.loc(),
             "the amount of the debugged input is taken from the referenced output")

    # ---- R03.8 the BIP341 / BIP342 consensus rules are not switched by policy flags: an error return carrying one of their codes
    # (SCRIPT_ERR_TAPSCRIPT_*, SCRIPT_ERR_SCHNORR_*, SCRIPT_ERR_TAPROOT_WRONG_CONTROL_SIZE) sits under no test of the verification
    # flags other than the soft-fork activation bits (P2SH, WITNESS, TAPROOT): with a policy flag cleared, validation still rejects.
    ctx.rule("R03.8", "error returns of the taproot / tapscript consensus rules are not gated by a policy flag")
    ACTIVATION = {"SCRIPT_VERIFY_P2SH", "SCRIPT_VERIFY_WITNESS", "SCRIPT_VERIFY_TAPROOT"}
    n38 = 0
    seen38 = set()
    for f in sorted(fb.funcs.values(), key=lambda f_: f_.id):
        if f.body is None or not f.file.startswith(("script/interpreter.", "debugger/", "instance.")) or (f.file, f.line) in seen38:
            continue
        sites = [n for n in f.nodes() if n["k"] == "ref" and n.get("dk") == "enumc" and
                 (n["n"].startswith(("SCRIPT_ERR_TAPSCRIPT_", "SCRIPT_ERR_SCHNORR_")) or n["n"] == "SCRIPT_ERR_TAPROOT_WRONG_CONTROL_SIZE")]
        if not sites:
            continue
        seen38.add((f.file, f.line))
        fcfg = f.cfg()
        for n in sites:
            n38 += 1
            ctx.site()
            gating = []
            for (c_, t_) in fcfg.guards_of(n):      # CFG dominance only: in `tapscript || (v0 && (flags & F))` the flag test does not dominate
                cn = f.node_by_id(c_)
                if cn is None or not any(x["k"] in ("ref", "mem") and x.get("n") == "flags" for x in walk(cn)):
                    continue
                bits = {x["n"] for x in walk(cn) if x["k"] == "ref" and x.get("dk") == "enumc" and x["n"].startswith("SCRIPT_VERIFY_")}
                if not bits or bits - ACTIVATION:
                    gating.append((astq.estr(cn)[:60], sorted(bits - ACTIVATION)))
            ctx.inst(not gating, "R03.8", "consensus-error-not-flag-gated:%s@%s" % (n["n"].replace("SCRIPT_ERR_", ""), f.name.split("(")[0].split("<")[0]), f.loc(n),
                     "%s is returned under no policy-flag test" % n["n"],
                     "%s in %s is returned only under `%s`: with %s cleared the debugger accepts what BIP341/342 reject whatever the flags"
                     % ((n["n"], f.name, gating[0][0], ", ".join(gating[0][1]) or "that flag test") if gating else (n["n"], f.name, "", "")))
    ctx.floor("R03.8", n38, 5, "error returns of the taproot / tapscript consensus rules")

    # ---- R03.9 BIP68 / BIP112 treat the transaction version as an unsigned number (a version with the top bit set is >= 2): an
    # ordering comparison of nVersion is made on an unsigned operand.
    ctx.rule("R03.9", "ordering comparisons of the transaction version are unsigned (BIP68)")
    n39 = 0
    seen39 = set()
    for f in sorted(fb.funcs.values(), key=lambda f_: f_.id):
        if f.body is None or not f.file.startswith(("script/interpreter.", "debugger/", "instance.")):
            continue
        if not any(x["k"] == "mem" and x.get("n") == "nVersion" for x in f.nodes()):
            continue
        for par in f.nodes():
            if par["k"] != "bin" or par.get("op") not in ("<", "<=", ">", ">=") or (f.file, par.get("l"), par.get("c")) in seen39:
                continue
            sides = [sd for sd in (par["lhs"], par["rhs"]) if any(x["k"] == "mem" and x.get("n") == "nVersion" for x in walk(astq.expand(f, sd) or {}))]
            if not sides:
                continue      # (a local holding the version counts: `const uint32_t v = nVersion; if (v < 2)`)
            seen39.add((f.file, par.get("l"), par.get("c")))
            top = sides[0]
            n39 += 1
            ctx.site()
            ty = (top.get("ty") or "")
            uns = ty.replace("const ", "").startswith(("uint", "unsigned")) or "size_t" in ty
            ctx.inst(uns, "R03.9", "version-compared-unsigned@" + f.name.split("(")[0].split("<")[0], f.loc(par), "`%s` compares the version as %s" % (astq.estr(par)[:50], ty),
                     "`%s` in %s compares the version as the signed %s: a transaction whose version has the top bit set (0x80000002) counts as < 2, and OP_CHECKSEQUENCEVERIFY fails although consensus (BIP68/112) accepts it"
                     % (astq.estr(par)[:60], f.name, ty or "int"))
    ctx.floor("R03.9", n39, 1, "ordering comparisons of nVersion")

    # ---- R03.10 lock-time operands have up to 5 bytes (BIP65 / BIP112: values up to 2^39-1); CScriptNum::getint() saturates at
    # +-2^31-1. The transaction checker compares its operand through CScriptNum's 64-bit operators: a getint() of the operand that
    # feeds anything but a log line makes every lock time >= 2^31 compare as 2^31-1 (seed C03-K: an unsatisfied
    # OP_CHECKLOCKTIMEVERIFY passes when script and transaction lock times are both >= 2^31-1).
    ctx.rule("R03.10", "CheckLockTime / CheckSequence never narrow their 5-byte operand through the saturating getint()")
    n310 = 0
    seen310 = set()
    for f in sorted(fb.funcs.values(), key=lambda f_: f_.id):
        base = f.name.split("(")[0].split("::")[-1]
        if f.body is None or base not in ("CheckLockTime", "CheckSequence") or not f.file.startswith("script/interpreter.") or "Generic" not in (f.rec or f.name):
            continue
        if (f.file, f.line) in seen310:
            continue
        seen310.add((f.file, f.line))
        pnames = {p_["n"] for p_ in f.params if "CScriptNum" in (p_.get("ty") or "")}
        if not pnames:
            raise AnalysisBroken("R03.10: %s takes no CScriptNum operand" % f.name)
        n310 += 1
        ctx.site()
        narrowed = []
        for n in f.nodes():
            if n["k"] != "mcall" or n.get("n") != "getint" or n.get("obj") is None:
                continue
            src = astq.expand(f, n["obj"]) or n["obj"]
            if not any(x.get("k") == "ref" and x.get("n") in pnames for x in walk(src)):
                continue
            def log_call(a):
                nm = a.get("n") or ((a.get("fn") or {}).get("n") if isinstance(a.get("fn"), dict) else None) or ""     # the loggers are function pointers
                return astq.is_call(a) and (a.get("ty") or "") == "void" and (nm.startswith("btc_") and nm.endswith("logf")) or nm in ("printf", "fprintf")
            if any(log_call(a) for a in f.ancestors(n)):
                continue
            narrowed.append(n)
        ctx.inst(not narrowed, "R03.10", "operand-not-narrowed@" + base, f.loc(narrowed[0]) if narrowed else f.loc(),
                 "%s compares its operand through CScriptNum's 64-bit operators (no getint() outside log lines)" % base,
                 "%s narrows its operand with `%s` (saturating at 2^31-1) outside a log line: 5-byte lock times >= 2^31 all compare as 2147483647, so an unsatisfied lock passes when the transaction's value is >= 2^31-1"
                 % (f.name.split("(")[0], astq.estr(narrowed[0])[:40] if narrowed else ""))
    ctx.floor("R03.10", n310, 2, "CheckLockTime and CheckSequence of the transaction checker")


MUTANTS = [
    dict(name="locktime-operand-through-getint", file="script/interpreter.cpp", find="    if (nLockTime > (int64_t)txTo->nLockTime)", replace="    if (nLockTime.getint() > (int64_t)txTo->nLockTime)", expect=["R03.10:operand-not-narrowed@CheckLockTime"]),
    dict(name="version-compared-signed", file="script/interpreter.cpp", find="    if (static_cast<uint32_t>(txTo->nVersion) < 2)", replace="    if (txTo->nVersion < 2)", expect=["R03.9:version-compared-unsigned"]),
    dict(name="element-limit-on-the-whole-witness", file="instance.cpp", find="            for (const auto& item : stack) {\n                if (item.size() > MAX_SCRIPT_ELEMENT_SIZE) {", replace="            for (const auto& item : wstack) {\n                if (item.size() > MAX_SCRIPT_ELEMENT_SIZE) {", expect=["R03.6:element-limit-on-the-initial-stack"]),
    dict(name="annex-hashed-without-its-length", file="instance.cpp", find="                execdata.m_annex_hash = (HashWriter{} << stack.back()).GetSHA256();", replace="                execdata.m_annex_hash = (HashWriter{} << Span<const unsigned char>{stack.back()}).GetSHA256();", expect=["R03.6:annex-hash"]),
    dict(name="tapscript-minimalif-behind-the-policy-flag", file="script/interpreter.cpp", find="                        if (sigversion == SigVersion::TAPSCRIPT) {\n                            // The input argument to the OP_IF and OP_NOTIF opcodes must be either", replace="                        if (sigversion == SigVersion::TAPSCRIPT && (flags & SCRIPT_VERIFY_MINIMALIF)) {\n                            // The input argument to the OP_IF and OP_NOTIF opcodes must be either", expect=["R03.8:consensus-error-not-flag-gated:TAPSCRIPT_MINIMALIF@StepScript"]),
    dict(name="legacy-scripts-not-validated", file="instance.cpp", find="        if (!scriptSig.HasValidOps() || !scriptPubKey.HasValidOps()) {", replace="        if (false) {", expect=["R03.6:scripts-validated-before-the-session"]),
    dict(name="annex-pushed-as-argument", file="instance.cpp", find="                wstack_to_stack = stack.size(); // the annex, if any, is not an argument\n", replace="", expect=["R03.6:initial-stack-excludes-annex-control-script"]),
    dict(name="witness-items-through-the-text-parser", file="instance.cpp", find="            stack.push_back(wstack[i]);\n", replace="            stack.push_back(Value(HexStr(wstack[i]).c_str()).data_value());\n", expect=["R03.6:witness-items-verbatim"]),
    dict(name="p2sh-mark-survives-the-redeem-script", file="debugger/interpreter.cpp", find="            // Restore stack.\n            is_p2sh = false;\n", replace="            // Restore stack.\n", expect=["R03.5:p2sh-continuation-once"]),
    dict(name="commitment-skipped-for-empty-script", file="instance.cpp", find="    env->done &= successor_script.size() == 0 && !tce;\n", replace="    env->done &= successor_script.size() == 0;\n", expect=["R03.3:pending-commitment-not-done"]),
    dict(name="tce-over-wrong-script", file="instance.cpp", find="tce = new TaprootCommitmentEnv(control, program, scriptPubKey, &execdata.m_tapleaf_hash);", replace="tce = new TaprootCommitmentEnv(control, program, CScript(wstack.front().begin(), wstack.front().end()), &execdata.m_tapleaf_hash);", expect=["R03.3:v1-script-path-commitment"]),
    dict(name="tce-dropped", file="instance.cpp", find="                tce = new TaprootCommitmentEnv(control, program, scriptPubKey, &execdata.m_tapleaf_hash);\n", replace="", expect=["R03.3:v1-script-path-commitment"]),
    dict(name="v1-program-size-unchecked", file="instance.cpp", find="            if (program.size() != WITNESS_V1_TAPROOT_SIZE) {", replace="            if (false) {", expect=["R03.6:v1-program-size", "R03.3:v1-script-path-commitment"]),
    dict(name="leaf-version-any", file="instance.cpp", find="if ((control[0] & TAPROOT_LEAF_MASK) == TAPROOT_LEAF_TAPSCRIPT) {\n                    // Tapscript (leaf version 0xc0)\n                    execdata.m_validation_weight_left", replace="if (true) {\n                    execdata.m_validation_weight_left", expect=["R03.6:leaf-version-dispatch"]),
    dict(name="leaf-version-unmasked", file="instance.cpp", find="if ((control[0] & TAPROOT_LEAF_MASK) == TAPROOT_LEAF_TAPSCRIPT) {\n                    // Tapscript (leaf version 0xc0)\n                    execdata.m_validation_weight_left", replace="if (control[0] == TAPROOT_LEAF_TAPSCRIPT || control[0] == 0xc1) {\n                    execdata.m_validation_weight_left", expect=["R03.6:leaf-version-dispatch"]),
    dict(name="v0-size-unchecked", file="instance.cpp", find="        if (pushval.size() != (wsh ? 32 : 20)) {", replace="        if (false) {", expect=["R03.3:v0-program-size", "R03.3:v0-program-hash-checked"]),
    dict(name="annex-any-tag", file="instance.cpp", find="!stack.back().empty() && stack.back()[0] == ANNEX_TAG) {", replace="!stack.back().empty() && stack.back()[0] >= ANNEX_TAG) {", expect=["R03.6:annex-rule"]),
    dict(name="weight-of-stripped-stack", file="instance.cpp", find="::GetSerializeSize(wstack, PROTOCOL_VERSION) + VALIDATION_WEIGHT_OFFSET;", replace="::GetSerializeSize(stack, PROTOCOL_VERSION) + VALIDATION_WEIGHT_OFFSET;", expect=["R03.6:validation-weight"]),
    dict(name="legacy-for-any-input", file="instance.cpp", find="    if (wstack.size() > 0) {\n        // segwit", replace="    if (wstack.size() > 1) {\n        // segwit", expect=["R03.7:legacy-branch-is-BASE"]),
    dict(name="legacy-sigver-not-assigned", file="instance.cpp", find="            return false;\n        }\n        sigver = SigVersion::BASE;\n        script = scriptSig;\n", replace="            return false;\n        }\n        script = scriptSig;\n", expect=["R03.7:sigver-assigned-on-every-path", "R03.7:legacy-branch-is-BASE"]),
    dict(name="vout-by-input-index", file="instance.cpp", find="    spent_outputs.emplace_back(txin->vout[txin_vout_index]);\n    txdata = PrecomputedTransactionData();", replace="    spent_outputs.emplace_back(txin->vout[txin_index]);\n    txdata = PrecomputedTransactionData();", expect=["R03.1:subscript=vout"]),
    dict(name="witness-of-wrong-input", file="instance.cpp", find="    auto& wstack = tx->vin[txin_index].scriptWitness.stack;", replace="    auto& wstack = tx->vin[txin_vout_index].scriptWitness.stack;", expect=["R03.1:subscript=vin"]),
    dict(name="select-ignored", file="instance.cpp", find="            txin_index = select_index;\n            txin_vout_index = tx->vin[select_index].prevout.n;\n        } else {", replace="        }\n        {", expect=["R03.2:select-honoured", "R03.2:select-branch"]),
    dict(name="vout-index-from-other-input", file="instance.cpp", find="            txin_vout_index = tx->vin[select_index].prevout.n;", replace="            txin_vout_index = tx->vin[0].prevout.n;", expect=["R03.1:vout-index-from-same-input"]),
    dict(name="select-mismatch-accepted", file="instance.cpp", find="            if (txin_hash != tx->vin[select_index].prevout.hash) {", replace="            if (false && txin_hash != tx->vin[select_index].prevout.hash) {", expect=["R03.2:txid-match-before", "R03.2:select-refusals"]),
    dict(name="wsh-hash-mismatch-accepted", file="instance.cpp", find="            if (wscript.data != pushval) {", replace="            if (wscript.data != pushval && false) {", expect=["R03.3:v0-program-hash-checked"]),
    dict(name="wsh-hash-functions-swapped", file="instance.cpp", find="            if (wsh) {\n                wscript.do_sha256();", replace="            if (!wsh) {\n                wscript.do_sha256();", expect=["R03.3:v0-program-hash-checked"]),
    dict(name="p2sh-hash-unchecked", file="instance.cpp", find="            if (uint160(hashsrc.data_value()) != uint160(pushval)) {", replace="            if (false) {", expect=["R03.3:p2sh-wrapped-hash-checked"]),
    dict(name="p2sh-for-witness-scripts", file="debugger/interpreter.cpp", find="    is_p2sh = (\n        sigversion == SigVersion::BASE &&\n", replace="    is_p2sh = (\n", expect=["R03.5:p2sh-only-for-BASE-with-flag@InterpreterEnv::InterpreterEnv"]),
    dict(name="p2sh-without-flag", file="debugger/interpreter.cpp", find="            env.sigversion == SigVersion::BASE &&\n            (env.flags & SCRIPT_VERIFY_P2SH) &&\n", replace="            env.sigversion == SigVersion::BASE &&\n", expect=["R03.5:p2sh-only-for-BASE-with-flag@StepScript"]),
    dict(name="annex-rule-relaxed", file="instance.cpp", find="if (stack.size() >= 2 && !stack.back().empty() && stack.back()[0] == ANNEX_TAG) {", replace="if (stack.size() >= 1 && !stack.back().empty() && stack.back()[0] == ANNEX_TAG) {", expect=["R03.6:annex-rule"]),
    dict(name="weight-without-offset", file="instance.cpp", find="execdata.m_validation_weight_left = ::GetSerializeSize(wstack, PROTOCOL_VERSION) + VALIDATION_WEIGHT_OFFSET;", replace="execdata.m_validation_weight_left = ::GetSerializeSize(wstack, PROTOCOL_VERSION);", expect=["R03.6:validation-weight"]),
    dict(name="balance-check-removed", file="debugger/interpreter.cpp", find="    if (!vfExec.empty()) {\n        env.done = true;\n        return set_error(serror, SCRIPT_ERR_UNBALANCED_CONDITIONAL);\n    }\n\n    if (is_p2sh) {", replace="    if (is_p2sh) {", expect=["R03.4:balance-check-at-switch"]),
]
