"""C17 - re-enabled opcodes (DESIGN.md section 4, C17)."""
import os
from .. import astq, structure as S
from ..facts import AnalysisBroken, walk
from . import common

EXPLANATION = (
    "Table-agreement and guard-dominance analysis of the re-enabled ('disabled') opcodes. R17.1: the three label sets that "
    "must agree are extracted from the resolved AST - the opcodes compared in the disabled-opcode gate, the case group of the "
    "interpreter switch that dispatches to StepExtended, and the case labels StepExtended handles - and compared as sets "
    "(an opcode gated and dispatched but not handled reaches `default: assert(0)`). R17.2: inside every multi-label case group "
    "of StepExtended and of the consensus switch, a nested switch(opcode) or a chain of parallel `opcode == L` arms without a "
    "final else must cover every label of the group (a missing arm silently computes nothing or hits an assert). R17.3: every "
    "`/`, `%`, `<<`, `>>` whose right operand is script data (CScriptNum operators called from StepExtended) is dominated by a "
    "zero / range test that rejects. R17.4: the gate is evaluated before, and not nested under, the executed/unexecuted test, its "
    "true edge returns SCRIPT_ERR_DISABLED_OPCODE, it is conditioned on !allow_disabled_opcodes, and that field is written only "
    "by the constructor default (false) and from option -z. R17.5: every failing exit of StepExtended sets a script error. "
    "What the opcodes compute (that OP_CAT concatenates etc.) is not decided.")
TRUSTED = ["clang 14 parser/Sema/CFG", "/verif extractor and engines"]
ASSUMPTIONS = ["opcode identity is taken from enumerator declarations, not spelling"]
DECLINED = ["the string, bitwise and arithmetic functions themselves (value level)"]


def eq_opcode_labels(cond, is_opcode):
    """opcodes L for which cond is a disjunction of `opcode == L`; None if not of that shape"""
    return S.compared_enumerators(cond, is_opcode)


def run(ctx, anchors=None):
    fb, prog = ctx.facts, ctx.prog
    A = anchors or {"opstep": ("StepScript", "script/interpreter.cpp"), "ext": ("StepExtended", "debugger/interpreter.cpp"),
                    "allow": "allow_disabled_opcodes", "err": "SCRIPT_ERR_DISABLED_OPCODE"}
    opstep = fb.fn(*A["opstep"])
    ext = fb.fn(*A["ext"])
    ctx.rule("R17.1", "gate list == dispatcher group == handler labels")
    ctx.rule("R17.2", "parallel arms / nested switch inside a multi-label case group cover every label of the group")
    ctx.rule("R17.3", "division, modulo and shifts by script data are dominated by a rejecting zero / range test")
    ctx.rule("R17.4", "the disabled-opcode gate precedes the executed test, returns DISABLED_OPCODE, and is controlled only by -z")
    ctx.rule("R17.5", "every failing exit of StepExtended sets a script error")
    al = astq.aliases(opstep)
    eal = astq.aliases(ext)

    def is_opcode(e, al_=None, f=None):
        ps = astq.paths(e, al_ if al_ is not None else al)
        return any(p[-1] == "opcode" for p in ps)

    # ---- gate
    gate = None
    for n in opstep.nodes():
        if n["k"] != "if":
            continue
        cj = S.conjuncts(n["cond"])
        labs = None
        rest = []
        for c in cj:
            l = common.opcode_predicate_set(prog, opstep, c, is_opcode)
            if l and 8 <= len(l) <= 64:
                labs = l
            else:
                rest.append(c)
        if not labs:
            continue
        gate = (n, labs)
        allow_ok = False
        extras = []
        for c in rest:
            a, neg = S.strip_not(c)
            if neg and a is not None and a.get("k") == "mem" and a["n"] == A["allow"]:
                allow_ok = True
            else:
                extras.append(astq.estr(c))
        ctx.inst(allow_ok and not extras, "R17.4", "gate-conditioned-on-option", opstep.loc(n),
                 "the gate is exactly !allow_disabled_opcodes && (opcode == ...)",
                 "the gate is conditioned on %s (expected only !allow_disabled_opcodes)" % (extras or "nothing"))
    if gate is None:
        ctx.fail("R17.4", "gate-present", opstep.loc(), "the operation step has no disabled-opcode test of the form `opcode == OP_CAT || ...` before the executed/unexecuted "
                 "test: without --allow-disabled-opcodes a disabled opcode inside an unexecuted branch is no longer rejected")
        return
    gnode, gate_labels = gate
    ctx.site(len(gate_labels))
    # ---- dispatcher group
    sws = [s for s in S.find_switches(opstep) if is_opcode(s["cond"])]
    if not sws:
        raise AnalysisBroken("R17: opcode switch not found")
    main_sw = sws[0]
    groups = S.case_groups(main_sw)
    disp = None
    for g in groups:
        for n in g.nodes():
            if n["k"] == "call" and n.get("cid") == ext.id:
                disp = g
    if disp is None:
        raise AnalysisBroken("R17: no case group dispatches to StepExtended")
    disp_labels = set(disp.names())
    # ---- handler labels
    esw = [s for s in S.find_switches(ext) if is_opcode(s["cond"], eal)]
    if not esw:
        raise AnalysisBroken("R17: StepExtended has no switch on the opcode")
    outer = esw[0]
    egroups = S.case_groups(outer)
    handled = set()
    default_group = None
    for g in egroups:
        for (nm, v, cn) in g.labels:
            if v == "default":
                default_group = g
            else:
                handled.add(nm)
    ctx.site(len(handled) + len(disp_labels))
    ctx.floor("R17.1", len(gate_labels), 10, "opcodes in the disabled-opcode gate")
    for op in sorted(gate_labels | disp_labels | handled):
        sn = op.split("::")[-1]
        ing, ind, inh = op in gate_labels, op in disp_labels, op in handled
        if ing and ind and inh:
            ctx.ok("R17.1", "opcode=" + sn, ext.loc(), "%s is gated, dispatched and handled" % sn)
        else:
            what = []
            if not ing:
                what.append("not in the disabled-opcode gate (executes without --allow-disabled-opcodes)")
            if not ind:
                what.append("not dispatched to StepExtended (falls to the default: bad opcode)")
            if not inh:
                what.append("has no handler in StepExtended (hits `default: assert(0)` -> abort)")
            ctx.fail("R17.1", "opcode=" + sn, ext.loc(outer), "%s: %s" % (sn, "; ".join(what)),
                     detail={"gated": ing, "dispatched": ind, "handled": inh})
    # default of StepExtended must not be a silent success
    if default_group is not None:
        txt = [n for n in default_group.nodes()]
        is_assert = any(n["k"] == "call" and n.get("n") == "__assert_fail" for n in txt)
        is_err = any(n["k"] == "call" and n.get("n") == "set_error" for n in txt)
        ctx.inst(is_assert or is_err, "R17.1", "default-not-success", ext.loc(default_group.labels[0][2]),
                 "the default of StepExtended does not succeed silently")

    # ---- R17.2 parallel arms, both functions
    def check_groups(func, fal, sw, tag):
        n_groups = 0
        for g in S.case_groups(sw):
            labels = [nm for (nm, v, cn) in g.labels if v != "default"]
            if len(labels) < 2:
                continue
            n_groups += 1
            lset = set(labels)
            gname = "/".join(x.split("::")[-1] for x in labels[:3]) + ("+%d" % (len(labels) - 3) if len(labels) > 3 else "")
            # nested switches on the opcode
            for n in g.nodes():
                ctx.site()
                if n["k"] == "switch" and n is not sw and is_opcode(n["cond"], fal):
                    inner = S.case_groups(n)
                    cov = set()
                    has_default_ok = False
                    for ig in inner:
                        for (nm, v, cn) in ig.labels:
                            if v == "default":
                                body = list(ig.nodes())
                                if not any(x["k"] == "call" and x.get("n") == "__assert_fail" for x in body):
                                    has_default_ok = True
                            else:
                                cov.add(nm)
                    miss = lset - cov
                    ctx.inst(not miss or has_default_ok, "R17.2", "%s:nested-switch:%s" % (tag, gname), func.loc(n),
                             "nested switch covers all %d labels of the group" % len(lset),
                             "group {%s}: nested switch has no arm for %s (its default asserts -> abort)" % (gname, ", ".join(sorted(x.split("::")[-1] for x in miss))))
                if n["k"] == "if":
                    # head of an if / else-if chain selecting by opcode
                    par = func.parent(n)
                    if par is not None and par.get("k") == "if" and par.get("else") is n:
                        continue
                    arms = []
                    cur = n
                    final_else = False
                    while cur is not None and cur.get("k") == "if":
                        labs = eq_opcode_labels(cur["cond"], lambda e: is_opcode(e, fal))
                        if labs is None:
                            arms = None
                            break
                        arms.append(labs)
                        nxt = cur.get("else")
                        if nxt is not None and nxt.get("k") != "if":
                            final_else = True
                            nxt = None
                        cur = nxt
                    if not arms or len(arms) < 2 or final_else:
                        continue
                    cov = set().union(*arms)
                    miss = lset - cov
                    ctx.inst(not miss, "R17.2", "%s:arm-chain:%s" % (tag, gname), func.loc(n),
                             "the %d parallel arms cover all labels of the group" % len(arms),
                             "group {%s}: arms exist for %s but not for %s - that opcode silently leaves its operand unchanged"
                             % (gname, ", ".join(sorted(x.split("::")[-1] for x in cov)), ", ".join(sorted(x.split("::")[-1] for x in miss))))
        return n_groups
    ng = check_groups(ext, eal, outer, "StepExtended")
    ng += check_groups(opstep, al, main_sw, "StepScript")
    ctx.floor("R17.2", ng, 8, "multi-label case groups inspected")

    # ---- R17.3 trap-capable arithmetic on script data
    TRAP = {"/": "zero", "%": "zero", "<<": "range", ">>": "range"}
    trap_fns = {}
    for f in fb.funcs.values():
        if f.rec != "CScriptNum" or not f.short.startswith("operator"):
            continue
        for n in f.nodes():
            if n["k"] == "bin" and n["op"] in TRAP and astq.const_value(n["rhs"]) is None:
                trap_fns[f.id] = (f, n["op"])
    ncalls = 0
    for n in ext.nodes():
        if n["k"] == "opcall" and n.get("cid") in trap_fns:
            ncalls += 1
            ctx.site()
            f, op = trap_fns[n["cid"]]
            divisor = n["args"][1]
            dtxt = astq.estr(divisor)
            # a divisor / count constructed from a compile-time constant is judged on its value
            dv = divisor
            while dv is not None and dv.get("k") in ("cast", "ctor") and (dv.get("e") is not None or len(dv.get("args", [])) == 1):
                dv = dv.get("e") if dv.get("k") == "cast" else dv["args"][0]
            cval = astq.const_value(dv)
            if cval is not None:
                good = (cval != 0) if TRAP[op] == "zero" else (0 <= cval <= 63)
                ctx.inst(good, "R17.3", "trap:%s:const=%s" % (op, cval), ext.loc(n), "`%s` has the constant right operand %s" % (astq.estr(n), cval),
                         "`%s` has the constant right operand %s" % (astq.estr(n), cval))
                continue
            # dominating rejecting guard mentioning the divisor
            cfg = ext.cfg()
            guards = cfg.guards_of(n)
            ok = False
            for (c, t) in guards:
                cn = ext.node_by_id(c)
                if cn is None:
                    continue
                txt = astq.estr(cn)
                if dtxt not in txt:
                    continue
                if TRAP[op] == "zero" and t is False and ("== 0" in txt):
                    ok = True
                if TRAP[op] == "zero" and t is True and ("!= 0" in txt):
                    ok = True
                if TRAP[op] == "range" and t is False and ("<" in txt or ">" in txt):
                    ok = True
            key = "trap:%s:%s" % (op, dtxt)
            kind = "a zero test" if TRAP[op] == "zero" else "a range test (0..63)"
            ctx.inst(ok, "R17.3", key, ext.loc(n), "`%s` is dominated by %s on %s that rejects" % (astq.estr(n), kind, dtxt),
                     "`%s` (CScriptNum::operator%s -> int64 %s) is reached without %s of %s: %s" %
                     (astq.estr(n), op, op, kind, dtxt, "division by zero traps (SIGFPE)" if TRAP[op] == "zero" else "shift count out of range is undefined"))
    ctx.floor("R17.3", ncalls, 3, "trap-capable CScriptNum operator calls in StepExtended")

    # ---- R17.4 gate position and control
    cfg = opstep.cfg()
    from . import common as _common
    FX = _common.executed_flag(opstep)
    fexec_reads = [n for n in opstep.nodes() if n["k"] == "ref" and n["n"] == FX and n.get("dk") == "local"]
    early = [r for r in fexec_reads if cfg.dominates(r, gnode["cond"])]
    nested = [(c, t) for (c, t) in S.ast_guards(opstep, gnode) if any(x["k"] == "ref" and x["n"] == FX for x in walk(c))]
    ctx.inst(not early and not nested, "R17.4", "gate-before-executed-test", opstep.loc(gnode),
             "the gate is evaluated before any test of fExec (disabled opcodes fail even in unexecuted branches)",
             "the gate is evaluated after / under the fExec test: a disabled opcode in an unexecuted branch no longer fails")
    # the gate precedes the dispatch
    dispatch_calls = [n for n in disp.nodes() if n["k"] == "call" and n.get("cid") == ext.id]
    ctx.inst(all(cfg.dominates(gnode["cond"], d) for d in dispatch_calls), "R17.4", "gate-dominates-dispatch", opstep.loc(gnode),
             "the gate dominates the dispatch to StepExtended")
    rets = [n for n in walk(gnode["then"]) if n["k"] == "call" and n.get("n") == "set_error"]
    okret = len(rets) == 1 and len(rets[0]["args"]) == 2 and astq.estr(rets[0]["args"][1]).endswith(A["err"])
    ctx.inst(okret and S.terminates(gnode["then"]), "R17.4", "gate-returns-DISABLED_OPCODE", opstep.loc(gnode),
             "the gate's true edge returns set_error(SCRIPT_ERR_DISABLED_OPCODE)")
    # writers of allow_disabled_opcodes
    writers = []
    for f in fb.funcs.values():
        for n in f.nodes():
            if n["k"] == "assign" and n["lhs"].get("k") == "mem" and n["lhs"]["n"] == A["allow"]:
                writers.append((f, n, astq.estr(n["rhs"])))
        for i in f.d.get("inits", []):
            if i.get("field") == A["allow"]:
                writers.append((f, i["e"], astq.estr(i["e"])))
    ctx.site(len(writers))
    for (f, n, rhs) in writers:
        if f.name.endswith("ScriptExecutionEnvironment"):
            ctx.inst(rhs in ("false", "{false}"), "R17.4", "allow-default-false", f.loc(n), "constructor default of allow_disabled_opcodes is false",
                     "constructor initialises allow_disabled_opcodes to %s" % rhs)
        elif f.file == "btcdeb.cpp":
            # must derive from option 'z'
            src = rhs
            defs = [d for m in f.nodes() if m["k"] == "decl" for d in m["decls"] if d["n"] == rhs and d.get("init")]
            if defs:
                src = astq.estr(defs[0]["init"])
            ctx.inst("122" in src or "'z'" in src, "R17.4", "allow-set-from-option-z", f.loc(n),
                     "allow_disabled_opcodes is set from option -z (%s)" % src[:60],
                     "allow_disabled_opcodes is set from `%s`, not from option -z" % src[:60])
        else:
            ctx.fail("R17.4", "allow-writer:" + f.name, f.loc(n), "allow_disabled_opcodes is written in %s (only the constructor default and option -z may)" % f.name)
    if not any(f.name.endswith("ScriptExecutionEnvironment") for (f, n, r) in writers):
        ctx.fail("R17.4", "allow-default-false", opstep.loc(), "allow_disabled_opcodes has no constructor default")

    # ---- R17.5 failing exits of StepExtended
    nret = 0
    for n in ext.nodes():
        if n["k"] == "return":
            e = n.get("e")
            v = astq.const_value(e)
            ctx.site()
            if v == 0:
                nret += 1
                ctx.fail("R17.5", "bare-return-false", ext.loc(n), "StepExtended fails without setting a script error")
            elif e is not None and e.get("k") == "call" and e.get("n") == "set_error":
                nret += 1
    ctx.ok("R17.5", "failing-exits-set-error", ext.loc(), "%d failing exits of StepExtended all go through set_error" % nret)
    ctx.floor("R17.5", nret, 8, "failing exits in StepExtended")
    # ---- R17.6 the arithmetic opcodes compute on *decoded* script numbers. Script numbers are sign-magnitude (the top bit of the
    # last byte is the sign): no function of the operand's bytes can be the signed-integer function its name denotes unless the
    # bytes are decoded (CScriptNum, the repository's only decoder) or the code itself inspects that bit. Decided per opcode on
    # the G-SYM term of the value the successful path pushes: every occurrence of an operand (an element of env.stack) in it
    # must be the byte-vector argument of a CScriptNum construction.
    ctx.rule("R17.6", "2MUL, 2DIV, MUL, DIV, MOD push a value computed from CScriptNum-decoded operands (or sign-bit aware byte code)")
    from .. import symx
    ev_ = fb.enum("opcodetype")
    vals = {}
    for c in ev_["consts"]:
        vals[c.get("name", c.get("n"))] = c.get("value", c.get("v"))
    for sn in ("OP_2MUL", "OP_2DIV", "OP_MUL", "OP_DIV", "OP_MOD"):
        if sn not in {x.split("::")[-1] for x in handled}:
            continue
        k = vals.get(sn)
        if k is None:
            raise AnalysisBroken("R17.6: value of %s not found" % sn)

        def assume(term, conds, k=k):
            if isinstance(term, tuple) and term[0] == "eq":
                for a, b in ((term[1], term[2]), (term[2], term[1])):
                    if symx.is_const(b) and isinstance(a, tuple) and a[0] == "f" and a[2] == "opcode":
                        return b[1] == k
            return None
        X = symx.Explorer(prog, assume=assume, inline=lambda fn, n: fn.file == ext.file and fn.rec is None, transparent=lambda n: n.get("mrec") != "CScriptNum")
        try:
            outs = X.explore(ext, params={ext.params[0]["n"]: ("a", "env")})
        except symx.Unsupported as e:
            raise AnalysisBroken("R17.6: %s: %s" % (sn, e))
        succ = [o for o in outs if o.ret == symx.C(1)]
        if not succ:
            raise AnalysisBroken("R17.6: no successful path of StepExtended for %s" % sn)
        ctx.site(len(succ))

        def is_stack(t):
            return any(isinstance(y, tuple) and y[0] == "f" and y[2] == "stack" for y in symx.subterms(t))

        def is_operand(t):
            return isinstance(t, tuple) and t[0] == "ap" and t[1] in ("m:at", "[]", "m:back") and len(t) >= 3 and is_stack(t[2])

        def occurrences(t, parent=None, pos=0, acc=None):
            acc = [] if acc is None else acc
            if is_operand(t):
                acc.append((parent, pos))
                return acc
            if isinstance(t, tuple):
                for i, y in enumerate(t):
                    occurrences(y, t, i, acc)
            return acc
        bad = None
        ndec = 0
        for o in succ:
            pushed = [e.terms[1] for e in o.events if e.kind == "mcall" and e.name in ("push_back", "emplace_back") and len(e.terms) == 2 and is_stack(e.terms[0])]
            if not pushed:
                raise AnalysisBroken("R17.6: the successful path of %s pushes nothing recognisable" % sn)
            occ = occurrences(pushed[-1])
            raw = [(par, pos) for (par, pos) in occ if not (isinstance(par, tuple) and par[0] == "ap" and par[1] == "ctor:CScriptNum" and pos == 2)]
            ndec += len(occ) - len(raw)
            sign_aware = any(isinstance(y, tuple) and y[0] == "ap" and y[1] == "&" and symx.C(0x80) in y[2:] for (t, v) in o.conds for y in symx.subterms(t)) or \
                any(isinstance(y, tuple) and y[0] == "ap" and y[1] == "&" and symx.C(0x80) in y[2:] for e in o.events for t in e.terms for y in symx.subterms(t))
            if raw and not sign_aware:
                bad = symx.show(pushed[-1])[:120]
            if not occ:
                raise AnalysisBroken("R17.6: the value %s pushes (%s) does not mention its operand" % (sn, symx.show(pushed[-1])[:80]))
        ctx.inst(bad is None, "R17.6", "decoded-operands:" + sn, ext.loc(),
                 "%s pushes a value computed from CScriptNum-decoded operands (%d decoded occurrence(s))" % (sn, ndec),
                 "%s pushes %s: the operand's bytes reach the result without being decoded as a script number and without any test of the sign bit - "
                 "for a sign-magnitude encoding that cannot be the signed-integer function (e.g. -1 is 0x81; shifting its bytes gives 0x0201 = 258, not -2)" % (sn, bad))
    # ---- R17.7 / R17.8 two-operand string and bitwise opcodes, on the G-SYM paths of StepExtended per opcode: the value a
    # successful path pushes mentions BOTH operands (a concatenation / bitwise combination that drops one of them on some path is
    # not the function), and the bitwise ones succeed only after deciding that the operands have equal length.
    ctx.rule("R17.7", "CAT, AND, OR, XOR: the pushed value depends on both operands on every successful path")
    ctx.rule("R17.8", "AND, OR, XOR succeed only when the operand lengths were decided equal")

    def explore_op(sn):
        k = vals.get(sn)
        if k is None:
            raise AnalysisBroken("R17.7: value of %s not found" % sn)

        def assume(term, conds, k=k):
            if isinstance(term, tuple) and term[0] == "eq":
                for a, b in ((term[1], term[2]), (term[2], term[1])):
                    if symx.is_const(b) and isinstance(a, tuple) and a[0] == "f" and a[2] == "opcode":
                        return b[1] == k
            return None
        X = symx.Explorer(prog, assume=assume, inline=lambda fn, n: fn.file == ext.file and fn.rec is None, transparent=lambda n: n.get("mrec") != "CScriptNum")
        try:
            return X.explore(ext, params={ext.params[0]["n"]: ("a", "env")})
        except symx.Unsupported as e:
            raise AnalysisBroken("R17.7: %s: %s" % (sn, e))

    def operand(t, depth):
        """is t the stack element `depth` below the top (stack.at(size - depth) / stacktop(-depth))"""
        if not (isinstance(t, tuple) and t[0] == "ap" and t[1] in ("m:at", "[]") and len(t) == 4):
            return False
        if not any(isinstance(y, tuple) and y[0] == "f" and y[2] == "stack" for y in symx.subterms(t[2])):
            return False
        c0, parts = symx.lin_parts(t[3])
        return c0 == -depth and len(parts) == 1 and list(parts.values()) == [1] and list(parts.keys())[0][:2] == ("ap", "m:size")

    def decided_empty(depth, o):
        for (t, v) in o.conds:
            if v and isinstance(t, tuple) and t[:2] == ("ap", "m:empty") and operand(t[2], depth):
                return True
            if v and isinstance(t, tuple) and t[0] == "eq" and symx.C(0) in t[1:] and any(isinstance(x, tuple) and x[:2] == ("ap", "m:size") and operand(x[2], depth) for x in t[1:]):
                return True
            if (not v) and isinstance(t, tuple) and t[:2] == ("ap", "m:size") and operand(t[2], depth):
                return True
        return False
    for sn in ("OP_CAT", "OP_AND", "OP_OR", "OP_XOR"):
        if sn not in {x.split("::")[-1] for x in handled}:
            continue
        succ = [o for o in explore_op(sn) if o.ret == symx.C(1)]
        if not succ:
            raise AnalysisBroken("R17.7: no successful path of StepExtended for %s" % sn)
        ctx.site(len(succ))
        bad = None
        noeq = 0
        pop_only = []
        for o in succ:
            pushed = [e.terms[1] for e in o.events if e.kind == "mcall" and e.name in ("push_back", "emplace_back") and len(e.terms) == 2 and
                      any(isinstance(y, tuple) and y[0] == "f" and y[2] == "stack" for y in symx.subterms(e.terms[0]))]
            if not pushed:
                # computed in place: the result is what the path left in the slot of the first operand (a reference bound to it)
                def slot(v):
                    while isinstance(v, tuple) and v[0] == "ap" and v[1].startswith("mut:") and len(v) >= 3:
                        v = v[2]
                    return operand(v, 2)
                inplace = [v for v in o.store.values() if slot(v)]
                npop = sum(1 for e in o.events if e.kind in ("call", "mcall") and e.name in ("popstack", "_popstack", "pop_back"))
                if not inplace and sn == "OP_CAT" and npop == 1:
                    # a fast path that only drops the top element: the result is the first operand as it stands, which is the
                    # concatenation exactly when the path decided that the second operand is empty
                    pop_only.append(o)
                    continue
                if not inplace:
                    raise AnalysisBroken("R17.7: the successful path of %s neither pushes a value nor works on the first operand in place" % sn)
                pushed = [sorted(inplace, key=lambda v: len(repr(v)))[-1]]
            # what the pushed value is built from: its own term, plus the arguments of library algorithms (std::transform, std::copy
            # ...) that were handed the pushed container - they write through iterators, which the term engine does not follow
            pool = [pushed[-1]]
            for e in o.events:
                if e.kind == "call" and e.name not in ("push_back",) and any(operand(y, 2) or operand(y, 1) for t_ in e.terms for y in symx.subterms(t_)) and \
                        not (e.name or "").startswith("btc_") and e.name not in ("HexStr", "?", "_popstack", "popstack", "set_error"):
                    pool += list(e.terms)
            has1 = any(operand(y, 2) for t_ in pool for y in symx.subterms(t_))
            has2 = any(operand(y, 1) for t_ in pool for y in symx.subterms(t_))
            # an operand the path decided to be empty contributes nothing to a concatenation: leaving it out is the function
            if sn == "OP_CAT":
                has1 = has1 or decided_empty(2, o)
                has2 = has2 or decided_empty(1, o)
            if not (has1 and has2):
                bad = (symx.show(pushed[-1])[:100], "first" if not has1 else "second",
                       [("" if v else "!") + symx.show(t)[:60] for (t, v) in o.conds if "opcode" not in symx.show(t)][-2:])
            if sn != "OP_CAT":
                eqd = any(v and isinstance(t, tuple) and t[0] == "eq" and all(isinstance(x, tuple) and x[:2] == ("ap", "m:size") and (operand(x[2], 1) or operand(x[2], 2)) for x in t[1:]) for (t, v) in o.conds)
                noeq += 0 if eqd else 1
        for o in pop_only:
            if not decided_empty(1, o):
                bad = ("<the first operand, left in place>", "second",
                       [("" if v else "!") + symx.show(t)[:60] for (t, v) in o.conds if "opcode" not in symx.show(t)][-2:])
        ctx.inst(bad is None, "R17.7", "both-operands:" + sn, ext.loc(), "%s: every successful path pushes a value built from both operands" % sn,
                 "%s: on the path %s the pushed value %s does not depend on the %s operand" % ((sn, bad[2], bad[0], bad[1]) if bad else (sn, "", "", "")))
        if sn != "OP_CAT":
            ctx.inst(noeq == 0, "R17.8", "equal-lengths:" + sn, ext.loc(), "%s succeeds only on paths that decided size(x1) == size(x2)" % sn,
                     "%s can succeed without having decided that both operands have the same length (%d successful path(s)): operands of unequal length must fail with a script error" % (sn, noeq))
    # ---- R17.9 products and left shifts are computed in 64 bits from operands of up to 5 bytes: the successful path must have
    # decided that the result did not overflow (an overflow-checking builtin decided false), or decode its operands with at most
    # 4 bytes (MUL) so that no product can overflow.
    ctx.rule("R17.9", "OP_MUL and OP_LSHIFT cannot succeed with a wrapped 64-bit result")
    for sn in ("OP_MUL", "OP_LSHIFT"):
        if sn not in {x.split("::")[-1] for x in handled}:
            continue
        succ = [o for o in explore_op(sn) if o.ret == symx.C(1)]
        ctx.site(len(succ))
        bad9 = 0
        for o in succ:
            checked = any((not v) and any(isinstance(y, tuple) and y[0] == "ap" and "overflow" in str(y[1]) for y in symx.subterms(t)) for (t, v) in o.conds)
            sizes = [y[-1][1] for e in o.events for t in e.terms for y in symx.subterms(t)
                     if isinstance(y, tuple) and y[:2] == ("ap", "ctor:CScriptNum") and len(y) == 5 and symx.is_const(y[-1])]
            small = sn == "OP_MUL" and bool(sizes) and max(sizes) <= 4
            if not (checked or small):
                bad9 += 1
        ctx.inst(bad9 == 0, "R17.9", "no-wrapped-result:" + sn, ext.loc(), "%s succeeds only after an overflow check (or with operands of at most 4 bytes)" % sn,
                 "%s can succeed without any overflow test although its operands may have 5 bytes: `0x0000000001 0x0000000001 %s` (2^32 x 2^32, or 1 << 63) "
                 "leaves a wrapped value on the stack instead of failing" % (sn, sn))
    ctx.extra["gate_labels"] = sorted(x.split("::")[-1] for x in gate_labels)
    ctx.extra["handled_labels"] = sorted(x.split("::")[-1] for x in handled)


MUTANTS = [
    dict(name="mul-overflow-unchecked", file="debugger/interpreter.cpp", regex=True, find=r"            case OP_MUL:\n.*?                break;\n", replace="            case OP_MUL: num1 = num1 * num2; break;\n", expect=["R17.9:no-wrapped-result:OP_MUL"]),
    dict(name="cat-drops-operand-when-empty", file="debugger/interpreter.cpp", find="        vch1.insert(vch1.end(), vch2.begin(), vch2.end());", replace="        if (!vch1.empty() && !vch2.empty()) vch1.insert(vch1.end(), vch2.begin(), vch2.end());", expect=["R17.7:both-operands:OP_CAT"]),
    dict(name="cat-fastpath-pops-when-either-operand-is-empty", file="debugger/interpreter.cpp", find="        vch1 = stacktop(-2);\n        vch2 = stacktop(-1);\n        vch1.insert(vch1.end(), vch2.begin(), vch2.end());", replace="        if (stacktop(-1).empty() || stacktop(-2).empty()) { popstack(stack); return true; }\n        vch1 = stacktop(-2);\n        vch2 = stacktop(-1);\n        vch1.insert(vch1.end(), vch2.begin(), vch2.end());", expect=["R17.7:both-operands:OP_CAT"]),
    dict(name="cat-result-is-second-operand-only", file="debugger/interpreter.cpp", find="        vch1.insert(vch1.end(), vch2.begin(), vch2.end());", replace="        if (vch2.size() > 520) vch1.insert(vch1.end(), vch2.begin(), vch2.end());", expect=["R17.7:both-operands:OP_CAT"]),
    dict(name="bitwise-length-test-one-sided", file="debugger/interpreter.cpp", find="if (vch1.size() != vch2.size()) return set_error(serror, SCRIPT_ERR_UNKNOWN_ERROR);", replace="if (vch1.size() > vch2.size()) return set_error(serror, SCRIPT_ERR_UNKNOWN_ERROR);", expect=["R17.8:equal-lengths"]),
    dict(name="2mul-on-raw-bytes", file="debugger/interpreter.cpp", find="            CScriptNum num(vch1, env.fRequireMinimal, 5);\n            num = num * CScriptNum(2);\n            vch1 = num.getvch();\n",
         replace="            uint16_t carry = 0;\n            for (size_t i = 0; i < vch1.size(); ++i) { uint16_t v = vch1[i]; v = (v << 1) | carry; carry = v >> 8; vch1[i] = v & 0xff; }\n            if (carry) vch1.push_back(carry);\n",
         expect=["R17.6:decoded-operands:OP_2MUL"]),
    dict(name="2div-on-raw-bytes", file="debugger/interpreter.cpp", find="            CScriptNum num(vch1, env.fRequireMinimal, 5);\n            num = num / CScriptNum(2);\n            vch1 = num.getvch();\n",
         replace="            uint8_t carry = 0;\n            for (size_t i = vch1.size(); i-- > 0; ) { uint8_t v = vch1[i]; vch1[i] = (v >> 1) | (carry << 7); carry = v & 1; }\n",
         expect=["R17.6:decoded-operands:OP_2DIV"]),
    dict(name="mod-of-raw-operand", file="debugger/interpreter.cpp", find="            vch1 = num1.getvch();\n        }\n        popstack(stack);\n        popstack(stack);", replace="            vch1 = num1.getvch();\n            if (env.opcode == OP_MOD && vch2.size() > vch1.size()) vch1 = stacktop(-2);\n        }\n        popstack(stack);\n        popstack(stack);",
         expect=["R17.6:decoded-operands:OP_MOD"]),
    dict(name="remove-2DIV-handler", file="debugger/interpreter.cpp", regex=True,
         find=r"    case OP_2DIV:\n.*?return true;\n\n    case OP_MUL:", replace="    case OP_MUL:", expect=["R17.1:opcode=OP_2DIV"]),
    dict(name="remove-XOR-arm", file="debugger/interpreter.cpp",
         find="        } else if (env.opcode == OP_XOR) {\n            for (size_t i = 0; i < vch1.size(); ++i) vch1[i] ^= vch2[i];\n        }",
         replace="        }", expect=["R17.2:StepExtended:arm-chain:OP_AND/OP_OR/OP_XOR"]),
    dict(name="remove-div-zero-test", file="debugger/interpreter.cpp",
         find="            case OP_DIV:\n                if (num2 == 0) return set_error(serror, SCRIPT_ERR_UNKNOWN_ERROR);\n", replace="            case OP_DIV:\n",
         expect=["R17.3:trap:/:num2"]),
    dict(name="remove-shift-range-test", file="debugger/interpreter.cpp",
         find="            case OP_RSHIFT:\n                if (num2 < 0 || num2 > 63) return set_error(serror, SCRIPT_ERR_UNKNOWN_ERROR);\n", replace="            case OP_RSHIFT:\n",
         expect=["R17.3:trap:>>:num2"]),
    dict(name="mod-test-wrong-operand", file="debugger/interpreter.cpp",
         find="            case OP_MOD:\n                if (num2 == 0)", replace="            case OP_MOD:\n                if (num1 == 0)", expect=["R17.3:trap:%:num2"]),
    dict(name="drop-LEFT-from-gate", file="script/interpreter.cpp", find="                opcode == OP_LEFT ||\n", replace="", expect=["R17.1:opcode=OP_LEFT"]),
    dict(name="drop-INVERT-from-dispatch", file="script/interpreter.cpp", find="                case OP_INVERT:\n                case OP_AND:\n                case OP_OR:\n                case OP_XOR:\n                case OP_2MUL:\n                case OP_2DIV:\n                case OP_MUL:\n                case OP_DIV:\n                case OP_MOD:\n                case OP_LSHIFT:\n                case OP_RSHIFT:\n                    return StepExtended",
         replace="                case OP_AND:\n                case OP_OR:\n                case OP_XOR:\n                case OP_2MUL:\n                case OP_2DIV:\n                case OP_MUL:\n                case OP_DIV:\n                case OP_MOD:\n                case OP_LSHIFT:\n                case OP_RSHIFT:\n                    return StepExtended", expect=["R17.1:opcode=OP_INVERT"]),
    dict(name="gate-only-when-executed", file="script/interpreter.cpp", find="            if (!env.allow_disabled_opcodes && (\n", replace="            if (fExec && !env.allow_disabled_opcodes && (\n",
         expect=["R17.4:gate-before-executed-test", "R17.4:gate-conditioned-on-option"]),
    dict(name="gate-wrong-error", file="script/interpreter.cpp", find="return set_error(serror, SCRIPT_ERR_DISABLED_OPCODE); // Disabled opcodes", replace="return set_error(serror, SCRIPT_ERR_BAD_OPCODE); // Disabled opcodes",
         expect=["R17.4:gate-returns-DISABLED_OPCODE"]),
    dict(name="allow-default-true", file="script/interpreter.cpp", find="allow_disabled_opcodes{false}", replace="allow_disabled_opcodes{true}", expect=["R17.4:allow-default-false"]),
    dict(name="bare-return-false", file="debugger/interpreter.cpp", find="if (vch1.size() != vch2.size()) return set_error(serror, SCRIPT_ERR_UNKNOWN_ERROR);", replace="if (vch1.size() != vch2.size()) return false;",
         expect=["R17.5:bare-return-false"]),
    dict(name="nested-switch-loses-MOD", file="debugger/interpreter.cpp", find="            case OP_MOD:\n                if (num2 == 0) return set_error(serror, SCRIPT_ERR_UNKNOWN_ERROR);\n                num1 = num1 % num2;\n                break;\n", replace="",
         expect=["R17.2:StepExtended:nested-switch"]),
]


def AUTO_MUTANTS(ctx):
    """drop each opcode, one at a time, from the gate and from the dispatcher group"""
    import re as _re
    out = []
    src = open(os.path.join(ctx.facts.repo, "script/interpreter.cpp")).read()
    for op in ctx.extra.get("gate_labels", []):
        pat = "                opcode == %s ||\n" % op
        if src.count(pat) == 1:
            out.append(dict(name="auto:gate-drops-%s" % op, file="script/interpreter.cpp", find=pat, replace="", expect=["R17.1:opcode=%s" % op]))
        pat2 = "                case %s:\n" % op
        if src.count(pat2) == 1:
            out.append(dict(name="auto:dispatch-drops-%s" % op, file="script/interpreter.cpp", find=pat2, replace="", expect=["R17.1:opcode=%s" % op]))
    return out
