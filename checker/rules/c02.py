"""C02 - signature opcodes and digests: layout / bookkeeping clauses (DESIGN.md section 4, C02)."""
import json
import os
from .. import astq, structure as S, streams, fd
from ..facts import AnalysisBroken, walk, VERIF

EXPLANATION = (
    "Decides that the digests are LAID OUT as BIP143 / BIP341 / BIP342 prescribe and that the bookkeeping they read is maintained "
    "by the debugger's driver - not signature validity. R02.1 driver agreement: the session stepper performs the per-operation "
    "bookkeeping of the reference driver EvalScript (++opcode_pos after each successful operation, restart at script switches), so "
    "BIP342's codeseparator_pos is the executed separator's position. R02.2 init-flag discipline: every `assert(execdata.m_X_init)` "
    "reachable from a signature check is backed by an assignment of m_X_init = true that dominates the choice of the TAPROOT / "
    "TAPSCRIPT script version (or the hand-over of execdata to the session), and the only sources of m_codeseparator_pos are the "
    "0xFFFFFFFF initial value and opcode_pos in OP_CODESEPARATOR. R02.3 digest layout vs spec table (spec/digests.json): the ordered, "
    "guarded operand sequence streamed in SignatureHashSchnorr, in the WITNESS_V0 branch of SignatureHash, in "
    "CTransactionSignatureSerializer and in the five Get*SHA256 helpers equals the BIP tables through the binding table; spend_type, "
    "output_type / input_type, the hash-type validity predicate, the BIP143 sub-hash selection and the legacy serializer's flags are "
    "tabulated over their finite domains (hash_type 0..255, ext_flag/annex in {0,1}) and compared with the BIP definitions. R02.4 the "
    "two ECDSA call sites run the encoding checks and the signature check in the same order with the same flag/version arguments; "
    "tapscript charges VALIDATION_WEIGHT_PER_SIGOP_PASSED (50) per non-empty signature before the key-type dispatch. ECDSA/Schnorr "
    "verification, FindAndDelete, lax DER parsing and multisig matching order are NOT decided.")
TRUSTED = ["clang 14 parser/Sema/constant evaluator", "/verif extractor, stream engine, finite-domain evaluator", "spec/digests.json transcription of BIP143/341/342"]
ASSUMPTIONS = ["SHA-256 and secp256k1 are correct", "serialisation of each operand type (uint32, CTxOut, COutPoint, CScript) is decided under C13"]
DECLINED = ["ECDSA / Schnorr verification and lax DER parsing", "FindAndDelete", "multisig signature/key matching order", "which encoding error wins"]


def guarded_events(func, var):
    """stream events on local `var` in source order with their structural guards"""
    sp = lambda n: n.get("k") == "ref" and n["n"] == var
    out = []
    for n in func.nodes():
        if n["k"] in ("opcall",) and n.get("op") == "<<":
            par = func.parent(n)
            if par is not None and par.get("k") == "opcall" and par.get("op") == "<<" and par["args"][0] is n:
                continue   # inner part of a chain; handled from the outermost
            base, ops = streams.flatten_chain(n)
            if base is not None and sp(base):
                g = [("" if t else "!") + astq.estr(c) for (c, t) in S.ast_guards(func, n)]
                for (op, operand, node) in ops:
                    out.append((astq.estr(operand), g, node))
    return out


def run(ctx, anchors=None):
    fb, prog = ctx.facts, ctx.prog
    spec = json.load(open(os.path.join(VERIF, "spec/digests.json")))
    ctx.rule("R02.1", "the session stepper keeps opcode_pos like EvalScript (++ per successful operation, 0 at script switches)")
    ctx.rule("R02.2", "init flags asserted by the digest code are set before a taproot/tapscript session can run; sources of m_codeseparator_pos")
    ctx.rule("R02.3", "digest layouts equal BIP143/341/342 and the legacy serialisation (ordered, guarded operands; finite-domain tables)")
    ctx.rule("R02.4", "the two ECDSA sites agree; tapscript signature budget")
    stepper = fb.fn("StepScript", file="debugger/interpreter.cpp")
    opstep = fb.fn("StepScript", file="script/interpreter.cpp")
    evals = [f for f in fb.fns("EvalScript", file="script/interpreter.cpp") if any(n["k"] == "un" and n["op"] == "++" for n in f.nodes())]
    if not evals:
        raise AnalysisBroken("R02.1: reference driver EvalScript (the one with the opcode loop) not found")
    evals = evals[0]
    # ---- R02.1
    ref_inc = [n for n in evals.nodes() if n["k"] == "un" and n["op"] == "++" and astq.estr(n["e"]).endswith("opcode_pos")]
    if not ref_inc:
        raise AnalysisBroken("R02.1: reference driver EvalScript no longer increments opcode_pos")
    scfg = stepper.cfg()
    call = [n for n in stepper.nodes() if astq.is_call(n) and n.get("cid") == opstep.id]
    if len(call) != 1:
        raise AnalysisBroken("R02.1: operation step call not found in the stepper")
    call = call[0]
    succ = None
    for (blk, s_, c, t) in scfg.cond_edges():
        if c == call["id"] and t:
            succ = s_
    incs = [n for n in stepper.nodes() if n["k"] == "un" and n["op"] == "++" and astq.estr(n["e"]).endswith("opcode_pos")]
    ctx.site()
    ctx.inst(succ is not None and len(incs) == 1 and scfg.must_pass_from_block(succ, incs) and scfg.position(incs[0])[0] not in scfg.reachable_from([s_ for (b, s_, c, t) in scfg.cond_edges() if c == call["id"] and not t][0]),
             "R02.1", "opcode_pos-advanced-per-step", stepper.loc(incs[0]) if incs else stepper.loc(call),
             "after every successful operation step the stepper increments opcode_pos exactly once (as EvalScript does)",
             "the session stepper does not advance opcode_pos after a successful operation (EvalScript does at %s): OP_CODESEPARATOR records codeseparator_pos = %s for every separator, so BIP342 signatures are rejected"
             % (evals.loc(ref_inc[0]), "0" if not incs else "a wrong position"))
    sal = astq.aliases(stepper)
    from . import common
    switches = common.script_switches(prog, stepper)
    resets = [n for n in common.field_writers(prog, stepper, "opcode_pos") if not (n.get("k") == "un")]
    for swn in switches:
        ctx.site()
        ctx.inst((swn in resets) or (bool(resets) and scfg.must_pass_after(swn, resets)), "R02.1", "opcode_pos-restarts:" + astq.estr(swn)[:40], stepper.loc(swn),
                 "opcode_pos restarts at 0 for the next script", "after the script switch `%s` opcode_pos keeps counting from the previous script" % astq.estr(swn))
    # the separator records opcode_pos
    seps = [n for n in opstep.nodes() if n["k"] == "assign" and astq.estr(n["lhs"]).endswith("m_codeseparator_pos")]
    ctx.inst(len(seps) == 1 and astq.estr(seps[0]["rhs"]) == "opcode_pos", "R02.1", "separator-records-opcode_pos", opstep.loc(seps[0]) if seps else opstep.loc(),
             "OP_CODESEPARATOR stores opcode_pos in m_codeseparator_pos")
    # ---- R02.2
    asserted = {}
    for f in fb.funcs.values():
        if f.file != "script/interpreter.cpp":
            continue
        for n in f.nodes():
            if n["k"] == "call" and n.get("n") == "__assert_fail":
                par = f.parent(n)
                while par is not None and par.get("k") != "cond":
                    par = f.parent(par)
                if par is not None:
                    for x in walk(par["cond"]):
                        if x["k"] == "mem" and x["n"].endswith("_init") and x["n"].startswith("m_"):
                            asserted.setdefault(x["n"], f.loc(n))
    ctx.floor("R02.2", len(asserted), 4, "execdata init flags asserted by the digest / tapscript code")
    cf = fb.fn("Instance::configure_tx_txin")
    se = fb.fn("Instance::setup_environment")
    ccfg, secfg = cf.cfg(), se.cfg()

    from . import common as _cm
    _cm.require_names(cf, ["sigver", "execdata"], "R02.2")
    _cm.require_names(se, ["execdata", "env"], "R02.2")
    tr_sv = [n for n in cf.nodes() if n["k"] == "assign" and astq.estr(n["lhs"]) == "sigver" and astq.estr(n["rhs"]).endswith("TAPROOT")]
    ts_sv = [n for n in cf.nodes() if n["k"] == "assign" and astq.estr(n["lhs"]) == "sigver" and astq.estr(n["rhs"]).endswith("TAPSCRIPT")]
    if not tr_sv or not ts_sv:
        raise AnalysisBroken("R02.2: TAPROOT/TAPSCRIPT script-version assignments not found in configure_tx_txin")
    need = {"m_annex_init": tr_sv + ts_sv, "m_tapleaf_hash_init": ts_sv, "m_validation_weight_left_init": ts_sv}
    for flag, where in sorted(asserted.items()):
        ctx.site()
        if flag in need:
            sets = [n for n in cf.nodes() if n["k"] == "assign" and astq.estr(n["lhs"]).endswith(flag) and astq.const_value(n["rhs"]) == 1]
            # value field assigned as well
            val = flag[:-5]
            vals = [n for n in cf.nodes() if (n["k"] == "assign" and astq.estr(n["lhs"]).endswith(val if val != "m_annex" else "m_annex_present")) or
                    (n["k"] == "un" and False)]
            ok = bool(sets) and all(any(ccfg.dominates(s_, tgt) or ccfg.must_pass_after(tgt, [s_]) for s_ in sets) for tgt in need[flag])
            if flag == "m_tapleaf_hash_init":
                vals = [n for n in cf.nodes() if n["k"] == "new" and "TaprootCommitmentEnv" in n.get("ty", "")]
            ctx.inst(ok and bool(vals), "R02.2", "init=" + flag, cf.loc(sets[0]) if sets else cf.loc(),
                     "%s (asserted at %s) is set, with its value, on every path that selects the taproot/tapscript version" % (flag, where),
                     "%s is asserted at %s but configure_tx_txin can select TAPROOT/TAPSCRIPT without setting it: the first signature check aborts on the assertion" % (flag, where))
        elif flag == "m_codeseparator_pos_init":
            sets = [n for n in se.nodes() if n["k"] == "assign" and astq.estr(n["lhs"]).endswith(flag) and astq.const_value(n["rhs"]) == 1]
            vals = [n for n in se.nodes() if n["k"] == "assign" and astq.estr(n["lhs"]).endswith("m_codeseparator_pos") and astq.const_value(n["rhs"]) == 0xFFFFFFFF]
            copies = [n for n in se.nodes() if n["k"] == "opcall" and n["op"] == "=" and astq.estr(n["args"][0]).endswith("env->execdata") and astq.estr(n["args"][1]) == "execdata"]
            ok = bool(sets) and bool(vals) and len(copies) == 1 and all(secfg.dominates(s_, copies[0]) for s_ in sets[:1]) and all(secfg.dominates(v, copies[0]) for v in vals[:1])
            ctx.inst(ok, "R02.2", "init=" + flag, se.loc(sets[0]) if sets else se.loc(),
                     "m_codeseparator_pos = 0xFFFFFFFF and its init flag are set before execdata is handed to the session",
                     "setup_environment hands Instance::execdata to the session (env->execdata = execdata) without m_codeseparator_pos = 0xFFFFFFFF / m_codeseparator_pos_init = true: "
                     "the first tapscript signature check aborts on assert(m_codeseparator_pos_init) (asserted at %s)" % where)
        else:
            ctx.fail("R02.2", "init=" + flag, where, "init flag %s is asserted at %s but no rule instance knows where it must be set" % (flag, where))
    srcs = set()
    for f in fb.funcs.values():
        if f.file in ("mastify.cpp", "merklebranch.cpp") or f.file.startswith("test/"):
            continue
        for n in f.nodes():
            if n["k"] == "assign" and astq.estr(n["lhs"]).endswith("m_codeseparator_pos"):
                srcs.add(astq.estr(n["rhs"]))
    ctx.inst(srcs <= {"opcode_pos", "4294967295"} and "opcode_pos" in srcs, "R02.2", "codeseparator_pos-sources", opstep.loc(), "m_codeseparator_pos is only assigned 0xFFFFFFFF (set-up) or opcode_pos (OP_CODESEPARATOR)",
             "m_codeseparator_pos is assigned from %s" % sorted(srcs))
    # ---- R02.3 / R02.7 digest layout on terms (G-SYM)
    from . import c02_digests
    c02_digests.run(ctx, fb, prog, spec)
    # ---- R02.5 ECDSA verification normalises the parsed signature in place and verifies that same object
    ctx.rule("R02.5", "CPubKey::Verify / VerifyCompact: lax-parse (or compact-parse), normalise IN PLACE, verify the normalised signature")
    for name in ("CPubKey::Verify", "CPubKey::VerifyCompact"):
        f = fb.fn(name)
        calls = [n for n in f.nodes() if n["k"] == "call"]
        norm = [n for n in calls if n.get("n") == "secp256k1_ecdsa_signature_normalize"]
        ver = [n for n in calls if n.get("n") == "secp256k1_ecdsa_verify"]
        # follow one level of helper (a refactor may move parse+normalise into a static helper)
        helper_norm = []
        for n in calls:
            for g in (prog.resolve(n["cid"]) if n.get("cid") else []):
                helper_norm += [(g, m) for m in g.nodes() if m["k"] == "call" and m.get("n") == "secp256k1_ecdsa_signature_normalize"]
        ctx.site()
        ok = False
        why = "no call of secp256k1_ecdsa_signature_normalize on the verification path"
        cands = [(f, m) for m in norm] + helper_norm
        if cands and ver:
            g, m = cands[0]
            out_arg, in_arg = m["args"][1], m["args"][2]
            o, i = astq.estr(out_arg), astq.estr(in_arg)
            ok = out_arg.get("k") != "null" and o != "nullptr" and o.lstrip("&") == i.lstrip("&")
            why = "normalize(out=%s, in=%s)" % (o, i)
            if ok and g is f:
                ok = astq.estr(ver[0]["args"][1]).lstrip("&") == i.lstrip("&") and f.cfg().dominates(m, ver[0])
                why += "; verify(%s)" % astq.estr(ver[0]["args"][1])
        ctx.inst(ok, "R02.5", "normalize-in-place:" + name, f.loc(), "%s: %s" % (name, why),
                 "%s does not verify the normalised signature (%s): a valid high-S signature is rejected when LOW_S is not enforced" % (name, why))
    # ---- R02.6 Schnorr signature size / hash-type byte rules (BIP341)
    ctx.rule("R02.6", "CheckSchnorrSignature: sizes other than 64/65 fail; a 65-byte signature with hash type 0x00 fails; 64 bytes means SIGHASH_DEFAULT")
    css = [f for f in fb.funcs.values() if f.short == "CheckSchnorrSignature" and "GenericTransactionSignatureChecker" in f.name]
    if not css:
        raise AnalysisBroken("CheckSchnorrSignature not found")
    cs = css[0]
    _cm.require_names(cs, ["sig", "hashtype", "sighash"], "R02.6")
    ccfg = cs.cfg()
    size_rej = [n for n in cs.nodes() if n["k"] == "if" and astq.estr(n["cond"]).replace(" ", "") in ("((sig.size()!=64)&&(sig.size()!=65))",) and any("SCHNORR_SIG_SIZE" in astq.estr(x) for x in walk(n["then"]))]
    b65 = [n for n in cs.nodes() if n["k"] == "if" and astq.estr(n["cond"]).replace(" ", "") == "(sig.size()==65)"]
    dflt_rej = []
    if b65:
        dflt_rej = [n for n in walk(b65[0]["then"]) if n["k"] == "if" and astq.estr(n["cond"]).replace(" ", "") == "(hashtype==SIGHASH_DEFAULT)" and any("SCHNORR_SIG_HASHTYPE" in astq.estr(x) for x in walk(n["then"])) and S.terminates(n["then"])]
    hdecl = [d for n in cs.nodes() if n["k"] == "decl" for d in n["decls"] if d["n"] == "hashtype"]
    hinit = astq.estr(hdecl[0].get("init")) if hdecl else None
    shcall = [n for n in cs.nodes() if n["k"] == "call" and n.get("n") == "SignatureHashSchnorr"]
    ctx.site(3)
    ctx.inst(bool(size_rej), "R02.6", "size-64-or-65", cs.loc(size_rej[0]) if size_rej else cs.loc(), "signatures that are neither 64 nor 65 bytes fail with SCHNORR_SIG_SIZE")
    ctx.inst(bool(b65) and bool(dflt_rej) and hinit == "SIGHASH_DEFAULT" and bool(shcall) and all(ccfg.dominates(b65[0]["cond"], c) for c in shcall), "R02.6", "explicit-default-hashtype-rejected", cs.loc(b65[0]) if b65 else cs.loc(),
             "64 bytes -> SIGHASH_DEFAULT; 65 bytes -> last byte is the hash type and 0x00 is rejected before the digest is computed",
             "a 65-byte Schnorr signature whose hash-type byte is 0x00 is no longer rejected (BIP341: 'if the signature is 65 bytes and hash_type is 0x00, fail'): signatures become malleable by appending 00")
    vs = [n for n in cs.nodes() if n["k"] == "mcall" and n.get("n") == "VerifySchnorrSignature"]
    ctx.inst(bool(vs) and bool(shcall) and ccfg.dominates(shcall[0], vs[0]) and astq.estr(shcall[0]["args"][4]) == "hashtype", "R02.6", "digest-uses-parsed-hashtype", cs.loc(),
             "the digest is computed for the parsed hash type and the signature is verified against it")
    # ---- R02.4
    pre = fb.fn("EvalChecksigPreTapscript")

    def ecdsa_seq(nodes):
        out = []
        for n in nodes:
            if astq.is_call(n) and n.get("n") in ("CheckSignatureEncoding", "CheckPubKeyEncoding", "CheckECDSASignature"):
                args = [astq.estr(a) for a in n["args"]]
                # normalise argument names: keep only the non-data arguments (flags, sigversion, serror, scriptCode)
                out.append((n["n"], tuple(a for a in args if a in ("flags", "sigversion", "serror", "scriptCode"))))
        return out
    a = ecdsa_seq(pre.nodes())
    groups = S.case_groups([s_ for s_ in S.find_switches(opstep) if astq.estr(s_["cond"]) == "opcode"][0])
    ms = [g for g in groups if "OP_CHECKMULTISIG" in g.names()]
    b = ecdsa_seq(list(ms[0].nodes()))[:3] if ms else []
    ctx.site()
    ctx.inst(len(a) == 3 and a == b, "R02.4", "ecdsa-sites-agree", pre.loc(), "CHECKSIG and CHECKMULTISIG run %s" % [x[0] for x in a],
             "the ECDSA sites differ: CHECKSIG runs %s, CHECKMULTISIG runs %s" % (a, b))
    tap = fb.fn("EvalChecksigTapscript")
    w = fb.var("VALIDATION_WEIGHT_PER_SIGOP_PASSED")
    dec = [n for n in tap.nodes() if n["k"] == "cassign" and n["op"] == "-=" and astq.estr(n["lhs"]).endswith("m_validation_weight_left")]
    tcfg = tap.cfg()
    ks = [n for n in tap.nodes() if n["k"] == "if" and "pubkey.size()" in astq.estr(n["cond"])]
    ok = w.get("value") == 50 and len(dec) == 1 and astq.estr(dec[0]["rhs"]) == "VALIDATION_WEIGHT_PER_SIGOP_PASSED" and bool(ks) and tcfg.dominates(dec[0], ks[0]["cond"]) is False
    # the decrement is under `if (success)` (non-empty signature) and precedes the key-size dispatch in source order
    g = [astq.estr(c) for (c, t) in S.ast_guards(tap, dec[0]) if t] if dec else []
    neg = [n for n in tap.nodes() if n["k"] == "if" and "m_validation_weight_left < 0" in astq.estr(n["cond"]).replace("(", "").replace(")", "") and S.terminates(n["then"])]
    ctx.inst(w.get("value") == 50 and len(dec) == 1 and g == ["success"] and bool(neg) and bool(ks) and dec[0].get("l", 0) < ks[0].get("l", 0), "R02.4", "tapscript-sigop-budget", tap.loc(dec[0]) if dec else tap.loc(),
             "each non-empty signature costs 50 weight units before the key-type dispatch; a negative budget fails the script")


MUTANTS = [
    dict(name="legacy-sequence-not-blanked-for-none", file="script/interpreter.cpp", find="        if (nInput != nIn && (fHashSingle || fHashNone)) {", replace="        if (nInput != nIn && fHashSingle) {", expect=["R02.3:legacy-SerializeInput"]),
    dict(name="legacy-single-output-condition", file="script/interpreter.cpp", find="        if (fHashSingle && nOutput != nIn)\n", replace="        if (fHashSingle && nOutput == nIn)\n", expect=["R02.3:legacy-SerializeOutput"]),
    dict(name="normalize-to-null", file="pubkey.cpp", find="    secp256k1_ecdsa_signature_normalize(secp256k1_context_verify, &sig, &sig);\n    return secp256k1_ecdsa_verify(secp256k1_context_verify, &sig, hash.begin(), &pubkey);\n}\n\nbool CPubKey::VerifyCompact", replace="    secp256k1_ecdsa_signature_normalize(secp256k1_context_verify, nullptr, &sig);\n    return secp256k1_ecdsa_verify(secp256k1_context_verify, &sig, hash.begin(), &pubkey);\n}\n\nbool CPubKey::VerifyCompact", expect=["R02.5:normalize-in-place:CPubKey::Verify"]),
    dict(name="schnorr-00-hashtype-accepted", file="script/interpreter.cpp", regex=True, find=r"        if \(hashtype == SIGHASH_DEFAULT\) \{\n.*?\n            return set_error\(serror, SCRIPT_ERR_SCHNORR_SIG_HASHTYPE\);\n        \}\n", replace="", expect=["R02.6:explicit-default-hashtype-rejected"]),
    dict(name="bip143-single-output-single-sha", file="script/interpreter.cpp", find="            ss << txTo.vout[nIn];\n            hashOutputs = ss.GetHash();", replace="            ss << txTo.vout[nIn];\n            hashOutputs = ss.GetSHA256();", expect=["R02.7:finaliser:bip143"]),
    dict(name="bip143-single-output-renamed-single-sha", file="script/interpreter.cpp", find="            HashWriter ss{};\n            ss << txTo.vout[nIn];\n            hashOutputs = ss.GetHash();", replace="            HashWriter sha_single_output{};\n            sha_single_output << txTo.vout[nIn];\n            hashOutputs = sha_single_output.GetSHA256();", expect=["R02.7:finaliser:bip143"]),
    dict(name="stepper-forgets-opcode_pos", file="debugger/interpreter.cpp", find="        ++env.opcode_pos; // position of the next opcode in this script (BIP342 codeseparator_pos), as in EvalScript\n", replace="", expect=["R02.1:opcode_pos-advanced-per-step"]),
    dict(name="opcode_pos-not-restarted", file="debugger/interpreter.cpp", find="        env.nOpCount = 0; // reset to avoid hitting limit prematurely!\n        env.opcode_pos = 0;\n        return true;\n    }\n\n    // we are at end", replace="        env.nOpCount = 0; // reset to avoid hitting limit prematurely!\n        return true;\n    }\n\n    // we are at end", expect=["R02.1:opcode_pos-restarts"]),
    dict(name="codesep-init-dropped", file="instance.cpp", find="    execdata.m_codeseparator_pos = 0xFFFFFFFFUL;\n    execdata.m_codeseparator_pos_init = true;\n\n    env = new InterpreterEnv", replace="    env = new InterpreterEnv", expect=["R02.2:init=m_codeseparator_pos_init"]),
    dict(name="annex-init-only-with-annex", file="instance.cpp", find="                execdata.m_annex_present = false;\n            }\n            execdata.m_annex_init = true;", replace="                execdata.m_annex_present = false;\n            }", expect=["R02.2:init=m_annex_init"]),
    dict(name="codesep-stores-next-pos", file="script/interpreter.cpp", find="execdata.m_codeseparator_pos = opcode_pos;", replace="execdata.m_codeseparator_pos = opcode_pos + 1;", expect=["R02.1:separator-records-opcode_pos", "R02.2:codeseparator_pos-sources"]),
    dict(name="schnorr-fields-swapped", file="script/interpreter.cpp", find="    ss << tx_to.nVersion;\n    btc_sighash_logf(\" << tx_to.nLockTime\\n\");\n    ss << tx_to.nLockTime;", replace="    ss << tx_to.nLockTime;\n    btc_sighash_logf(\" << tx_to.nLockTime\\n\");\n    ss << tx_to.nVersion;", expect=["R02.3:bip341#02"]),
    dict(name="schnorr-amounts-dropped", file="script/interpreter.cpp", find="        ss << cache.m_spent_amounts_single_hash;\n", replace="", expect=["R02.3:bip341-field-count", "R02.3:bip341#05"]),
    dict(name="schnorr-guard-changed", file="script/interpreter.cpp", find="    if (output_type == SIGHASH_ALL) {\n        btc_sighash_logf(\"output type == sighash_all\\n\");", replace="    if (output_type != SIGHASH_NONE) {\n        btc_sighash_logf(\"output type == sighash_all\\n\");", expect=["R02.3:bip341#08"]),
    dict(name="spend-type-without-annex", file="script/interpreter.cpp", find="const uint8_t spend_type = (ext_flag << 1) + (have_annex ? 1 : 0);", replace="const uint8_t spend_type = (ext_flag << 1);", expect=["R02.3:bip341#09"]),
    dict(name="hashtype-84-valid", file="script/interpreter.cpp", find="if (!(hash_type <= 0x03 || (hash_type >= 0x81 && hash_type <= 0x83))) return false;", replace="if (!(hash_type <= 0x03 || (hash_type >= 0x81 && hash_type <= 0x84))) return false;", expect=["R02.3:table:valid-hash-types"]),
    dict(name="bip143-mask-3", file="script/interpreter.cpp", find="        if (!(nHashType & SIGHASH_ANYONECANPAY) && (nHashType & 0x1f) != SIGHASH_SINGLE && (nHashType & 0x1f) != SIGHASH_NONE) {", replace="        if (!(nHashType & SIGHASH_ANYONECANPAY) && (nHashType & SIGHASH_OUTPUT_MASK) != SIGHASH_SINGLE && (nHashType & SIGHASH_OUTPUT_MASK) != SIGHASH_NONE) {", expect=["R02.3:table:bip143-subhash-selection"]),
    dict(name="bip143-amount-before-script", file="script/interpreter.cpp", find="        ss << scriptCode;\n        btc_sighash_logf(\" << scriptCode\\n\");\n        ss << amount;", replace="        ss << amount;\n        btc_sighash_logf(\" << scriptCode\\n\");\n        ss << scriptCode;", expect=["R02.3:bip143-field-order"]),
    dict(name="legacy-flag-mask-3", file="script/interpreter.cpp", find="fHashSingle((nHashTypeIn & 0x1f) == SIGHASH_SINGLE),", replace="fHashSingle((nHashTypeIn & SIGHASH_OUTPUT_MASK) == SIGHASH_SINGLE),", expect=["R02.3:table:legacy-flags"]),
    dict(name="sequences-helper-hashes-prevouts", file="script/interpreter.cpp", find="        ss << txin.nSequence;\n    }\n    return ss.GetSHA256();", replace="        ss << txin.prevout;\n    }\n    return ss.GetSHA256();", expect=["R02.3:helper=GetSequencesSHA256"]),
    dict(name="binding-swapped", file="script/interpreter.cpp", find="        m_sequences_single_hash = GetSequencesSHA256(txTo);\n        m_outputs_single_hash = GetOutputsSHA256(txTo);", replace="        m_sequences_single_hash = GetOutputsSHA256(txTo);\n        m_outputs_single_hash = GetSequencesSHA256(txTo);", expect=["R02.3:binding=m_sequences_single_hash"]),
    dict(name="multisig-skips-pubkey-encoding", file="script/interpreter.cpp", find="                            if (!CheckSignatureEncoding(vchSig, flags, serror) || !CheckPubKeyEncoding(vchPubKey, flags, sigversion, serror)) {\n                                // serror is set\n                                    btc_sign_logf",
         replace="                            if (!CheckSignatureEncoding(vchSig, flags, serror)) {\n                                // serror is set\n                                    btc_sign_logf", expect=["R02.4:ecdsa-sites-agree"]),
    dict(name="weight-charged-for-empty-sig", file="script/interpreter.cpp", find="    if (success) {\n        // Implement the sigops/witnesssize ratio test.", replace="    if (true) {\n        // Implement the sigops/witnesssize ratio test.", expect=["R02.4:tapscript-sigop-budget"]),
]
