"""C02 - signature opcodes and digests: layout / bookkeeping clauses (DESIGN.md section 4, C02)."""
import json
import os
from .. import astq, structure as S, streams, fd
from ..facts import AnalysisBroken, walk, VERIF

EXPLANATION = (
    "Decides that the digests are LAID OUT as BIP143 / BIP341 / BIP342 prescribe and that the bookkeeping they read is maintained "
    "by the debugger's driver - not signature validity. R02.1 driver agreement: the session stepper performs the per-operation "
    "bookkeeping of the reference driver EvalScript (++opcode_pos after each successful operation, restart at script switches), so "
    "BIP342's codeseparator_pos is the executed separator's position. R02.2 init-flag discipline: every `assert(execdata.m_X_init)` "
    "reachable from a signature check is backed by an assignment of m_X_init = true that dominates the choice of the TAPROOT / "
    "TAPSCRIPT script version (or the hand-over of execdata to the session), and the only sources of m_codeseparator_pos are the "
    "0xFFFFFFFF initial value and opcode_pos in OP_CODESEPARATOR. R02.3 digest layout: SignatureHashSchnorr, SignatureHash (BIP143 and "
    "legacy), CTransactionSignatureSerializer, the five Get*SHA256 helpers and PrecomputedTransactionData::Init are evaluated to "
    "Herbrand terms per path (G-SYM: helpers inlined, loops summarised, parameters bound by position) with the hash type bound to each "
    "of 0..255, the script version to each admissible value, and annex / cache / range conditions forked; the typed stream each path "
    "hashes must equal the stream BIP341/342, BIP143 and the legacy SIGHASH rules prescribe for that hash type (field names from "
    "spec/digests.json; exactly the hash types 0..3, 0x81..0x83 produce a BIP341 digest). R02.4 the "
    "two ECDSA call sites run the encoding checks and the signature check in the same order with the same flag/version arguments; "
    "tapscript charges VALIDATION_WEIGHT_PER_SIGOP_PASSED (50) per non-empty signature before the key-type dispatch. ECDSA/Schnorr "
    "verification, FindAndDelete, lax DER parsing and multisig matching order are NOT decided.")
TRUSTED = ["clang 14 parser/Sema/constant evaluator", "/verif extractor", "/verif term evaluator G-SYM (checker/symx.py): inlining, loop summaries relative to prev, linear normal form; casts between integer types are treated as value-preserving", "spec/digests.json transcription of BIP143/341/342"]
ASSUMPTIONS = ["SHA-256 and secp256k1 are correct", "serialisation of each operand type (uint32, CTxOut, COutPoint, CScript) is decided under C13"]
DECLINED = ["ECDSA / Schnorr verification and lax DER parsing", "FindAndDelete", "multisig signature/key matching order", "which encoding error wins"]


def run(ctx, anchors=None):
    fb, prog = ctx.facts, ctx.prog
    spec = json.load(open(os.path.join(VERIF, "spec/digests.json")))
    ctx.rule("R02.1", "the session stepper keeps opcode_pos like EvalScript (++ per successful operation, 0 at script switches)")
    ctx.rule("R02.2", "init flags asserted by the digest code are set before a taproot/tapscript session can run; sources of m_codeseparator_pos")
    ctx.rule("R02.3", "digest layouts equal BIP143/341/342 and the legacy serialisation (ordered, guarded operands; finite-domain tables)")
    ctx.rule("R02.4", "the two ECDSA sites agree; tapscript signature budget")
    stepper = fb.fn("StepScript", file="debugger/interpreter.cpp")
    opstep = fb.fn("StepScript", file="script/interpreter.cpp")
    evals = [f for f in fb.fns("EvalScript", file="script/interpreter.cpp") if any(n["k"] == "un" and n["op"] == "++" for n in f.nodes())]
    if not evals:
        raise AnalysisBroken("R02.1: reference driver EvalScript (the one with the opcode loop) not found")
    evals = evals[0]
    # ---- R02.1
    ref_inc = [n for n in evals.nodes() if n["k"] == "un" and n["op"] == "++" and astq.estr(n["e"]).endswith("opcode_pos")]
    if not ref_inc:
        raise AnalysisBroken("R02.1: reference driver EvalScript no longer increments opcode_pos")
    scfg = stepper.cfg()
    call = [n for n in stepper.nodes() if astq.is_call(n) and n.get("cid") == opstep.id]
    if len(call) != 1:
        raise AnalysisBroken("R02.1: operation step call not found in the stepper")
    call = call[0]
    from . import common as _cm2
    succ, fail_ = _cm2.call_result_edges(stepper, scfg, call)
    if succ is None or fail_ is None:
        raise AnalysisBroken("R02.1: the result of the operation step is not branched on in the stepper")
    incs = [n for n in stepper.nodes() if n["k"] == "un" and n["op"] == "++" and astq.estr(n["e"]).endswith("opcode_pos")]
    ctx.site()
    ctx.inst(succ is not None and len(incs) == 1 and scfg.must_pass_from_block(succ, incs) and scfg.position(incs[0])[0] not in scfg.reachable_from(fail_),
             "R02.1", "opcode_pos-advanced-per-step", stepper.loc(incs[0]) if incs else stepper.loc(call),
             "after every successful operation step the stepper increments opcode_pos exactly once (as EvalScript does)",
             "the session stepper does not advance opcode_pos after a successful operation (EvalScript does at %s): OP_CODESEPARATOR records codeseparator_pos = %s for every separator, so BIP342 signatures are rejected"
             % (evals.loc(ref_inc[0]), "0" if not incs else "a wrong position"))
    sal = astq.aliases(stepper)
    from . import common
    switches = common.script_switches(prog, stepper)
    resets = [n for n in common.field_writers(prog, stepper, "opcode_pos") if not (n.get("k") == "un")]
    for swn in switches:
        ctx.site()
        ctx.inst((swn in resets) or (bool(resets) and scfg.must_pass_after(swn, resets)), "R02.1", "opcode_pos-restarts:" + astq.estr(swn)[:40], stepper.loc(swn),
                 "opcode_pos restarts at 0 for the next script", "after the script switch `%s` opcode_pos keeps counting from the previous script" % astq.estr(swn))
    # the separator records opcode_pos
    seps = [n for n in opstep.nodes() if n["k"] == "assign" and astq.estr(n["lhs"]).endswith("m_codeseparator_pos")]
    ctx.inst(len(seps) == 1 and astq.estr(seps[0]["rhs"]) == "opcode_pos", "R02.1", "separator-records-opcode_pos", opstep.loc(seps[0]) if seps else opstep.loc(),
             "OP_CODESEPARATOR stores opcode_pos in m_codeseparator_pos")
    # ---- R02.2
    asserted = {}
    for f in fb.funcs.values():
        if f.file != "script/interpreter.cpp":
            continue
        for n in f.nodes():
            if n["k"] == "call" and n.get("n") == "__assert_fail":
                par = f.parent(n)
                while par is not None and par.get("k") != "cond":
                    par = f.parent(par)
                if par is not None:
                    for x in walk(par["cond"]):
                        if x["k"] == "mem" and x["n"].endswith("_init") and x["n"].startswith("m_"):
                            asserted.setdefault(x["n"], f.loc(n))
    ctx.floor("R02.2", len(asserted), 4, "execdata init flags asserted by the digest / tapscript code")
    cf = fb.fn("Instance::configure_tx_txin")
    se = fb.fn("Instance::setup_environment")
    ccfg, secfg = cf.cfg(), se.cfg()

    from . import common as _cm
    _cm.require_names(cf, ["sigver", "execdata"], "R02.2")
    _cm.require_names(se, ["execdata", "env"], "R02.2")
    from . import c03_setup
    for flag, where in sorted(asserted.items()):
        ctx.site()
        if flag in ("m_annex_init", "m_tapleaf_hash_init", "m_validation_weight_left_init"):
            c03_setup.check_init_flag(ctx, fb, prog, flag, where)
        elif flag == "m_codeseparator_pos_init":
            sets = [n for n in se.nodes() if n["k"] == "assign" and astq.estr(n["lhs"]).endswith(flag) and astq.const_value(n["rhs"]) == 1]
            vals = [n for n in se.nodes() if n["k"] == "assign" and astq.estr(n["lhs"]).endswith("m_codeseparator_pos") and astq.const_value(n["rhs"]) == 0xFFFFFFFF]
            copies = [n for n in se.nodes() if n["k"] == "opcall" and n["op"] == "=" and astq.estr(n["args"][0]).endswith("env->execdata") and astq.estr(n["args"][1]) == "execdata"]
            ok = bool(sets) and bool(vals) and len(copies) == 1 and all(secfg.dominates(s_, copies[0]) for s_ in sets[:1]) and all(secfg.dominates(v, copies[0]) for v in vals[:1])
            ctx.inst(ok, "R02.2", "init=" + flag, se.loc(sets[0]) if sets else se.loc(),
                     "m_codeseparator_pos = 0xFFFFFFFF and its init flag are set before execdata is handed to the session",
                     "setup_environment hands Instance::execdata to the session (env->execdata = execdata) without m_codeseparator_pos = 0xFFFFFFFF / m_codeseparator_pos_init = true: "
                     "the first tapscript signature check aborts on assert(m_codeseparator_pos_init) (asserted at %s)" % where)
        else:
            ctx.fail("R02.2", "init=" + flag, where, "init flag %s is asserted at %s but no rule instance knows where it must be set" % (flag, where))
    srcs = set()
    for f in fb.funcs.values():
        if f.file in ("mastify.cpp", "merklebranch.cpp") or f.file.startswith("test/"):
            continue
        for n in f.nodes():
            if n["k"] == "assign" and astq.estr(n["lhs"]).endswith("m_codeseparator_pos"):
                srcs.add(astq.estr(n["rhs"]))
    ctx.inst(srcs <= {"opcode_pos", "4294967295"} and "opcode_pos" in srcs, "R02.2", "codeseparator_pos-sources", opstep.loc(), "m_codeseparator_pos is only assigned 0xFFFFFFFF (set-up) or opcode_pos (OP_CODESEPARATOR)",
             "m_codeseparator_pos is assigned from %s" % sorted(srcs))
    # ---- R02.3 / R02.7 digest layout on terms (G-SYM)
    from . import c02_digests
    c02_digests.run(ctx, fb, prog, spec)
    c02_digests.run_pubkey_encoding(ctx, fb, prog)
    # ---- R02.5 ECDSA verification normalises the parsed signature in place and verifies that same object
    ctx.rule("R02.5", "CPubKey::Verify / VerifyCompact: lax-parse (or compact-parse), normalise IN PLACE, verify the normalised signature")
    from .. import symx as _sx5
    X5 = _sx5.Explorer(prog, inline=lambda fn, n: fn.file == "pubkey.cpp" and fn.short != "ecdsa_signature_parse_der_lax", transparent=lambda n: True)
    for name in ("CPubKey::Verify", "CPubKey::VerifyCompact"):
        f = fb.fn(name)
        try:
            outs5 = X5.explore(f, this=("a", "this"))
        except _sx5.Unsupported as e:
            raise AnalysisBroken("R02.5: %s: %s" % (name, e))
        ctx.site()
        ok = False
        nver = 0
        why = "no call of secp256k1_ecdsa_signature_normalize on the verification path"
        for o in outs5:
            ver = [e for e in o.events if e.kind == "call" and e.name == "secp256k1_ecdsa_verify"]
            if not ver:
                continue
            nver += 1
            before = o.events[:o.events.index(ver[0])]
            norm = [e for e in before if e.kind == "call" and e.name == "secp256k1_ecdsa_signature_normalize" and len(e.terms) >= 3]
            if not norm:
                ok = False
                why = "secp256k1_ecdsa_verify is reached without a preceding secp256k1_ecdsa_signature_normalize"
                break
            out_arg, in_arg = norm[-1].terms[1], norm[-1].terms[2]
            sig_arg = ver[0].terms[1] if len(ver[0].terms) > 1 else None
            why = "normalize(out=%s, in=%s); verify(%s)" % (_sx5.show(out_arg), _sx5.show(in_arg), _sx5.show(sig_arg))
            ok = out_arg != _sx5.NULL and out_arg == in_arg and sig_arg == out_arg and isinstance(out_arg, tuple) and out_arg[0] == "addr"
            if not ok:
                break
        if nver == 0:
            ok = False
            why = "no path reaches secp256k1_ecdsa_verify"
        ctx.inst(ok, "R02.5", "normalize-in-place:" + name, f.loc(), "%s: %s" % (name, why),
                 "%s does not verify the normalised signature (%s): a valid high-S signature is rejected when LOW_S is not enforced" % (name, why))
    # ---- R02.6 Schnorr signature size / hash-type byte rules (BIP341)
    ctx.rule("R02.6", "CheckSchnorrSignature: sizes other than 64/65 fail; a 65-byte signature with hash type 0x00 fails; 64 bytes means SIGHASH_DEFAULT")
    css = [f for f in fb.funcs.values() if f.short == "CheckSchnorrSignature" and "GenericTransactionSignatureChecker" in f.name]
    if not css:
        raise AnalysisBroken("CheckSchnorrSignature not found")
    cs = css[0]
    # on terms (G-SYM): parameters bound by position, the paths classified by the decided comparisons of sig.size()
    from .. import symx as _sx
    if len(cs.params) != 5:
        raise AnalysisBroken("R02.6: CheckSchnorrSignature takes %d parameters" % len(cs.params))
    SIG = ("a", "sig")
    X6 = _sx.Explorer(prog, inline=lambda fn, n: False, transparent=lambda n: True)
    try:
        outs6 = X6.explore(cs, this=("a", "this"), params={cs.params[0]["n"]: SIG, cs.params[1]["n"]: ("a", "pubkey"), cs.params[2]["n"]: ("a", "sigversion"),
                                                            cs.params[3]["n"]: ("a", "execdata"), cs.params[4]["n"]: ("a", "serror")})
    except _sx.Unsupported as e:
        raise AnalysisBroken("R02.6: CheckSchnorrSignature: %s" % e)
    errs = {}
    for e_ in fb.enums:
        for c_ in e_["consts"]:
            if c_["n"] in ("SCRIPT_ERR_SCHNORR_SIG_SIZE", "SCRIPT_ERR_SCHNORR_SIG_HASHTYPE"):
                errs[c_["n"]] = c_["v"]
    if len(errs) != 2:
        raise AnalysisBroken("R02.6: Schnorr error codes not found")
    SZ = ("ap", "m:size", SIG)

    def size_is(o, k):
        for (t, v) in o.conds:
            if isinstance(t, tuple) and t[0] == "eq" and SZ in t[1:] and _sx.C(k) in t[1:]:
                return v
        return None
    n_paths = 0
    bad_size, bad_dflt, bad_64, bad_parsed = [], [], [], []
    seen65 = seen64 = seen_other = False
    for o in outs6:
        if o.status != "ret":
            continue
        n_paths += 1
        digest = [e for e in o.events if e.kind == "call" and e.name == "SignatureHashSchnorr"]
        verify = [e for e in o.events if e.kind == "mcall" and e.name == "VerifySchnorrSignature"]
        errcalls = [e.terms[1][1] for e in o.events if e.kind == "call" and e.name == "set_error" and len(e.terms) == 2 and _sx.is_const(e.terms[1])]
        s64, s65 = size_is(o, 64), size_is(o, 65)
        if s64 is False and s65 is False:
            seen_other = True
            if digest or verify or errcalls != [errs["SCRIPT_ERR_SCHNORR_SIG_SIZE"]] or not (isinstance(o.ret, tuple) and o.ret[:2] == ("ap", "set_error")):
                bad_size.append("a signature that is neither 64 nor 65 bytes reaches %s" % ("the digest / verification" if digest or verify else "error %s" % errcalls))
        elif s65 is True:
            seen65 = True
            pops = [e for e in o.events if e.kind == "call" and e.name == "SpanPopBack" and e.terms and e.terms[0] == SIG]
            if len(pops) != 1:
                bad_parsed.append("the hash type of a 65-byte signature is not taken by one SpanPopBack(sig)")
                continue
            H = ("ap", "SpanPopBack", SIG)
            hv = None
            for (t, v) in o.conds:
                if t == H:
                    hv = v
            if hv is False:
                if digest or verify or errcalls != [errs["SCRIPT_ERR_SCHNORR_SIG_HASHTYPE"]]:
                    bad_dflt.append("hash-type byte 0x00 of a 65-byte signature %s" % ("reaches the digest / verification" if digest or verify else "gives error %s" % errcalls))
            elif hv is None and (digest or verify):
                bad_dflt.append("the hash-type byte of a 65-byte signature is not tested against 0x00 before the digest")
            for d_ in digest:
                if len(d_.terms) < 5 or d_.terms[4] != H:
                    bad_parsed.append("the digest of a 65-byte signature is computed for hash type %s, not for its last byte" % (_sx.show(d_.terms[4]) if len(d_.terms) > 4 else "?"))
        elif s64 is True:
            seen64 = True
            for d_ in digest:
                if len(d_.terms) < 5 or d_.terms[4] != _sx.C(0):
                    bad_64.append("a 64-byte signature is hashed with hash type %s instead of SIGHASH_DEFAULT (0)" % (_sx.show(d_.terms[4]) if len(d_.terms) > 4 else "?"))
        for v_ in verify:
            if not digest or not any(_sx.contains(t, ("ap", "out:SignatureHashSchnorr#0",) + tuple(digest[0].terms)) for t in v_.terms):
                bad_parsed.append("the signature is verified against something other than the digest just computed")
    if not (seen64 and seen65 and seen_other):
        raise AnalysisBroken("R02.6: the 64 / 65 / other size classes could not be told apart on the paths of CheckSchnorrSignature")
    ctx.site(n_paths)
    ctx.inst(not bad_size, "R02.6", "size-64-or-65", cs.loc(), "signatures that are neither 64 nor 65 bytes fail with SCHNORR_SIG_SIZE before any digest", "; ".join(sorted(set(bad_size))[:2]))
    ctx.inst(not bad_dflt and not bad_64, "R02.6", "explicit-default-hashtype-rejected", cs.loc(),
             "64 bytes -> SIGHASH_DEFAULT; 65 bytes -> last byte is the hash type and 0x00 is rejected before the digest is computed",
             "%s (BIP341: 'if the signature is 65 bytes and hash_type is 0x00, fail'): signatures become malleable by appending 00" % "; ".join(sorted(set(bad_dflt + bad_64))[:2]))
    ctx.inst(not bad_parsed, "R02.6", "digest-uses-parsed-hashtype", cs.loc(),
             "the digest is computed for the parsed hash type and the signature is verified against it", "; ".join(sorted(set(bad_parsed))[:2]))
    # ---- R02.4
    pre = fb.fn("EvalChecksigPreTapscript")

    def ecdsa_seq(nodes):
        out = []
        for n in nodes:
            if astq.is_call(n) and n.get("n") in ("CheckSignatureEncoding", "CheckPubKeyEncoding", "CheckECDSASignature"):
                # callee and the canonical types of its arguments (names of the variables passed do not matter)
                out.append((n["n"], tuple(_sx.ctype(a) for a in n["args"])))
        return out
    a = ecdsa_seq(pre.nodes())
    groups = S.case_groups([s_ for s_ in S.find_switches(opstep) if astq.estr(s_["cond"]) == "opcode"][0])
    ms = [g for g in groups if "OP_CHECKMULTISIG" in g.names()]
    b = ecdsa_seq(list(ms[0].nodes()))[:3] if ms else []
    ctx.site()
    ctx.inst(len(a) == 3 and a == b, "R02.4", "ecdsa-sites-agree", pre.loc(), "CHECKSIG and CHECKMULTISIG run %s" % [x[0] for x in a],
             "the ECDSA sites differ: CHECKSIG runs %s, CHECKMULTISIG runs %s" % (a, b))
    tap = fb.fn("EvalChecksigTapscript")
    w = fb.var("VALIDATION_WEIGHT_PER_SIGOP_PASSED")
    if len(tap.params) != 8:
        raise AnalysisBroken("R02.4: EvalChecksigTapscript takes %d parameters" % len(tap.params))
    if "m_validation_weight_left" not in fb.record_fields("ScriptExecutionData"):
        raise AnalysisBroken("R02.4: anchor name(s) ['m_validation_weight_left'] not found - renamed or restructured")
    names8 = ["sig", "pubkey", "execdata", "flags", "checker", "sigversion", "serror", "success"]
    try:
        outs8 = X6.explore(tap, params={p_["n"]: ("a", c_) for p_, c_ in zip(tap.params, names8)})
    except _sx.Unsupported as e:
        raise AnalysisBroken("R02.4: EvalChecksigTapscript: %s" % e)
    werr = [c_["v"] for e_ in fb.enums for c_ in e_["consts"] if c_["n"] == "SCRIPT_ERR_TAPSCRIPT_VALIDATION_WEIGHT"]
    W0 = ("f", ("a", "execdata"), "m_validation_weight_left")
    W1 = _sx.lin_add(W0, _sx.C(-(w.get("value") or 0)))
    bad = []
    nn = 0
    for o in outs8:
        if o.status != "ret":
            continue
        nn += 1
        empty = None
        for (t, v) in o.conds:
            if t == ("ap", "m:empty", ("a", "sig")):
                empty = v
            elif t == ("ap", "m:size", ("a", "sig")):
                empty = not v
        if empty is None:
            bad.append("a path does not distinguish the empty signature")
            continue
        wt = X6.param_field(o, tap.params[2]["n"], "m_validation_weight_left")
        if empty and wt is not None:
            bad.append("an empty signature is charged (%s)" % _sx.show(wt))
        if not empty:
            if wt != W1:
                bad.append("a non-empty signature leaves the budget at %s on a path (expected exactly one charge of %s before the key-type dispatch)" % (_sx.show(wt) if wt is not None else "its old value", w.get("value")))
            neg = [v for (t, v) in o.conds if t == ("ap", "<", W1, _sx.C(0))]
            if not neg:
                bad.append("the budget is not tested for < 0 after the charge")
            elif neg[0]:
                errs_ = [e.terms[1] for e in o.events if e.kind == "call" and e.name == "set_error" and len(e.terms) == 2]
                if errs_ != [_sx.C(werr[0])] if werr else True:
                    bad.append("an exhausted budget does not fail with TAPSCRIPT_VALIDATION_WEIGHT")
                if any(e.name == "CheckSchnorrSignature" for e in o.events):
                    bad.append("an exhausted budget still reaches the signature check")
    ctx.site(nn)
    ctx.inst(w.get("value") == 50 and nn >= 4 and not bad, "R02.4", "tapscript-sigop-budget", tap.loc(),
             "each non-empty signature costs 50 weight units before the key-type dispatch; a negative budget fails the script",
             "tapscript signature budget: %s" % "; ".join(sorted(set(bad))[:3]))

    # ---- R02.9 the BIP66 size window of an ECDSA signature with its hash-type byte: the strict-DER judge refuses sizes below 9
    # and above 73 and nothing in between by size alone (8 bytes of framing + two one-byte integers + the hash type; 72 bytes of DER
    # at most + the hash type). The window is read off the constants the size of the checked vector is compared with.
    ctx.rule("R02.9", "IsValidSignatureEncoding accepts exactly the sizes 9..73 (DER plus the hash-type byte)")
    ive = [g for g in fb.funcs.values() if g.name == "IsValidSignatureEncoding" and g.body is not None]
    if not ive:
        raise AnalysisBroken("R02.9: IsValidSignatureEncoding not found")
    lo = hi = None
    psig = ive[0].params[0]["d"]
    for n in ive[0].nodes():
        if n["k"] == "bin" and n.get("op") in ("<", "<=", ">", ">="):
            for a_, b_, flip in ((n["lhs"], n["rhs"], False), (n["rhs"], n["lhs"], True)):
                x = astq.expand(ive[0], a_)      # `const size_t sig_size = sig.size();` is the same operand
                while x is not None and x.get("k") in ("cast", "paren"):
                    x = x["e"]
                o_ = x.get("obj") if x is not None and x.get("k") == "mcall" and x.get("n") == "size" else None
                while o_ is not None and o_.get("k") in ("cast", "paren"):
                    o_ = o_["e"]
                k_ = astq.const_value(b_)
                if k_ is None:      # a named constant (`static const size_t MAX_... = 73;`)
                    b0 = b_
                    while b0 is not None and b0.get("k") in ("cast", "paren"):
                        b0 = b0["e"]
                    if b0 is not None and b0.get("k") == "ref" and b0.get("dk") in ("global", "local"):
                        v_ = fb.var(b0["n"], optional=True)
                        k_ = v_.get("value") if v_ else None
                        if k_ is None and b0.get("dk") == "local":
                            k_ = astq.const_value(astq.single_defs(ive[0]).get(b0.get("d")))
                if o_ is None or o_.get("k") != "ref" or o_.get("d") != psig or k_ is None:
                    continue
                par = ive[0].parent(n)
                while par is not None and (par.get("k") in ("cast", "paren") or (par.get("k") == "bin" and par.get("op") == "||")):
                    par = ive[0].parent(par)      # a disjunct of the refusing condition refuses just the same
                if par is None or par.get("k") != "if" or not S.terminates(par["then"]):
                    continue
                op = {"<": ">", "<=": ">=", ">": "<", ">=": "<="}[n["op"]] if flip else n["op"]
                # `size op K` refuses: the smallest / largest accepted size
                if op == "<":
                    lo = k_ if lo is None else max(lo, k_)
                elif op == "<=":
                    lo = k_ + 1 if lo is None else max(lo, k_ + 1)
                elif op == ">":
                    hi = k_ if hi is None else min(hi, k_)
                elif op == ">=":
                    hi = k_ - 1 if hi is None else min(hi, k_ - 1)
    ctx.site(2)
    ctx.inst((lo, hi) == (9, 73), "R02.9", "der-size-window", ive[0].loc(), "sizes below 9 and above 73 are refused, 9..73 go on to the structure checks",
             "IsValidSignatureEncoding accepts the sizes %s..%s by size; BIP66 is 9..73 (the vector carries the hash-type byte): %s" %
             (lo, hi, "a maximal 73-byte signature (33-byte R and S) is refused as non-DER" if hi is not None and hi < 73 else "signatures outside the window reach the byte-indexing checks"))


MUTANTS = [
    dict(name="der-window-without-the-hashtype-byte", file="script/interpreter.cpp", find="    if (sig.size() > 73) return false;", replace="    if (sig.size() > 72) return false;", expect=["R02.9:der-size-window"]),
    dict(name="strictenc-accepts-hybrid-keys", file="script/interpreter.cpp", find="    if (vchPubKey[0] == 0x04) {\n        if (vchPubKey.size() != CPubKey::SIZE) {", replace="    if (vchPubKey[0] == 0x04 || vchPubKey[0] == 0x06 || vchPubKey[0] == 0x07) {\n        if (vchPubKey.size() != CPubKey::SIZE) {", expect=["R02.8:pubkey-encoding:IsCompressedOrUncompressedPubKey"]),
    dict(name="strictenc-via-validsize", file="script/interpreter.cpp", find="bool static IsCompressedOrUncompressedPubKey(const valtype &vchPubKey) {\n", replace="bool static IsCompressedOrUncompressedPubKey(const valtype &vchPubKey) {\n    if (CPubKey::ValidSize(vchPubKey)) return true;\n", expect=["R02.8:pubkey-encoding:IsCompressedOrUncompressedPubKey"]),
    dict(name="legacy-sequence-not-blanked-for-none", file="script/interpreter.cpp", find="        if (nInput != nIn && (fHashSingle || fHashNone)) {", replace="        if (nInput != nIn && fHashSingle) {", expect=["R02.3:legacy-SerializeInput"]),
    dict(name="legacy-single-output-condition", file="script/interpreter.cpp", find="        if (fHashSingle && nOutput != nIn)\n", replace="        if (fHashSingle && nOutput == nIn)\n", expect=["R02.3:legacy-SerializeOutput"]),
    dict(name="normalize-to-null", file="pubkey.cpp", find="    secp256k1_ecdsa_signature_normalize(secp256k1_context_verify, &sig, &sig);\n    return secp256k1_ecdsa_verify(secp256k1_context_verify, &sig, hash.begin(), &pubkey);\n}\n\nbool CPubKey::VerifyCompact", replace="    secp256k1_ecdsa_signature_normalize(secp256k1_context_verify, nullptr, &sig);\n    return secp256k1_ecdsa_verify(secp256k1_context_verify, &sig, hash.begin(), &pubkey);\n}\n\nbool CPubKey::VerifyCompact", expect=["R02.5:normalize-in-place:CPubKey::Verify"]),
    dict(name="schnorr-00-hashtype-accepted", file="script/interpreter.cpp", regex=True, find=r"        if \(hashtype == SIGHASH_DEFAULT\) \{\n.*?\n            return set_error\(serror, SCRIPT_ERR_SCHNORR_SIG_HASHTYPE\);\n        \}\n", replace="", expect=["R02.6:explicit-default-hashtype-rejected"]),
    dict(name="bip143-single-output-single-sha", file="script/interpreter.cpp", find="            ss << txTo.vout[nIn];\n            hashOutputs = ss.GetHash();", replace="            ss << txTo.vout[nIn];\n            hashOutputs = ss.GetSHA256();", expect=["R02.7:finaliser:bip143"]),
    dict(name="bip143-single-output-renamed-single-sha", file="script/interpreter.cpp", find="            HashWriter ss{};\n            ss << txTo.vout[nIn];\n            hashOutputs = ss.GetHash();", replace="            HashWriter sha_single_output{};\n            sha_single_output << txTo.vout[nIn];\n            hashOutputs = sha_single_output.GetSHA256();", expect=["R02.7:finaliser:bip143"]),
    dict(name="stepper-forgets-opcode_pos", file="debugger/interpreter.cpp", find="        ++env.opcode_pos; // position of the next opcode in this script (BIP342 codeseparator_pos), as in EvalScript\n", replace="", expect=["R02.1:opcode_pos-advanced-per-step"]),
    dict(name="opcode_pos-not-restarted", file="debugger/interpreter.cpp", find="        env.nOpCount = 0; // reset to avoid hitting limit prematurely!\n        env.opcode_pos = 0;\n        env.altstack.clear();", replace="        env.nOpCount = 0; // reset to avoid hitting limit prematurely!\n        env.altstack.clear();", expect=["R02.1:opcode_pos-restarts"]),
    dict(name="codesep-init-dropped", file="instance.cpp", find="    execdata.m_codeseparator_pos = 0xFFFFFFFFUL;\n    execdata.m_codeseparator_pos_init = true;\n\n    env = new InterpreterEnv", replace="    env = new InterpreterEnv", expect=["R02.2:init=m_codeseparator_pos_init"]),
    dict(name="annex-init-only-with-annex", file="instance.cpp", find="                execdata.m_annex_present = false;\n            }\n            execdata.m_annex_init = true;", replace="                execdata.m_annex_present = false;\n            }", expect=["R02.2:init=m_annex_init"]),
    dict(name="codesep-stores-next-pos", file="script/interpreter.cpp", find="execdata.m_codeseparator_pos = opcode_pos;", replace="execdata.m_codeseparator_pos = opcode_pos + 1;", expect=["R02.1:separator-records-opcode_pos", "R02.2:codeseparator_pos-sources"]),
    dict(name="schnorr-fields-swapped", file="script/interpreter.cpp", find="    ss << tx_to.nVersion;\n    btc_sighash_logf(\" << tx_to.nLockTime\\n\");\n    ss << tx_to.nLockTime;", replace="    ss << tx_to.nLockTime;\n    btc_sighash_logf(\" << tx_to.nLockTime\\n\");\n    ss << tx_to.nVersion;", expect=["R02.3:bip341#02"]),
    dict(name="schnorr-amounts-dropped", file="script/interpreter.cpp", find="        ss << cache.m_spent_amounts_single_hash;\n", replace="", expect=["R02.3:bip341-field-count", "R02.3:bip341#05"]),
    dict(name="schnorr-guard-changed", file="script/interpreter.cpp", find="    if (output_type == SIGHASH_ALL) {\n        btc_sighash_logf(\"output type == sighash_all\\n\");", replace="    if (output_type != SIGHASH_NONE) {\n        btc_sighash_logf(\"output type == sighash_all\\n\");", expect=["R02.3:bip341#08"]),
    dict(name="spend-type-without-annex", file="script/interpreter.cpp", find="const uint8_t spend_type = (ext_flag << 1) + (have_annex ? 1 : 0);", replace="const uint8_t spend_type = (ext_flag << 1);", expect=["R02.3:bip341#09"]),
    dict(name="hashtype-84-valid", file="script/interpreter.cpp", find="if (!(hash_type <= 0x03 || (hash_type >= 0x81 && hash_type <= 0x83))) return false;", replace="if (!(hash_type <= 0x03 || (hash_type >= 0x81 && hash_type <= 0x84))) return false;", expect=["R02.3:table:valid-hash-types"]),
    dict(name="bip143-mask-3", file="script/interpreter.cpp", find="        if (!(nHashType & SIGHASH_ANYONECANPAY) && (nHashType & 0x1f) != SIGHASH_SINGLE && (nHashType & 0x1f) != SIGHASH_NONE) {", replace="        if (!(nHashType & SIGHASH_ANYONECANPAY) && (nHashType & SIGHASH_OUTPUT_MASK) != SIGHASH_SINGLE && (nHashType & SIGHASH_OUTPUT_MASK) != SIGHASH_NONE) {", expect=["R02.3:table:bip143-subhash-selection"]),
    dict(name="bip143-amount-before-script", file="script/interpreter.cpp", find="        ss << scriptCode;\n        btc_sighash_logf(\" << scriptCode\\n\");\n        ss << amount;", replace="        ss << amount;\n        btc_sighash_logf(\" << scriptCode\\n\");\n        ss << scriptCode;", expect=["R02.3:bip143-field-order"]),
    dict(name="legacy-flag-mask-3", file="script/interpreter.cpp", find="fHashSingle((nHashTypeIn & 0x1f) == SIGHASH_SINGLE),", replace="fHashSingle((nHashTypeIn & SIGHASH_OUTPUT_MASK) == SIGHASH_SINGLE),", expect=["R02.3:table:legacy-flags"]),
    dict(name="sequences-helper-hashes-prevouts", file="script/interpreter.cpp", find="        ss << txin.nSequence;\n    }\n    return ss.GetSHA256();", replace="        ss << txin.prevout;\n    }\n    return ss.GetSHA256();", expect=["R02.3:helper=GetSequencesSHA256"]),
    dict(name="binding-swapped", file="script/interpreter.cpp", find="        m_sequences_single_hash = GetSequencesSHA256(txTo);\n        m_outputs_single_hash = GetOutputsSHA256(txTo);", replace="        m_sequences_single_hash = GetOutputsSHA256(txTo);\n        m_outputs_single_hash = GetSequencesSHA256(txTo);", expect=["R02.3:binding=m_sequences_single_hash"]),
    dict(name="multisig-skips-pubkey-encoding", file="script/interpreter.cpp", find="                            if (!CheckSignatureEncoding(vchSig, flags, serror) || !CheckPubKeyEncoding(vchPubKey, flags, sigversion, serror)) {\n                                // serror is set\n                                    btc_sign_logf",
         replace="                            if (!CheckSignatureEncoding(vchSig, flags, serror)) {\n                                // serror is set\n                                    btc_sign_logf", expect=["R02.4:ecdsa-sites-agree"]),
    dict(name="weight-charged-for-empty-sig", file="script/interpreter.cpp", find="    if (success) {\n        // Implement the sigops/witnesssize ratio test.", replace="    if (true) {\n        // Implement the sigops/witnesssize ratio test.", expect=["R02.4:tapscript-sigop-budget"]),
]
