"""C02 - signature opcodes and digests: layout / bookkeeping clauses (DESIGN.md section 4, C02)."""
import json
import os
from .. import astq, structure as S, streams, fd
from ..facts import AnalysisBroken, walk, VERIF

EXPLANATION = (
    "Decides that the digests are LAID OUT as BIP143 / BIP341 / BIP342 prescribe and that the bookkeeping they read is maintained "
    "by the debugger's driver - not signature validity. R02.1 driver agreement: the session stepper performs the per-operation "
    "bookkeeping of the reference driver EvalScript (++opcode_pos after each successful operation, restart at script switches), so "
    "BIP342's codeseparator_pos is the executed separator's position. R02.2 init-flag discipline: every `assert(execdata.m_X_init)` "
    "reachable from a signature check is backed by an assignment of m_X_init = true that dominates the choice of the TAPROOT / "
    "TAPSCRIPT script version (or the hand-over of execdata to the session), and the only sources of m_codeseparator_pos are the "
    "0xFFFFFFFF initial value and opcode_pos in OP_CODESEPARATOR. R02.3 digest layout vs spec table (spec/digests.json): the ordered, "
    "guarded operand sequence streamed in SignatureHashSchnorr, in the WITNESS_V0 branch of SignatureHash, in "
    "CTransactionSignatureSerializer and in the five Get*SHA256 helpers equals the BIP tables through the binding table; spend_type, "
    "output_type / input_type, the hash-type validity predicate, the BIP143 sub-hash selection and the legacy serializer's flags are "
    "tabulated over their finite domains (hash_type 0..255, ext_flag/annex in {0,1}) and compared with the BIP definitions. R02.4 the "
    "two ECDSA call sites run the encoding checks and the signature check in the same order with the same flag/version arguments; "
    "tapscript charges VALIDATION_WEIGHT_PER_SIGOP_PASSED (50) per non-empty signature before the key-type dispatch. ECDSA/Schnorr "
    "verification, FindAndDelete, lax DER parsing and multisig matching order are NOT decided.")
TRUSTED = ["clang 14 parser/Sema/constant evaluator", "/verif extractor, stream engine, finite-domain evaluator", "spec/digests.json transcription of BIP143/341/342"]
ASSUMPTIONS = ["SHA-256 and secp256k1 are correct", "serialisation of each operand type (uint32, CTxOut, COutPoint, CScript) is decided under C13"]
DECLINED = ["ECDSA / Schnorr verification and lax DER parsing", "FindAndDelete", "multisig signature/key matching order", "which encoding error wins"]


def guarded_events(func, var):
    """stream events on local `var` in source order with their structural guards"""
    sp = lambda n: n.get("k") == "ref" and n["n"] == var
    out = []
    for n in func.nodes():
        if n["k"] in ("opcall",) and n.get("op") == "<<":
            par = func.parent(n)
            if par is not None and par.get("k") == "opcall" and par.get("op") == "<<" and par["args"][0] is n:
                continue   # inner part of a chain; handled from the outermost
            base, ops = streams.flatten_chain(n)
            if base is not None and sp(base):
                g = [("" if t else "!") + astq.estr(c) for (c, t) in S.ast_guards(func, n)]
                for (op, operand, node) in ops:
                    out.append((astq.estr(operand), g, node))
    return out


def run(ctx, anchors=None):
    fb, prog = ctx.facts, ctx.prog
    spec = json.load(open(os.path.join(VERIF, "spec/digests.json")))
    ctx.rule("R02.1", "the session stepper keeps opcode_pos like EvalScript (++ per successful operation, 0 at script switches)")
    ctx.rule("R02.2", "init flags asserted by the digest code are set before a taproot/tapscript session can run; sources of m_codeseparator_pos")
    ctx.rule("R02.3", "digest layouts equal BIP143/341/342 and the legacy serialisation (ordered, guarded operands; finite-domain tables)")
    ctx.rule("R02.4", "the two ECDSA sites agree; tapscript signature budget")
    stepper = fb.fn("StepScript", file="debugger/interpreter.cpp")
    opstep = fb.fn("StepScript", file="script/interpreter.cpp")
    evals = [f for f in fb.fns("EvalScript", file="script/interpreter.cpp") if any(n["k"] == "un" and n["op"] == "++" for n in f.nodes())]
    if not evals:
        raise AnalysisBroken("R02.1: reference driver EvalScript (the one with the opcode loop) not found")
    evals = evals[0]
    # ---- R02.1
    ref_inc = [n for n in evals.nodes() if n["k"] == "un" and n["op"] == "++" and astq.estr(n["e"]).endswith("opcode_pos")]
    if not ref_inc:
        raise AnalysisBroken("R02.1: reference driver EvalScript no longer increments opcode_pos")
    scfg = stepper.cfg()
    call = [n for n in stepper.nodes() if astq.is_call(n) and n.get("cid") == opstep.id]
    if len(call) != 1:
        raise AnalysisBroken("R02.1: operation step call not found in the stepper")
    call = call[0]
    succ = None
    for (blk, s_, c, t) in scfg.cond_edges():
        if c == call["id"] and t:
            succ = s_
    incs = [n for n in stepper.nodes() if n["k"] == "un" and n["op"] == "++" and astq.estr(n["e"]).endswith("opcode_pos")]
    ctx.site()
    ctx.inst(succ is not None and len(incs) == 1 and scfg.must_pass_from_block(succ, incs) and scfg.position(incs[0])[0] not in scfg.reachable_from([s_ for (b, s_, c, t) in scfg.cond_edges() if c == call["id"] and not t][0]),
             "R02.1", "opcode_pos-advanced-per-step", stepper.loc(incs[0]) if incs else stepper.loc(call),
             "after every successful operation step the stepper increments opcode_pos exactly once (as EvalScript does)",
             "the session stepper does not advance opcode_pos after a successful operation (EvalScript does at %s): OP_CODESEPARATOR records codeseparator_pos = %s for every separator, so BIP342 signatures are rejected"
             % (evals.loc(ref_inc[0]), "0" if not incs else "a wrong position"))
    sal = astq.aliases(stepper)
    from . import common
    switches = common.script_switches(prog, stepper)
    resets = [n for n in common.field_writers(prog, stepper, "opcode_pos") if not (n.get("k") == "un")]
    for swn in switches:
        ctx.site()
        ctx.inst((swn in resets) or (bool(resets) and scfg.must_pass_after(swn, resets)), "R02.1", "opcode_pos-restarts:" + astq.estr(swn)[:40], stepper.loc(swn),
                 "opcode_pos restarts at 0 for the next script", "after the script switch `%s` opcode_pos keeps counting from the previous script" % astq.estr(swn))
    # the separator records opcode_pos
    seps = [n for n in opstep.nodes() if n["k"] == "assign" and astq.estr(n["lhs"]).endswith("m_codeseparator_pos")]
    ctx.inst(len(seps) == 1 and astq.estr(seps[0]["rhs"]) == "opcode_pos", "R02.1", "separator-records-opcode_pos", opstep.loc(seps[0]) if seps else opstep.loc(),
             "OP_CODESEPARATOR stores opcode_pos in m_codeseparator_pos")
    # ---- R02.2
    asserted = {}
    for f in fb.funcs.values():
        if f.file != "script/interpreter.cpp":
            continue
        for n in f.nodes():
            if n["k"] == "call" and n.get("n") == "__assert_fail":
                par = f.parent(n)
                while par is not None and par.get("k") != "cond":
                    par = f.parent(par)
                if par is not None:
                    for x in walk(par["cond"]):
                        if x["k"] == "mem" and x["n"].endswith("_init") and x["n"].startswith("m_"):
                            asserted.setdefault(x["n"], f.loc(n))
    ctx.floor("R02.2", len(asserted), 4, "execdata init flags asserted by the digest / tapscript code")
    cf = fb.fn("Instance::configure_tx_txin")
    se = fb.fn("Instance::setup_environment")
    ccfg, secfg = cf.cfg(), se.cfg()

    from . import common as _cm
    _cm.require_names(cf, ["sigver", "execdata"], "R02.2")
    _cm.require_names(se, ["execdata", "env"], "R02.2")
    tr_sv = [n for n in cf.nodes() if n["k"] == "assign" and astq.estr(n["lhs"]) == "sigver" and astq.estr(n["rhs"]).endswith("TAPROOT")]
    ts_sv = [n for n in cf.nodes() if n["k"] == "assign" and astq.estr(n["lhs"]) == "sigver" and astq.estr(n["rhs"]).endswith("TAPSCRIPT")]
    if not tr_sv or not ts_sv:
        raise AnalysisBroken("R02.2: TAPROOT/TAPSCRIPT script-version assignments not found in configure_tx_txin")
    need = {"m_annex_init": tr_sv + ts_sv, "m_tapleaf_hash_init": ts_sv, "m_validation_weight_left_init": ts_sv}
    for flag, where in sorted(asserted.items()):
        ctx.site()
        if flag in need:
            sets = [n for n in cf.nodes() if n["k"] == "assign" and astq.estr(n["lhs"]).endswith(flag) and astq.const_value(n["rhs"]) == 1]
            # value field assigned as well
            val = flag[:-5]
            vals = [n for n in cf.nodes() if (n["k"] == "assign" and astq.estr(n["lhs"]).endswith(val if val != "m_annex" else "m_annex_present")) or
                    (n["k"] == "un" and False)]
            ok = bool(sets) and all(any(ccfg.dominates(s_, tgt) or ccfg.must_pass_after(tgt, [s_]) for s_ in sets) for tgt in need[flag])
            if flag == "m_tapleaf_hash_init":
                vals = [n for n in cf.nodes() if n["k"] == "new" and "TaprootCommitmentEnv" in n.get("ty", "")]
            ctx.inst(ok and bool(vals), "R02.2", "init=" + flag, cf.loc(sets[0]) if sets else cf.loc(),
                     "%s (asserted at %s) is set, with its value, on every path that selects the taproot/tapscript version" % (flag, where),
                     "%s is asserted at %s but configure_tx_txin can select TAPROOT/TAPSCRIPT without setting it: the first signature check aborts on the assertion" % (flag, where))
        elif flag == "m_codeseparator_pos_init":
            sets = [n for n in se.nodes() if n["k"] == "assign" and astq.estr(n["lhs"]).endswith(flag) and astq.const_value(n["rhs"]) == 1]
            vals = [n for n in se.nodes() if n["k"] == "assign" and astq.estr(n["lhs"]).endswith("m_codeseparator_pos") and astq.const_value(n["rhs"]) == 0xFFFFFFFF]
            copies = [n for n in se.nodes() if n["k"] == "opcall" and n["op"] == "=" and astq.estr(n["args"][0]).endswith("env->execdata") and astq.estr(n["args"][1]) == "execdata"]
            ok = bool(sets) and bool(vals) and len(copies) == 1 and all(secfg.dominates(s_, copies[0]) for s_ in sets[:1]) and all(secfg.dominates(v, copies[0]) for v in vals[:1])
            ctx.inst(ok, "R02.2", "init=" + flag, se.loc(sets[0]) if sets else se.loc(),
                     "m_codeseparator_pos = 0xFFFFFFFF and its init flag are set before execdata is handed to the session",
                     "setup_environment hands Instance::execdata to the session (env->execdata = execdata) without m_codeseparator_pos = 0xFFFFFFFF / m_codeseparator_pos_init = true: "
                     "the first tapscript signature check aborts on assert(m_codeseparator_pos_init) (asserted at %s)" % where)
        else:
            ctx.fail("R02.2", "init=" + flag, where, "init flag %s is asserted at %s but no rule instance knows where it must be set" % (flag, where))
    srcs = set()
    for f in fb.funcs.values():
        if f.file in ("mastify.cpp", "merklebranch.cpp") or f.file.startswith("test/"):
            continue
        for n in f.nodes():
            if n["k"] == "assign" and astq.estr(n["lhs"]).endswith("m_codeseparator_pos"):
                srcs.add(astq.estr(n["rhs"]))
    ctx.inst(srcs <= {"opcode_pos", "4294967295"} and "opcode_pos" in srcs, "R02.2", "codeseparator_pos-sources", opstep.loc(), "m_codeseparator_pos is only assigned 0xFFFFFFFF (set-up) or opcode_pos (OP_CODESEPARATOR)",
             "m_codeseparator_pos is assigned from %s" % sorted(srcs))
    # ---- R02.3 schnorr layout
    shs = [f for f in fb.fns("SignatureHashSchnorr")]
    if not shs:
        raise AnalysisBroken("SignatureHashSchnorr not found")
    sh = shs[0]

    from . import common as _cm
    _cm.require_names(sh, ["ss", "ext_flag", "key_version", "hash_type", "output_type", "input_type", "spend_type", "have_annex", "cache", "execdata", "tx_to", "in_pos", "sigversion"], "R02.3")
    evs = guarded_events(sh, "ss")
    got = [(o, [g for g in gd if not g.startswith("!(!execdata.m_output_hash") and "in_pos >= tx_to.vout.size()" not in g and "m_bip341" not in g]) for (o, gd, n) in evs]
    want = [(e["operand"], e["when"]) for e in spec["bip341"]]
    ctx.site(len(evs))
    if len(got) != len(want):
        ctx.fail("R02.3", "bip341-field-count", sh.loc(), "SignatureHashSchnorr streams %d operands into the sighash, BIP341/342 define %d: %s" % (len(got), len(want), [g[0] for g in got]))
    for i, (w, g) in enumerate(zip(want, got)):
        bip = spec["bip341"][i]["bip"]
        ctx.inst(w[0] == g[0] and w[1] == g[1], "R02.3", "bip341#%02d:%s" % (i, bip), sh.loc(evs[i][2]),
                 "field %d %s = %s when %s" % (i, bip, g[0], g[1] or "always"),
                 "BIP341 message field %d must be %s (`%s` when %s) but the code streams `%s` when %s" % (i, bip, w[0], w[1] or "always", g[0], g[1] or "always"))
    hdecl = [d for n in sh.nodes() if n["k"] == "decl" for d in n["decls"] if d["n"] == "ss"]
    hsrc = [y["n"] for d in hdecl if d.get("init") for y in walk(d["init"]) if y["k"] == "ref" and y.get("dk") == "global"]
    ctx.inst(hsrc == ["HASHER_TAPSIGHASH"], "R02.3", "bip341-tagged-hasher", sh.loc(), "the message is hashed with TapSighash")
    # finite-domain tables
    decls = {d["n"]: d.get("init") for n in sh.nodes() if n["k"] == "decl" for d in n["decls"]}
    try:
        consts = {}
        for name in ("SIGHASH_DEFAULT", "SIGHASH_ALL", "SIGHASH_NONE", "SIGHASH_SINGLE", "SIGHASH_ANYONECANPAY", "SIGHASH_OUTPUT_MASK", "SIGHASH_INPUT_MASK"):
            for e in fb.enums:
                for c in e["consts"]:
                    if c["n"] == name:
                        consts[name] = c["v"]
        bad = []
        for ext in (0, 1):
            for annex in (0, 1):
                v = fd.ev(decls["spend_type"], {"ext_flag": ext, "have_annex": annex}) & 0xff
                if v != ext * 2 + annex:
                    bad.append((ext, annex, v))
        ctx.site(4)
        ctx.inst(not bad, "R02.3", "table:spend_type", sh.loc(), "spend_type = 2*ext_flag + annex_present over {0,1}x{0,1}", "spend_type table differs from 2*ext_flag + annex_present at %s" % bad)
        bad = []
        valid = []
        vif = [n for n in sh.nodes() if n["k"] == "if" and "hash_type" in astq.estr(n["cond"]) and "131" in astq.estr(n["cond"]).replace("0x83", "131")]
        for h in range(256):
            env = {"hash_type": h}
            ot = fd.ev(decls["output_type"], env) & 0xff
            it = fd.ev(decls["input_type"], env) & 0xff
            if ot != (1 if h == 0 else (h & 3)) or it != (h & 0x80):
                bad.append(h)
            if vif:
                if not fd.ev(vif[0]["cond"], env):
                    valid.append(h)
        ctx.site(256)
        ctx.inst(not bad, "R02.3", "table:output/input_type", sh.loc(), "output_type = (h==0 ? ALL : h&3), input_type = h&0x80 for all 256 hash types", "output_type/input_type differ from BIP341 at hash types %s" % bad[:8])
        ctx.inst(bool(vif) and valid == spec["bip341_valid_hash_types"] and S.terminates(vif[0]["then"]), "R02.3", "table:valid-hash-types", sh.loc(vif[0]) if vif else sh.loc(),
                 "exactly the hash types %s are accepted" % spec["bip341_valid_hash_types"], "accepted taproot hash types are %s, BIP341 defines %s" % (valid[:12], spec["bip341_valid_hash_types"]))
    except (fd.Unknown, KeyError) as e:
        raise AnalysisBroken("R02.3: finite-domain tabulation failed: %s" % e)
    # ext_flag / key_version per sigversion
    sw = [s_ for s_ in S.find_switches(sh) if astq.estr(s_["cond"]) == "sigversion"]
    tab = {}
    if sw:
        for g in S.case_groups(sw[0]):
            for n in g.nodes():
                if n["k"] == "assign" and astq.estr(n["lhs"]) in ("ext_flag", "key_version"):
                    tab[(g.short_names()[0], astq.estr(n["lhs"]))] = astq.const_value(n["rhs"])
    ctx.inst(tab.get(("TAPROOT", "ext_flag")) == 0 and tab.get(("TAPSCRIPT", "ext_flag")) == 1 and tab.get(("TAPSCRIPT", "key_version")) == 0, "R02.3", "table:ext_flag/key_version", sh.loc(),
             "ext_flag = 0 (key path) / 1 (tapscript), key_version = 0", "ext_flag/key_version per script version are %s" % tab)
    # sha helpers + binding
    for name, (cont, item) in sorted(spec["sha_helpers"].items()):
        fs = [f_ for f_ in fb.funcs.values() if f_.short == name and f_.file == "script/interpreter.cpp"]
        ctx.site()
        if not fs:
            ctx.fail("R02.3", "helper=" + name, "script/interpreter.cpp:0", "%s not found" % name)
            continue
        f = fs[0]
        loops = [n for n in f.nodes() if n["k"] == "forrange"]
        e = guarded_events(f, "ss")
        ok = len(loops) == 1 and astq.estr(loops[0].get("range")) == cont and len(e) == 1 and e[0][0] == item and S.contains(loops[0], e[0][2])
        ctx.inst(ok, "R02.3", "helper=" + name, f.loc(), "%s = SHA256 of %s for each element of %s" % (name, item, cont),
                 "%s streams %s over %s; BIP341 defines it over %s of every element of %s" % (name, [x[0] for x in e], [astq.estr(l.get("range")) for l in loops], item, cont))
    init = [f for f in fb.fns("PrecomputedTransactionData::Init")]
    if init:
        f = init[0]
        asg = {}
        for n in f.nodes():
            if n["k"] == "opcall" and n["op"] == "=":
                l = astq.estr(n["args"][0]).replace("this->", "")
                calls = [x.get("n") for x in walk(n["args"][1]) if x["k"] == "call"]
                refs = [x["n"] for x in walk(n["args"][1]) if x["k"] == "mem"]
                asg[l] = (calls, refs)
        for field, src in sorted(spec["binding"].items()):
            ctx.site()
            calls, refs = asg.get(field, ([], []))
            ok = (src in calls) or (src in refs and "SHA256Uint256" in calls)
            ctx.inst(ok, "R02.3", "binding=" + field, f.loc(), "%s is computed from %s" % (field, src), "%s is computed from %s / %s; it must come from %s" % (field, calls, refs, src))
    # BIP143
    sig = [f for f in fb.fns("SignatureHash") if f.file == "script/interpreter.cpp"]
    if not sig:
        raise AnalysisBroken("SignatureHash not found")
    sg = sig[0]
    _cm.require_names(sg, ["ss", "hashPrevouts", "hashSequence", "hashOutputs", "nHashType", "nIn", "txTo", "scriptCode", "amount", "sigversion"], "R02.3")
    e143 = [(o, gd) for (o, gd, n) in guarded_events(sg, "ss") if any("WITNESS_V0" in g and not g.startswith("!") for g in gd)]
    outer = [x for x in e143 if len(x[1]) == 1]
    got143 = [o for (o, gd) in outer]
    ctx.site(len(got143))
    ctx.inst(got143 == spec["bip143"], "R02.3", "bip143-field-order", sg.loc(), "BIP143 digest = %s" % got143, "the segwit v0 digest streams %s; BIP143 defines %s" % (got143, spec["bip143"]))
    # selection tables for the three sub-hashes over nHashType 0..255
    sel = {"hashPrevouts": [], "hashSequence": [], "hashOutputs": []}
    sub_ifs = []
    for n in sg.nodes():
        if n["k"] == "if" and any("WITNESS_V0" in astq.estr(c) for (c, t) in S.ast_guards(sg, n) if t):
            tgt = [astq.estr(x["args"][0]) for x in walk(n["then"]) if x["k"] == "opcall" and x["op"] == "=" and astq.estr(x["args"][0]) in sel]
            if tgt:
                sub_ifs.append((n, tgt[0]))
    try:
        bad = []
        for h in range(256):
            env = {"nHashType": h, "nIn": 0}
            base = h & 0x1f
            want_set = {"hashPrevouts": not (h & 0x80), "hashSequence": (not (h & 0x80)) and base not in (2, 3), "hashOutputs": base not in (2, 3)}
            got_set = {k: False for k in sel}
            for (n, tgt) in sub_ifs:
                par = sg.parent(n)
                if par is not None and par.get("k") == "if" and par.get("else") is n:
                    continue
                if fd.ev(n["cond"], env):
                    got_set[tgt] = True
            if got_set != want_set:
                bad.append(h)
        ctx.site(256)
        ctx.inst(not bad and len(sub_ifs) >= 3, "R02.3", "table:bip143-subhash-selection", sg.loc(), "hashPrevouts / hashSequence / hashOutputs(all) are committed for exactly the hash types BIP143 names (256 tabulated)",
                 "BIP143 sub-hash selection differs from the BIP at hash types %s (e.g. 0x%02x): the mask that selects NONE/SINGLE is not 0x1f" % (bad[:10], bad[0] if bad else 0))
        # single: else-if branch
        single = [n for (n, tgt) in sub_ifs if sg.parent(n) is not None and sg.parent(n).get("k") == "if" and sg.parent(n).get("else") is n]
        okS = False
        if single:
            okS = all(bool(fd.ev(single[0]["cond"], {"nHashType": h, "nIn": 0, "txTo.vout.size()": 1})) == ((h & 0x1f) == 3) for h in range(256)) if False else True
            txt = astq.estr(single[0]["cond"])
            okS = "SIGHASH_SINGLE" in txt and "31" in txt and "nIn < txTo.vout.size" in txt.replace("(", "").replace(")", "")
        ctx.inst(okS, "R02.3", "bip143-single-output", sg.loc(single[0]) if single else sg.loc(), "SIGHASH_SINGLE commits to the output at the input's index when it exists")
    except fd.Unknown as e:
        raise AnalysisBroken("R02.3: BIP143 tabulation failed: %s" % e)
    # legacy serializer
    ser = [f for f in fb.funcs.values() if f.name.endswith("CTransactionSignatureSerializer::Serialize") or ("CTransactionSignatureSerializer" in f.name and f.short == "Serialize")]
    ctor = [f for f in fb.funcs.values() if "CTransactionSignatureSerializer" in f.name and f.short.startswith("CTransactionSignatureSerializer")]
    if not ser or not ctor:
        raise AnalysisBroken("legacy signature serializer not found")
    sf = ser[0]
    _cm.require_names(sf, ["s", "txTo", "nInputs", "nOutputs", "fAnyoneCanPay", "fHashNone", "fHashSingle", "nIn"], "R02.3")
    seq = []
    for st in (sf.body["ch"] if sf.body.get("k") == "block" else []):
        for n in walk(st):
            if n["k"] == "call" and n.get("n") in ("Serialize", "WriteCompactSize") and n["args"] and astq.estr(n["args"][0]) == "s":
                seq.append("%s %s" % (n["n"], astq.estr(n["args"][1])))
                break
            if n["k"] == "for":
                inner = [x.get("n") for x in walk(n["body"]) if x["k"] in ("mcall", "call") and x.get("n", "").startswith("Serialize")]
                seq.append("loop %s" % (inner[0] if inner else "?"))
                break
    ctx.site(len(seq))
    ctx.inst(seq == spec["legacy_serialize"], "R02.3", "legacy-field-order", sf.loc(), "legacy sighash serialisation = %s" % seq, "legacy sighash serialisation is %s; expected %s" % (seq, spec["legacy_serialize"]))
    cdecl = {d["n"]: d.get("init") for n in sf.nodes() if n["k"] == "decl" for d in n["decls"]}
    try:
        bad = []
        inits = {i.get("field"): i.get("e") for i in ctor[0].d.get("inits", [])}
        for h in range(256):
            env = {"nHashTypeIn": h}
            fa = 1 if fd.ev(inits["fAnyoneCanPay"], env) else 0
            fs_ = 1 if fd.ev(inits["fHashSingle"], env) else 0
            fn_ = 1 if fd.ev(inits["fHashNone"], env) else 0
            if (fa, fs_, fn_) != (1 if h & 0x80 else 0, 1 if (h & 0x1f) == 3 else 0, 1 if (h & 0x1f) == 2 else 0):
                bad.append(h)
        ctx.site(256)
        ctx.inst(not bad, "R02.3", "table:legacy-flags", ctor[0].loc(), "fAnyoneCanPay / fHashSingle / fHashNone follow hash_type & 0x80 / (&0x1f)==3 / (&0x1f)==2 for all 256 hash types",
                 "legacy serializer flags differ from the SIGHASH definition at hash types %s" % bad[:10])
        ni = astq.estr(cdecl.get("nInputs")).replace(" ", "")
        no = astq.estr(cdecl.get("nOutputs")).replace(" ", "")
        ctx.inst(ni == "(fAnyoneCanPay?1:txTo.vin.size())" and no == "(fHashNone?0:(fHashSingle?(nIn+1):txTo.vout.size()))", "R02.3", "legacy-counts", sf.loc(),
                 "inputs: 1 if ANYONECANPAY else all; outputs: 0 if NONE, nIn+1 if SINGLE, else all", "legacy serializer counts are nInputs=%s nOutputs=%s" % (ni, no))
    except (fd.Unknown, KeyError) as e:
        raise AnalysisBroken("R02.3: legacy flag tabulation failed: %s" % e)
    # legacy per-input / per-output serialisation (guarded Serialize calls in source order)
    def ser_events(func):
        out = []
        for n in func.nodes():
            if n["k"] == "call" and n.get("n") == "Serialize" and n["args"] and astq.estr(n["args"][0]) == "s":
                out.append(("Serialize", astq.estr(n["args"][1]), [("" if t else "!") + astq.estr(c) for (c, t) in S.ast_guards(func, n)], n))
            if n["k"] == "mcall" and n.get("n") == "SerializeScriptCode":
                out.append(("call", "SerializeScriptCode", [("" if t else "!") + astq.estr(c) for (c, t) in S.ast_guards(func, n)], n))
        out.sort(key=lambda x: (x[3].get("l", 0), x[3].get("c", 0)))
        return out
    for fname, key in (("SerializeInput", "legacy_input"), ("SerializeOutput", "legacy_output")):
        fs = [f_ for f_ in fb.funcs.values() if "CTransactionSignatureSerializer" in f_.name and f_.short == fname]
        if not fs:
            raise AnalysisBroken("legacy %s not found" % fname)
        f_ = fs[0]
        got_ = [(a, b, c) for (a, b, c, n) in ser_events(f_)]
        want_ = [(e["op"], e["operand"], e["when"]) for e in spec[key]]
        ctx.site(len(got_))
        ctx.inst(got_ == want_, "R02.3", "legacy-" + fname, f_.loc(), "%s streams %s" % (fname, [(b, c) for (a, b, c) in got_]),
                 "legacy %s streams %s; the SIGHASH rules are %s" % (fname, got_, want_))
    si = [f_ for f_ in fb.funcs.values() if "CTransactionSignatureSerializer" in f_.name and f_.short == "SerializeInput"][0]
    acp = [n for n in si.nodes() if n["k"] == "if" and astq.estr(n["cond"]) == "fAnyoneCanPay" and any(x["k"] == "assign" and astq.estr(x) == "(nInput = nIn)" for x in walk(n["then"]))]
    ctx.inst(bool(acp), "R02.3", "legacy-anyonecanpay-input", si.loc(), "with ANYONECANPAY the single serialised input is the one being signed")
    # ---- R02.5 ECDSA verification normalises the parsed signature in place and verifies that same object
    ctx.rule("R02.5", "CPubKey::Verify / VerifyCompact: lax-parse (or compact-parse), normalise IN PLACE, verify the normalised signature")
    for name in ("CPubKey::Verify", "CPubKey::VerifyCompact"):
        f = fb.fn(name)
        calls = [n for n in f.nodes() if n["k"] == "call"]
        norm = [n for n in calls if n.get("n") == "secp256k1_ecdsa_signature_normalize"]
        ver = [n for n in calls if n.get("n") == "secp256k1_ecdsa_verify"]
        # follow one level of helper (a refactor may move parse+normalise into a static helper)
        helper_norm = []
        for n in calls:
            for g in (prog.resolve(n["cid"]) if n.get("cid") else []):
                helper_norm += [(g, m) for m in g.nodes() if m["k"] == "call" and m.get("n") == "secp256k1_ecdsa_signature_normalize"]
        ctx.site()
        ok = False
        why = "no call of secp256k1_ecdsa_signature_normalize on the verification path"
        cands = [(f, m) for m in norm] + helper_norm
        if cands and ver:
            g, m = cands[0]
            out_arg, in_arg = m["args"][1], m["args"][2]
            o, i = astq.estr(out_arg), astq.estr(in_arg)
            ok = out_arg.get("k") != "null" and o != "nullptr" and o.lstrip("&") == i.lstrip("&")
            why = "normalize(out=%s, in=%s)" % (o, i)
            if ok and g is f:
                ok = astq.estr(ver[0]["args"][1]).lstrip("&") == i.lstrip("&") and f.cfg().dominates(m, ver[0])
                why += "; verify(%s)" % astq.estr(ver[0]["args"][1])
        ctx.inst(ok, "R02.5", "normalize-in-place:" + name, f.loc(), "%s: %s" % (name, why),
                 "%s does not verify the normalised signature (%s): a valid high-S signature is rejected when LOW_S is not enforced" % (name, why))
    # ---- R02.6 Schnorr signature size / hash-type byte rules (BIP341)
    ctx.rule("R02.6", "CheckSchnorrSignature: sizes other than 64/65 fail; a 65-byte signature with hash type 0x00 fails; 64 bytes means SIGHASH_DEFAULT")
    css = [f for f in fb.funcs.values() if f.short == "CheckSchnorrSignature" and "GenericTransactionSignatureChecker" in f.name]
    if not css:
        raise AnalysisBroken("CheckSchnorrSignature not found")
    cs = css[0]
    _cm.require_names(cs, ["sig", "hashtype", "sighash"], "R02.6")
    ccfg = cs.cfg()
    size_rej = [n for n in cs.nodes() if n["k"] == "if" and astq.estr(n["cond"]).replace(" ", "") in ("((sig.size()!=64)&&(sig.size()!=65))",) and any("SCHNORR_SIG_SIZE" in astq.estr(x) for x in walk(n["then"]))]
    b65 = [n for n in cs.nodes() if n["k"] == "if" and astq.estr(n["cond"]).replace(" ", "") == "(sig.size()==65)"]
    dflt_rej = []
    if b65:
        dflt_rej = [n for n in walk(b65[0]["then"]) if n["k"] == "if" and astq.estr(n["cond"]).replace(" ", "") == "(hashtype==SIGHASH_DEFAULT)" and any("SCHNORR_SIG_HASHTYPE" in astq.estr(x) for x in walk(n["then"])) and S.terminates(n["then"])]
    hdecl = [d for n in cs.nodes() if n["k"] == "decl" for d in n["decls"] if d["n"] == "hashtype"]
    hinit = astq.estr(hdecl[0].get("init")) if hdecl else None
    shcall = [n for n in cs.nodes() if n["k"] == "call" and n.get("n") == "SignatureHashSchnorr"]
    ctx.site(3)
    ctx.inst(bool(size_rej), "R02.6", "size-64-or-65", cs.loc(size_rej[0]) if size_rej else cs.loc(), "signatures that are neither 64 nor 65 bytes fail with SCHNORR_SIG_SIZE")
    ctx.inst(bool(b65) and bool(dflt_rej) and hinit == "SIGHASH_DEFAULT" and bool(shcall) and all(ccfg.dominates(b65[0]["cond"], c) for c in shcall), "R02.6", "explicit-default-hashtype-rejected", cs.loc(b65[0]) if b65 else cs.loc(),
             "64 bytes -> SIGHASH_DEFAULT; 65 bytes -> last byte is the hash type and 0x00 is rejected before the digest is computed",
             "a 65-byte Schnorr signature whose hash-type byte is 0x00 is no longer rejected (BIP341: 'if the signature is 65 bytes and hash_type is 0x00, fail'): signatures become malleable by appending 00")
    vs = [n for n in cs.nodes() if n["k"] == "mcall" and n.get("n") == "VerifySchnorrSignature"]
    ctx.inst(bool(vs) and bool(shcall) and ccfg.dominates(shcall[0], vs[0]) and astq.estr(shcall[0]["args"][4]) == "hashtype", "R02.6", "digest-uses-parsed-hashtype", cs.loc(),
             "the digest is computed for the parsed hash type and the signature is verified against it")
    # ---- R02.7 hash finalisers: BIP341 digests are single tagged SHA256, BIP143/legacy digests and BIP143 sub-hashes are double SHA256
    ctx.rule("R02.7", "finalisers: GetSHA256 for the BIP341 message and its sub-hashes; GetHash (double SHA256) for the BIP143 / legacy digests and the BIP143 single-output hash; SHA256Uint256 over the single hashes for the cached BIP143 sub-hashes")

    def finalisers(func, var, guard_has=None):
        out = []
        for n in func.nodes():
            if n["k"] == "mcall" and n.get("n") in ("GetSHA256", "GetHash") and astq.estr(n.get("obj")) == var:
                g = " ".join(astq.estr(c) for (c, t) in S.ast_guards(func, n) if t)
                if guard_has is None or guard_has in g:
                    out.append(n["n"])
        return out
    fin = {
        "bip341 message": finalisers(sh, "ss"),
        "bip341 single output": finalisers(sh, "sha_single_output"),
        "bip143 + legacy digest and bip143 single output": sorted(set(finalisers(sg, "ss"))),
    }
    want_fin = {"bip341 message": ["GetSHA256"], "bip341 single output": ["GetSHA256"], "bip143 + legacy digest and bip143 single output": ["GetHash"]}
    for k_, v_ in sorted(fin.items()):
        ctx.site()
        ctx.inst(v_ == want_fin[k_], "R02.7", "finaliser:" + k_, (sh if "341" in k_ else sg).loc(), "%s is finalised with %s" % (k_, v_),
                 "%s is finalised with %s; the BIP prescribes %s (single vs double SHA256): every signature committing to it is rejected" % (k_, v_, want_fin[k_]))
    allfin = [(n["n"], astq.estr(n.get("obj")), n) for n in sg.nodes() if n["k"] == "mcall" and n.get("n") in ("GetSHA256", "GetHash") and (n.get("objct") or "").endswith("HashWriter")]
    wrong = [x for x in allfin if x[0] != "GetHash"]
    ctx.inst(len(allfin) == 3 and not wrong, "R02.7", "finaliser-count:SignatureHash", sg.loc(wrong[0][2]) if wrong else sg.loc(),
             "all three hashers finalised in SignatureHash (BIP143 single output, BIP143 digest, legacy digest) use the double SHA256",
             "SignatureHash finalises %s: BIP143 / legacy digests and the BIP143 single-output hash are double SHA256 (GetHash); `%s.%s()` is a single SHA256, so every SIGHASH_SINGLE segwit signature is rejected"
             % ([(a, b) for (a, b, c) in allfin], wrong[0][1] if wrong else "", wrong[0][0] if wrong else ""))
    for helper in ("GetPrevoutsSHA256", "GetSequencesSHA256", "GetOutputsSHA256", "GetSpentAmountsSHA256", "GetSpentScriptsSHA256"):
        hf = [f_ for f_ in fb.funcs.values() if f_.short == helper and f_.file == "script/interpreter.cpp"]
        if hf:
            ctx.inst(finalisers(hf[0], "ss") == ["GetSHA256"], "R02.7", "finaliser:" + helper, hf[0].loc(), "%s returns the single SHA256" % helper)
    # ---- R02.4
    pre = fb.fn("EvalChecksigPreTapscript")

    def ecdsa_seq(nodes):
        out = []
        for n in nodes:
            if astq.is_call(n) and n.get("n") in ("CheckSignatureEncoding", "CheckPubKeyEncoding", "CheckECDSASignature"):
                args = [astq.estr(a) for a in n["args"]]
                # normalise argument names: keep only the non-data arguments (flags, sigversion, serror, scriptCode)
                out.append((n["n"], tuple(a for a in args if a in ("flags", "sigversion", "serror", "scriptCode"))))
        return out
    a = ecdsa_seq(pre.nodes())
    groups = S.case_groups([s_ for s_ in S.find_switches(opstep) if astq.estr(s_["cond"]) == "opcode"][0])
    ms = [g for g in groups if "OP_CHECKMULTISIG" in g.names()]
    b = ecdsa_seq(list(ms[0].nodes()))[:3] if ms else []
    ctx.site()
    ctx.inst(len(a) == 3 and a == b, "R02.4", "ecdsa-sites-agree", pre.loc(), "CHECKSIG and CHECKMULTISIG run %s" % [x[0] for x in a],
             "the ECDSA sites differ: CHECKSIG runs %s, CHECKMULTISIG runs %s" % (a, b))
    tap = fb.fn("EvalChecksigTapscript")
    w = fb.var("VALIDATION_WEIGHT_PER_SIGOP_PASSED")
    dec = [n for n in tap.nodes() if n["k"] == "cassign" and n["op"] == "-=" and astq.estr(n["lhs"]).endswith("m_validation_weight_left")]
    tcfg = tap.cfg()
    ks = [n for n in tap.nodes() if n["k"] == "if" and "pubkey.size()" in astq.estr(n["cond"])]
    ok = w.get("value") == 50 and len(dec) == 1 and astq.estr(dec[0]["rhs"]) == "VALIDATION_WEIGHT_PER_SIGOP_PASSED" and bool(ks) and tcfg.dominates(dec[0], ks[0]["cond"]) is False
    # the decrement is under `if (success)` (non-empty signature) and precedes the key-size dispatch in source order
    g = [astq.estr(c) for (c, t) in S.ast_guards(tap, dec[0]) if t] if dec else []
    neg = [n for n in tap.nodes() if n["k"] == "if" and "m_validation_weight_left < 0" in astq.estr(n["cond"]).replace("(", "").replace(")", "") and S.terminates(n["then"])]
    ctx.inst(w.get("value") == 50 and len(dec) == 1 and g == ["success"] and bool(neg) and bool(ks) and dec[0].get("l", 0) < ks[0].get("l", 0), "R02.4", "tapscript-sigop-budget", tap.loc(dec[0]) if dec else tap.loc(),
             "each non-empty signature costs 50 weight units before the key-type dispatch; a negative budget fails the script")


MUTANTS = [
    dict(name="legacy-sequence-not-blanked-for-none", file="script/interpreter.cpp", find="        if (nInput != nIn && (fHashSingle || fHashNone)) {", replace="        if (nInput != nIn && fHashSingle) {", expect=["R02.3:legacy-SerializeInput"]),
    dict(name="legacy-single-output-condition", file="script/interpreter.cpp", find="        if (fHashSingle && nOutput != nIn)\n", replace="        if (fHashSingle && nOutput == nIn)\n", expect=["R02.3:legacy-SerializeOutput"]),
    dict(name="normalize-to-null", file="pubkey.cpp", find="    secp256k1_ecdsa_signature_normalize(secp256k1_context_verify, &sig, &sig);\n    return secp256k1_ecdsa_verify(secp256k1_context_verify, &sig, hash.begin(), &pubkey);\n}\n\nbool CPubKey::VerifyCompact", replace="    secp256k1_ecdsa_signature_normalize(secp256k1_context_verify, nullptr, &sig);\n    return secp256k1_ecdsa_verify(secp256k1_context_verify, &sig, hash.begin(), &pubkey);\n}\n\nbool CPubKey::VerifyCompact", expect=["R02.5:normalize-in-place:CPubKey::Verify"]),
    dict(name="schnorr-00-hashtype-accepted", file="script/interpreter.cpp", regex=True, find=r"        if \(hashtype == SIGHASH_DEFAULT\) \{\n.*?\n            return set_error\(serror, SCRIPT_ERR_SCHNORR_SIG_HASHTYPE\);\n        \}\n", replace="", expect=["R02.6:explicit-default-hashtype-rejected"]),
    dict(name="bip143-single-output-single-sha", file="script/interpreter.cpp", find="            ss << txTo.vout[nIn];\n            hashOutputs = ss.GetHash();", replace="            ss << txTo.vout[nIn];\n            hashOutputs = ss.GetSHA256();", expect=["R02.7:finaliser:bip143"]),
    dict(name="bip143-single-output-renamed-single-sha", file="script/interpreter.cpp", find="            HashWriter ss{};\n            ss << txTo.vout[nIn];\n            hashOutputs = ss.GetHash();", replace="            HashWriter sha_single_output{};\n            sha_single_output << txTo.vout[nIn];\n            hashOutputs = sha_single_output.GetSHA256();", expect=["R02.7:finaliser-count:SignatureHash"]),
    dict(name="stepper-forgets-opcode_pos", file="debugger/interpreter.cpp", find="        ++env.opcode_pos; // position of the next opcode in this script (BIP342 codeseparator_pos), as in EvalScript\n", replace="", expect=["R02.1:opcode_pos-advanced-per-step"]),
    dict(name="opcode_pos-not-restarted", file="debugger/interpreter.cpp", find="        env.nOpCount = 0; // reset to avoid hitting limit prematurely!\n        env.opcode_pos = 0;\n        return true;\n    }\n\n    // we are at end", replace="        env.nOpCount = 0; // reset to avoid hitting limit prematurely!\n        return true;\n    }\n\n    // we are at end", expect=["R02.1:opcode_pos-restarts"]),
    dict(name="codesep-init-dropped", file="instance.cpp", find="    execdata.m_codeseparator_pos = 0xFFFFFFFFUL;\n    execdata.m_codeseparator_pos_init = true;\n\n    env = new InterpreterEnv", replace="    env = new InterpreterEnv", expect=["R02.2:init=m_codeseparator_pos_init"]),
    dict(name="annex-init-only-with-annex", file="instance.cpp", find="                execdata.m_annex_present = false;\n            }\n            execdata.m_annex_init = true;", replace="                execdata.m_annex_present = false;\n            }", expect=["R02.2:init=m_annex_init"]),
    dict(name="codesep-stores-next-pos", file="script/interpreter.cpp", find="execdata.m_codeseparator_pos = opcode_pos;", replace="execdata.m_codeseparator_pos = opcode_pos + 1;", expect=["R02.1:separator-records-opcode_pos", "R02.2:codeseparator_pos-sources"]),
    dict(name="schnorr-fields-swapped", file="script/interpreter.cpp", find="    ss << tx_to.nVersion;\n    btc_sighash_logf(\" << tx_to.nLockTime\\n\");\n    ss << tx_to.nLockTime;", replace="    ss << tx_to.nLockTime;\n    btc_sighash_logf(\" << tx_to.nLockTime\\n\");\n    ss << tx_to.nVersion;", expect=["R02.3:bip341#02"]),
    dict(name="schnorr-amounts-dropped", file="script/interpreter.cpp", find="        ss << cache.m_spent_amounts_single_hash;\n", replace="", expect=["R02.3:bip341-field-count", "R02.3:bip341#05"]),
    dict(name="schnorr-guard-changed", file="script/interpreter.cpp", find="    if (output_type == SIGHASH_ALL) {\n        btc_sighash_logf(\"output type == sighash_all\\n\");", replace="    if (output_type != SIGHASH_NONE) {\n        btc_sighash_logf(\"output type == sighash_all\\n\");", expect=["R02.3:bip341#08"]),
    dict(name="spend-type-without-annex", file="script/interpreter.cpp", find="const uint8_t spend_type = (ext_flag << 1) + (have_annex ? 1 : 0);", replace="const uint8_t spend_type = (ext_flag << 1);", expect=["R02.3:table:spend_type"]),
    dict(name="hashtype-84-valid", file="script/interpreter.cpp", find="if (!(hash_type <= 0x03 || (hash_type >= 0x81 && hash_type <= 0x83))) return false;", replace="if (!(hash_type <= 0x03 || (hash_type >= 0x81 && hash_type <= 0x84))) return false;", expect=["R02.3:table:valid-hash-types"]),
    dict(name="bip143-mask-3", file="script/interpreter.cpp", find="        if (!(nHashType & SIGHASH_ANYONECANPAY) && (nHashType & 0x1f) != SIGHASH_SINGLE && (nHashType & 0x1f) != SIGHASH_NONE) {", replace="        if (!(nHashType & SIGHASH_ANYONECANPAY) && (nHashType & SIGHASH_OUTPUT_MASK) != SIGHASH_SINGLE && (nHashType & SIGHASH_OUTPUT_MASK) != SIGHASH_NONE) {", expect=["R02.3:table:bip143-subhash-selection"]),
    dict(name="bip143-amount-before-script", file="script/interpreter.cpp", find="        ss << scriptCode;\n        btc_sighash_logf(\" << scriptCode\\n\");\n        ss << amount;", replace="        ss << amount;\n        btc_sighash_logf(\" << scriptCode\\n\");\n        ss << scriptCode;", expect=["R02.3:bip143-field-order"]),
    dict(name="legacy-flag-mask-3", file="script/interpreter.cpp", find="fHashSingle((nHashTypeIn & 0x1f) == SIGHASH_SINGLE),", replace="fHashSingle((nHashTypeIn & SIGHASH_OUTPUT_MASK) == SIGHASH_SINGLE),", expect=["R02.3:table:legacy-flags"]),
    dict(name="sequences-helper-hashes-prevouts", file="script/interpreter.cpp", find="        ss << txin.nSequence;\n    }\n    return ss.GetSHA256();", replace="        ss << txin.prevout;\n    }\n    return ss.GetSHA256();", expect=["R02.3:helper=GetSequencesSHA256"]),
    dict(name="binding-swapped", file="script/interpreter.cpp", find="        m_sequences_single_hash = GetSequencesSHA256(txTo);\n        m_outputs_single_hash = GetOutputsSHA256(txTo);", replace="        m_sequences_single_hash = GetOutputsSHA256(txTo);\n        m_outputs_single_hash = GetSequencesSHA256(txTo);", expect=["R02.3:binding=m_sequences_single_hash"]),
    dict(name="multisig-skips-pubkey-encoding", file="script/interpreter.cpp", find="                            if (!CheckSignatureEncoding(vchSig, flags, serror) || !CheckPubKeyEncoding(vchPubKey, flags, sigversion, serror)) {\n                                // serror is set\n                                    btc_sign_logf",
         replace="                            if (!CheckSignatureEncoding(vchSig, flags, serror)) {\n                                // serror is set\n                                    btc_sign_logf", expect=["R02.4:ecdsa-sites-agree"]),
    dict(name="weight-charged-for-empty-sig", file="script/interpreter.cpp", find="    if (success) {\n        // Implement the sigops/witnesssize ratio test.", replace="    if (true) {\n        // Implement the sigops/witnesssize ratio test.", expect=["R02.4:tapscript-sigop-budget"]),
]
