"""C15 - no input makes the tools crash or touch memory they do not own: the decidable necessary conditions
(DESIGN.md section 4, C15)."""
from .. import astq, structure as S
from ..engines import ExcEngine
from ..facts import AnalysisBroken, walk
from . import c17

EXPLANATION = (
    "The universal statement is not decidable; these necessary conditions are, each exact on its own terms, over the "
    "btcdeb-authored units (btcdeb.cpp btcc.cpp tap.cpp instance.* functions.* value.* cliargs.h datasets.h debugger/* kerl/kerl.c) "
    "and what they reach. R15.1 no explicit throw can leave any entry point (three mains, every function registered as a kerl "
    "command / completion callback) - exception-escape fixpoint over the resolved call graph incl. function-pointer tables. "
    "R15.2 allocator/deallocator families agree (new-delete, new[]-delete[], malloc|strdup|strndup|realloc-free), provenance "
    "followed through locals, fields and container elements. R15.3 an index taken from transaction data is range-checked "
    "against its container before the defining function can return success. R15.4 a store into a fixed-size array with a "
    "varying index is bounded (dominating guard, loop-bounded counter, or strlen-derived decreasing index). R15.5 a buffer "
    "handed to fgets is not read on the edge where the call failed. R15.6 division / modulo / shift by script data is guarded "
    "(shared with C17). R15.7 arguments of assert-backed size preconditions (base_blob(vector), XOnlyPubKey(Span), "
    "VerifySchnorr, and their wrappers) are validated by a dominating rejecting size test, come from a fixed-size producer, "
    "or have a fixed-size type. R15.8 `default: assert(0)` of opcode switches is unreachable (label agreement, shared with C17). "
    "R15.11 the session driver never asserts on session state (stack, saved P2SH stack, ...) - interactive commands can bring it into any shape. "
    "R15.12 every function that reads secp256k1_context_verify and is reachable from a tool's main is reached only while an ECCVerifyHandle "
    "is alive: a global object of that program holding one, or a holder function on every call path (call graph incl. constructors run by emplace_back / make_shared). "
    "R15.9 no iterator into the temporary exec script is stored in the session. R15.13-R15.17 recursion guarded on a cut vertex, "
    "constant subscripts within the size the path decided, iterator/container pairing, set-up status used, signing context created. "
    "R15.18 no variable-length array sized by input. R15.19 a local char buffer read as a string is written on every path before. "
    "R15.20 records kept by value in vectors initialise every scalar member in every constructor. R15.21 a function that aborts for "
    "some enumerators of a parameter (switch ending in assert(false), assert(p == A || p == B)) is only called with the others: "
    "G-SYM decides the argument on every path of the caller; obligations move through parameters handed on and members set only by "
    "constructors. R15.22 the result of fopen is tested and not used on the null side. Not decided: heap overflows through computed "
    "sizes, use-after-free in general, uninitialised reads other than R15.5 / R15.19 / R15.20, libsecp256k1/libreadline internals.")
TRUSTED = ["clang 14 parser/Sema/CFG", "/verif extractor and engines", "libstdc++ / libsecp256k1 / libreadline as black boxes"]
ASSUMPTIONS = ["allocation never fails", "explicit throw statements are the exception sources (libstdc++ precondition throws such as vector::at are inventoried, not armed)",
               "no function pointer is called other than through kerl registration or a global table initialiser"]
DECLINED = ["heap overflows through computed sizes", "use-after-free in general", "signed overflow in CScriptNum arithmetic (not a trap in the shipped build)"]

AUTH = ("btcdeb.cpp", "btcc.cpp", "tap.cpp", "instance.cpp", "instance.h", "functions.cpp", "functions.h", "value.cpp", "value.h",
        "cliargs.h", "datasets.h", "debugger/", "kerl/")
MALLOC_FAMILY = {"malloc", "calloc", "realloc", "strdup", "strndup"}
HASH_PRODUCERS = {"do_sha256": 32, "do_hash256": 32, "do_hash160": 20, "do_ripemd160": 20, "do_sha1": 20}


def auth(f):
    return f.file.startswith(AUTH)


# ------------------------------------------------------------------------------------------------ R15.1
def entry_points(fb):
    mains = [f for f in fb.funcs.values() if f.d.get("main")]
    cbs = []
    for m in [f for f in fb.funcs.values() if auth(f)]:
        for n in m.nodes():
            if n["k"] == "call" and (n.get("n") or "").startswith("kerl_"):
                for a in n["args"]:
                    if a is None:
                        continue
                    for x in walk(a):
                        if x["k"] == "ref" and x.get("dk") == "func":
                            g = fb.funcs.get(x["fid"])
                            if g is not None and g not in cbs:
                                cbs.append(g)
    return mains, cbs


def hard_escapes(exc, f):
    esc = exc.escaping(f)
    out = {}
    for t, w in esc.items():
        if t == "tinyformat::format_error":
            continue
        ch = exc.chain(f, t, 40)
        if ch and "may throw" in ch[-1]:
            continue
        out[t] = ch
    return out


# ------------------------------------------------------------------------------------------------ R15.2
def classify_source(fb, prog, func, e, depth=0):
    """family of the memory an expression yields: 'new' | 'new[]' | 'malloc' | None(unknown/none)"""
    if e is None or depth > 3:
        return set()
    k = e.get("k")
    if k == "cast":
        return classify_source(fb, prog, func, e["e"], depth)
    if k == "new":
        return {"new[]" if e.get("array") else "new"}
    if k == "call":
        if e.get("n") in MALLOC_FAMILY and e.get("ext"):
            return {"malloc"}
        out = set()
        for g in (prog.resolve(e["cid"]) if e.get("cid") else []):
            for r in g.nodes():
                if r["k"] == "return" and r.get("e") is not None:
                    out |= classify_source(fb, prog, g, r["e"], depth + 1)
        return out
    if k == "cond":
        return classify_source(fb, prog, func, e["then"], depth) | classify_source(fb, prog, func, e["else"], depth)
    if k in ("ref", "mem"):
        return sources_of_var(fb, prog, func, e, depth + 1)
    return set()


def sources_of_var(fb, prog, func, v, depth):
    out = set()
    if depth > 3:
        return out
    if v["k"] == "ref" and v.get("dk") in ("local", "parm"):
        for n in func.nodes():
            if n["k"] == "decl":
                for d in n["decls"]:
                    if d["d"] == v["d"] and d.get("init") is not None:
                        out |= classify_source(fb, prog, func, d["init"], depth)
            if n["k"] == "assign" and n["lhs"].get("k") == "ref" and n["lhs"].get("d") == v["d"]:
                out |= classify_source(fb, prog, func, n["rhs"], depth)
        return out
    # field or global: assignments anywhere + constructor initialisers
    name = v["n"]
    for g in fb.funcs.values():
        if not auth(g):
            continue
        for n in g.nodes():
            if n["k"] == "assign" and n["lhs"].get("k") in ("mem", "ref") and n["lhs"]["n"] == name and n["lhs"].get("dk") != "local":
                out |= classify_source(fb, prog, g, n["rhs"], depth)
        for i in g.d.get("inits", []):
            if i.get("field") == name and i.get("e") is not None:
                out |= classify_source(fb, prog, g, i["e"], depth)
    return out


def element_sources(fb, prog, func, cont, depth=0):
    """families of what is stored into container `cont` (a ref/mem node)"""
    out = set()
    cname = cont["n"]
    local = cont["k"] == "ref" and cont.get("dk") in ("local", "parm")
    funcs = [func] if local else [g for g in fb.funcs.values() if auth(g)]
    for g in funcs:
        for n in g.nodes():
            if n["k"] == "mcall" and n.get("n") in ("push_back", "emplace_back", "insert") and n.get("obj") is not None and n["obj"].get("n") == cname and n["args"]:
                out |= classify_source(fb, prog, g, n["args"][-1], depth)
            if n["k"] == "assign":
                l = n["lhs"]
                base = None
                if l.get("k") == "index":
                    base = l["base"]
                elif l.get("k") == "opcall" and l.get("op") == "[]":
                    base = l["args"][0]
                if base is not None and base.get("n") == cname:
                    out |= classify_source(fb, prog, g, n["rhs"], depth)
    return out


def dealloc_operand_sources(fb, prog, func, e):
    e0 = e
    while e0 is not None and e0.get("k") == "cast":
        e0 = e0["e"]
    if e0 is None:
        return set(), "?"
    k = e0.get("k")
    if k == "mcall" and e0.get("n") in ("back", "front", "at") and e0.get("obj") is not None:
        return element_sources(fb, prog, func, e0["obj"]), astq.estr(e0)
    if k == "opcall" and e0.get("op") == "[]":
        return element_sources(fb, prog, func, e0["args"][0]), astq.estr(e0)
    if k == "index":
        return element_sources(fb, prog, func, e0["base"]), astq.estr(e0)
    if k in ("ref", "mem"):
        return sources_of_var(fb, prog, func, e0, 0), astq.estr(e0)
    return set(), astq.estr(e0)


# ------------------------------------------------------------------------------------------------ R15.7
def size_preconditions(fb, prog):
    """func id -> (param index, required size or None) for functions asserting param.size() == K (and wrappers)"""
    pre = {}
    for f in fb.funcs.values():
        for n in f.nodes():
            if n["k"] == "call" and n.get("n") == "__assert_fail":
                par = f.parent(n)
                while par is not None and par.get("k") != "cond":
                    par = f.parent(par)
                if par is None:
                    continue
                c = par["cond"]
                while c is not None and c.get("k") == "cast":
                    c = c["e"]
                if c is None or c.get("k") != "bin" or c["op"] != "==":
                    continue
                for i, p in enumerate(f.params):
                    l = c["lhs"]
                    if l.get("k") == "mcall" and l.get("n") == "size" and l.get("obj") is not None and l["obj"].get("k") == "ref" and l["obj"].get("d") == p["d"]:
                        pre[f.id] = (i, astq.const_value(c["rhs"]))
    # wrappers: a function passing its own parameter straight to a precondition parameter
    changed = True
    while changed:
        changed = False
        for f in fb.funcs.values():
            if f.id in pre:
                continue
            for n in f.nodes():
                if astq.is_call(n) and n.get("cid") in pre:
                    i, K = pre[n["cid"]]
                    obj, args = astq.call_args(n)
                    if i < len(args) and args[i] is not None and args[i].get("k") == "ref" and args[i].get("dk") == "parm":
                        for j, p in enumerate(f.params):
                            if p["d"] == args[i]["d"]:
                                pre[f.id] = (j, K)
                                changed = True
                    break
            for ini in f.d.get("inits", []):
                e = ini.get("e")
                if e is not None and astq.is_call(e) and e.get("cid") in pre and f.id not in pre:
                    i, K = pre[e["cid"]]
                    obj, args = astq.call_args(e)
                    if i < len(args) and args[i] is not None and args[i].get("k") == "ref" and args[i].get("dk") == "parm":
                        for j, p in enumerate(f.params):
                            if p["d"] == args[i]["d"]:
                                pre[f.id] = (j, K)
                                changed = True
    return pre


def underlying(e):
    """strip Span/vector copy wrappers around a sized container argument"""
    while e is not None:
        k = e.get("k")
        if k == "cast":
            e = e["e"]
        elif k == "ctor" and len(e.get("args", [])) in (1, 2) and (e.get("ty", "").startswith("Span") or e.get("copy")):
            e = e["args"][0]
        elif k == "call" and e.get("callee") in ("std::move", "MakeSpan", "MakeUCharSpan") and e["args"]:
            e = e["args"][0]
        else:
            break
    return e


def size_facts(func, cfg, node, vtxt):
    """what dominating rejecting guards say about <vtxt>.size(): ('eq', {K..}) / ('checked', None) / None"""
    allowed = None
    checked = False
    for (c, t) in cfg.guards_of(node):
        cn = func.node_by_id(c)
        if cn is None:
            continue
        txt = astq.estr(cn)
        if vtxt + ".size()" not in txt:
            continue
        if cn.get("k") == "bin" and cn["op"] in ("==", "!="):
            other = cn["rhs"] if (vtxt + ".size()") in astq.estr(cn["lhs"]) else cn["lhs"]
            K = astq.const_value(other)
            holds_eq = (cn["op"] == "==" and t) or (cn["op"] == "!=" and not t)
            if holds_eq:
                if K is None:
                    checked = True
                else:
                    allowed = {K} if allowed is None else allowed & {K}
            else:
                # size != K known - part of a conjunction `!= a && != b` rejecting: handled below through atoms
                pass
    # rejecting `if (v.size() != a && v.size() != b) return` patterns: collect from early-exit ifs dominating node
    for n in func.nodes():
        if n["k"] != "if" or n.get("else") is not None:
            continue
        if not S.terminates(n["then"]):
            continue
        if not cfg.dominates(n["cond"], node):
            continue
        cj = S.conjuncts(n["cond"])
        ks = []
        ok = True
        for cjn in cj:
            if cjn is not None and cjn.get("k") == "bin" and cjn["op"] == "!=" and (vtxt + ".size()") == astq.estr(cjn["lhs"]):
                K = astq.const_value(cjn["rhs"])
                if K is None:
                    checked = True
                    ok = False
                else:
                    ks.append(K)
            else:
                ok = False
        if ok and ks:
            allowed = set(ks) if allowed is None else allowed & set(ks)
    if allowed is not None:
        return ("eq", allowed)
    if checked:
        return ("checked", None)
    return None


def run(ctx, anchors=None):
    fb, prog = ctx.facts, ctx.prog
    ctx.rule("R15.1", "no explicit throw can leave an entry point (mains, kerl callbacks)")
    ctx.rule("R15.2", "allocator / deallocator families agree")
    ctx.rule("R15.3", "an index taken from transaction data is range-checked before the defining function returns success")
    ctx.rule("R15.4", "stores into fixed-size arrays with a varying index are bounded")
    ctx.rule("R15.5", "a buffer handed to fgets is not read on the edge where the call failed")
    ctx.rule("R15.6", "division / modulo / shift by script data is dominated by a rejecting test (shared with C17 R17.3)")
    ctx.rule("R15.7", "assert-backed size preconditions are met at every call site in btcdeb-authored code")
    ctx.rule("R15.8", "`default: assert(0)` of opcode switches is unreachable (shared with C17 R17.1/R17.2)")
    ctx.rule("R15.9", "no iterator into the temporary exec script is stored in the session")

    # ---------------------------------------------------------------- R15.1
    mains, cbs = entry_points(fb)
    if len(mains) < 3:
        raise AnalysisBroken("expected three mains")
    ctx.floor("R15.1", len(cbs), 8, "kerl callbacks registered in main")
    exc = ExcEngine(prog)
    for f in mains + cbs:
        ctx.site()
        hard = hard_escapes(exc, f)
        key = "entry=%s@%s" % (f.short, f.file)
        if hard:
            t = sorted(hard)[0]
            ctx.fail("R15.1", key, f.loc(), "exception %s can leave %s uncaught (abort): %s" % ("/".join(sorted(hard)), f.name, " -> ".join(hard[t][:7])),
                     detail={"types": sorted(hard), "chain": hard[t]})
        else:
            ctx.ok("R15.1", key, f.loc(), "no explicit throw can leave %s" % f.name)

    # ---------------------------------------------------------------- R15.2
    nd = 0
    for f in fb.funcs.values():
        if not auth(f):
            continue
        for n in f.nodes():
            kind = None
            op = None
            if n["k"] == "delete":
                kind = "new[]" if n.get("array") else "new"
                op = n["e"]
            elif n["k"] == "call" and n.get("n") == "free" and n.get("ext") and n["args"]:
                kind = "malloc"
                op = n["args"][0]
            if kind is None:
                continue
            nd += 1
            ctx.site()
            fams, txt = dealloc_operand_sources(fb, prog, f, op)
            key = "dealloc=%s:%s" % (f.name, txt[:40])
            bad = fams - {kind}
            rel = {"new": "delete", "new[]": "delete[]", "malloc": "free()"}
            ctx.inst(not bad, "R15.2", key, f.loc(n),
                     "%s releases %s memory with %s (sources: %s)" % (f.name, kind, rel[kind], ", ".join(sorted(fams)) or "not resolved"),
                     "%s releases `%s` with %s but it is allocated with %s: mismatched deallocation" % (f.name, txt, rel[kind], "/".join(sorted(bad))))
    ctx.floor("R15.2", nd, 15, "deallocation sites in btcdeb-authored units")
    # single owner: a heap object whose pointer is copied from field P into field Q must not be deleted through both
    deleted = {}      # (record, field) -> site
    copies = []       # ((rec_q, q), (rec_p, p), site)
    for f in fb.funcs.values():
        if not auth(f):
            continue
        for n in f.nodes():
            if n["k"] == "delete":
                e = n["e"]
                while e is not None and e.get("k") == "cast":
                    e = e["e"]
                if e is not None and e.get("k") == "mem" and e.get("rec"):
                    deleted.setdefault((e["rec"], e["n"]), (f, n))
            if n["k"] == "assign" and n["lhs"].get("k") == "mem" and n["rhs"].get("k") == "mem" and "*" in (n["lhs"].get("ty") or "") and "*" in (n["rhs"].get("ty") or ""):
                copies.append(((n["lhs"].get("rec"), n["lhs"]["n"]), (n["rhs"].get("rec"), n["rhs"]["n"]), (f, n)))
    for (q, p_, (f, n)) in copies:
        ctx.site()
        both = q in deleted and p_ in deleted
        ctx.inst(not both, "R15.2", "single-owner=%s::%s<-%s::%s" % (q[0], q[1], p_[0], p_[1]), f.loc(n),
                 "the object shared by %s::%s and %s::%s is deleted through at most one of them" % (q[0], q[1], p_[0], p_[1]),
                 "%s::%s is a copy of %s::%s (at %s) and BOTH are deleted (%s and %s): double free when both owners release it"
                 % (q[0], q[1], p_[0], p_[1], f.loc(n), deleted[q][0].loc(deleted[q][1]) if q in deleted else "", deleted[p_][0].loc(deleted[p_][1]) if p_ in deleted else ""))

    # ---------------------------------------------------------------- R15.3
    IDX = {"txin_vout_index": ("vout", "txin"), "txin_index": ("vin", "tx")}
    ndefs = 0
    for f in fb.funcs.values():
        if not auth(f):
            continue
        cfg = None
        for n in f.nodes():
            if n["k"] != "assign" or n["lhs"].get("k") != "mem" or n["lhs"]["n"] not in IDX:
                continue
            if astq.const_value(n["rhs"]) is not None:
                continue
            fld = n["lhs"]["n"]
            cont, owner = IDX[fld]
            ndefs += 1
            ctx.site()
            cfg = cfg or f.cfg()
            key = "index=%s@%s:%s" % (fld, f.name, astq.estr(n["rhs"])[:30])
            # accepted: loop position over the same container
            rhs = n["rhs"]
            while rhs is not None and rhs.get("k") == "cast":
                rhs = rhs["e"]
            if rhs.get("k") == "ref" and rhs.get("dk") == "local":
                # position of a canonical index loop `for (i = 0; i < <cont>.size(); ++i)` (hoisted aliases of the container expanded)
                from . import common as _c15
                idxloop = False
                for a in f.ancestors(n):
                    if a.get("k") == "for" and a.get("cond") is not None and a.get("init") is not None and a["init"].get("k") == "decl":
                        d0 = a["init"]["decls"][0]
                        ctext = _c15.xstr(f, a["cond"]).replace(" ", "")
                        inc = a.get("inc")
                        if d0.get("d") == rhs.get("d") and astq.const_value(d0.get("init")) == 0 and ctext.startswith("(%s<" % rhs["n"]) and ("%s.size()" % cont) in ctext \
                                and inc is not None and inc.get("k") == "un" and inc.get("op") == "++" and inc["e"].get("d") == rhs.get("d"):
                            idxloop = True
                if idxloop:
                    ctx.ok("R15.3", key, f.loc(n), "%s is the index of a loop bounded by %s->%s.size()" % (fld, owner, cont))
                    continue
                fr = [a for a in f.ancestors(n) if a.get("k") == "forrange" and cont in astq.estr(a.get("range"))]
                incs = [m for m in f.nodes() if m["k"] == "un" and m["op"] == "++" and m["e"].get("k") == "ref" and m["e"].get("d") == rhs["d"]]
                if fr and len(incs) == 1 and any(S.contains(fr[0]["body"], incs[0]) for _ in [0]):
                    ctx.ok("R15.3", key, f.loc(n), "%s is the position counter of a loop over %s->%s" % (fld, owner, cont))
                    continue
            # a rejecting comparison of the field (or the assigned value) with <cont>.size() on every path to success
            src = astq.estr(rhs)
            guards = []
            for m in f.nodes():
                if m["k"] == "bin" and m["op"] in ("<", "<=", ">", ">="):
                    t = astq.estr(m)
                    if (cont + ".size()") in t and (fld in t or src in t):
                        guards.append(m)
            rej = [r for r in f.nodes() if r["k"] == "return" and astq.const_value(r.get("e")) == 0] + \
                  [r for r in f.nodes() if r["k"] == "call" and r.get("n") in ("exit", "abort")]
            before = [g for g in guards if cfg.dominates(g, n)]
            after_ok = bool(guards) and cfg.must_pass_after(n, guards + rej)
            ctx.inst(bool(before) or after_ok, "R15.3", key, f.loc(n),
                     "%s is compared with %s->%s.size() before %s can return success" % (fld, owner, cont, f.name),
                     "%s is taken from transaction data (%s) and %s can return success without comparing it with %s->%s.size(): "
                     "a later %s->%s[%s] reads out of bounds" % (fld, src, f.name, owner, cont, owner, cont, fld))
    ctx.floor("R15.3", ndefs, 1, "non-constant definitions of the transaction index fields")

    # ---- R15.3b subscripts with a CONSTANT index (vin[0], amounts[cond ? i : 0]) on containers sized by the spending transaction
    # are only in bounds if that transaction has an input: every accepting path of Instance::parse_transaction must have decided
    # "vin is not empty" (G-SYM outcomes; the test may live in parse_tx or a helper of the same file)
    from .. import symx as _sx
    const_subs = []
    for f in fb.funcs.values():
        if not auth(f):
            continue
        for n in f.nodes():
            base = idx = None
            if n["k"] == "opcall" and n.get("op") == "[]" and len(n.get("args", [])) == 2:
                base, idx = n["args"]
            elif n["k"] == "index":
                base, idx = n.get("base"), n.get("idx")
            if base is None or idx is None:
                continue
            bt = astq.estr(base)
            if not (bt.endswith("vin") or bt.split(".")[-1].split(">")[-1] == "amounts" or bt == "amounts"):
                continue
            arms = [idx]
            while arms and any(a.get("k") in ("cond", "cast", "paren") for a in arms):
                nxt = []
                for a in arms:
                    if a.get("k") == "cond":
                        nxt += [a["then"], a["else"]]
                    elif a.get("k") in ("cast", "paren"):
                        nxt.append(a["e"])
                    else:
                        nxt.append(a)
                arms = nxt
            if any(astq.const_value(a) is not None for a in arms):
                const_subs.append((f, n))
    ctx.site(len(const_subs))
    if const_subs:
        pt = fb.fn("Instance::parse_transaction")
        X = _sx.Explorer(prog, inline=lambda fn, n: fn.file == pt.file and fn.rec is None, transparent=lambda n: True)
        try:
            outs = X.explore(pt, this=("a", "this"), limit=20000)
        except _sx.Unsupported as e:
            raise AnalysisBroken("R15.3b: parse_transaction: %s" % e)
        acc = [o for o in outs if o.status == "ret" and o.ret == _sx.C(1)]
        if not acc:
            raise AnalysisBroken("R15.3b: no accepting path of parse_transaction")

        def nonempty_vin(o):
            for (t, v) in o.conds:
                def is_vin(x):
                    return isinstance(x, tuple) and x[0] == "f" and x[2] == "vin"
                if isinstance(t, tuple) and t[:2] == ("ap", "m:empty") and is_vin(t[2]) and not v:
                    return True
                if isinstance(t, tuple) and t[:2] == ("ap", "m:size") and is_vin(t[2]) and v:
                    return True
                if isinstance(t, tuple) and t[0] == "ap" and t[1] == "<" and len(t) == 4:
                    a, b = t[2], t[3]
                    if a == _sx.C(0) and isinstance(b, tuple) and b[:2] == ("ap", "m:size") and is_vin(b[2]) and v:
                        return True
                    if isinstance(a, tuple) and a[:2] == ("ap", "m:size") and is_vin(a[2]) and b == _sx.C(1) and not v:
                        return True
                if isinstance(t, tuple) and t[0] == "eq" and _sx.C(0) in t[1:] and not v:
                    o_ = t[2] if t[1] == _sx.C(0) else t[1]
                    if isinstance(o_, tuple) and o_[:2] == ("ap", "m:size") and is_vin(o_[2]):
                        return True
            return False
        bad = [o for o in acc if not nonempty_vin(o)]
        f0, n0 = const_subs[0]
        ctx.inst(not bad, "R15.3", "transaction-has-an-input", pt.loc(),
                 "all %d accepting paths of parse_transaction decided that the transaction has an input (needed by %d constant-index subscript(s), e.g. %s at %s)" % (len(acc), len(const_subs), astq.estr(n0)[:50], f0.loc(n0)),
                 "parse_transaction accepts a transaction without inputs (%d of %d accepting paths never test vin for emptiness), but %s at %s indexes it with a constant: "
                 "`btcdeb --tx=01000000000000000000 '[OP_1]'` reads amounts[0] of an empty vector" % (len(bad), len(acc), astq.estr(n0)[:60], f0.loc(n0)))

    # ---------------------------------------------------------------- R15.4
    nst = 0
    for f in fb.funcs.values():
        if not auth(f):
            continue
        arrays = {}
        for n in f.nodes():
            if n["k"] == "decl":
                for d in n["decls"]:
                    if "arraysize" in d:
                        arrays[d["d"]] = d["arraysize"]
        if not arrays:
            continue
        cfg = f.cfg()
        for n in f.nodes():
            if n["k"] not in ("assign", "cassign") or n["lhs"].get("k") != "index":
                continue
            ix = n["lhs"]
            b = ix["base"]
            if b.get("k") != "ref" or b.get("d") not in arrays:
                continue
            if astq.const_value(ix["idx"]) is not None:
                continue
            size = arrays[b["d"]]
            nst += 1
            ctx.site()
            idx = ix["idx"]
            ivars = [x for x in walk(idx) if x["k"] == "ref" and x.get("dk") in ("local", "parm")]
            key = "array=%s@%s:index=%s" % (b["n"], f.name, astq.estr(idx).replace("++", "").replace("--", ""))
            ok, why = bounded_store(f, cfg, n, idx, ivars, size, b)
            ctx.inst(ok, "R15.4", key, f.loc(n), "store %s[%s] into %d elements: %s" % (b["n"], astq.estr(idx), size, why),
                     "store `%s` into the %d-element array %s is not bounded: %s" % (astq.estr(n)[:50], size, b["n"], why))
    ctx.floor("R15.4", nst, 4, "stores into fixed-size arrays with a varying index")

    # ---- R15.4b length-limited writes (snprintf / vsnprintf / strncpy / fgets) into a local array: destination offset + limit
    # never exceeds the array. The destination is the array itself (limit: a constant <= its size, or the very expression that
    # sizes a variable-length array) or a local pointer into it; in the second case the block that declares the pointer is
    # evaluated with G-SYM and `limit + (destination - array)` must fold to a constant <= the array's size.
    BOUNDED = {"snprintf": (0, 1), "vsnprintf": (0, 1), "strncpy": (0, 2), "fgets": (0, 1)}
    nbw = 0
    for f in fb.funcs.values():
        if not auth(f):
            continue
        arrays = {}
        ptr_decl = {}
        for n in f.nodes():
            if n["k"] == "decl":
                for d in n["decls"]:
                    ty = d.get("ty") or ""
                    if "[" in ty and ty.endswith("]"):
                        arrays[d["d"]] = (d["n"], d.get("arraysize"), ty[ty.index("[") + 1:-1])
                    elif ty.rstrip().endswith("*"):
                        ptr_decl[d["d"]] = n
        if not arrays:
            continue
        blocks = {}
        for n in f.nodes():
            if not (astq.is_call(n) and n.get("n") in BOUNDED and len(n.get("args", [])) > max(BOUNDED[n["n"]])):
                continue
            di, si = BOUNDED[n["n"]]
            dst, lim = n["args"][di], n["args"][si]
            while dst is not None and dst.get("k") in ("cast", "paren"):
                dst = dst["e"]
            if dst is None or dst.get("k") != "ref" or dst.get("dk") != "local":
                continue
            key = "bounded-write:%s@%s:%s" % (n["n"], f.name, f.loc(n).split(":")[-1])
            if dst["d"] in arrays:
                nm, N, sz = arrays[dst["d"]]
                nbw += 1
                ctx.site()
                cv = astq.const_value(lim)
                if N is not None:
                    okb = cv is not None and cv <= N
                    if cv is None:
                        lt = astq.estr(lim).replace(" ", "")
                        okb = lt in ("sizeof(%s)" % nm, "sizeof%s" % nm)
                    ctx.inst(okb, "R15.4", key, f.loc(n), "%s writes at most %s bytes into %s[%d]" % (n["n"], astq.estr(lim), nm, N),
                             "%s may write %s bytes into %s[%d]" % (n["n"], astq.estr(lim), nm, N))
                else:
                    a_, b_ = astq.estr(lim).replace(" ", "").strip("()"), sz.replace(" ", "").strip("()")
                    ctx.inst(a_ == b_, "R15.4", key, f.loc(n), "%s is limited by the expression that sizes %s[%s]" % (n["n"], nm, sz),
                             "%s is limited by %s but %s has %s elements" % (n["n"], astq.estr(lim), nm, sz))
                continue
            if dst["d"] not in ptr_decl:
                continue
            dn = ptr_decl[dst["d"]]
            blk = None
            for a in f.ancestors(dn):
                if a.get("k") in ("compound", "block"):
                    blk = a
                    break
            if blk is None:
                continue
            if id(blk) not in blocks:
                X = _sx.Explorer(prog, inline=lambda fn, n_: False, transparent=lambda n_: True)
                try:
                    blocks[id(blk)] = X.explore(f, this=("a", "this"), body=blk, limit=4000)
                except _sx.Unsupported as e:
                    raise AnalysisBroken("R15.4b: %s: %s" % (f.name, e))
            seen = []
            for o in blocks[id(blk)]:
                def evs(lst):
                    for e in lst:
                        yield e
                        if getattr(e, "body", None):
                            for x in evs(e.body):
                                yield x
                for e in evs(o.events):
                    if e.node is n and e.kind == "call" and len(e.terms) > max(di, si):
                        seen.append((e.terms[di], e.terms[si]))
            if not seen:
                continue
            nbw += 1
            ctx.site()
            verdicts = []
            for (dt, lt) in seen:
                c0, parts = _sx.lin_parts(dt)
                arrs = [(t, k) for (t, k) in parts.items() if isinstance(t, tuple) and t[0] == "a" and any(t[1] == nm for (nm, N, sz) in arrays.values())]
                if len(arrs) != 1 or arrs[0][1] != 1:
                    verdicts.append((None, dt, lt))
                    continue
                arr = arrs[0][0]
                # several arrays of a function may share a name (block scopes): the one visible at the call is the one whose
                # declaring block encloses the call, innermost first
                cands_ = []
                for dn_ in f.nodes():
                    if dn_["k"] == "decl" and any(d_["d"] in arrays and arrays[d_["d"]][0] == arr[1] for d_ in dn_["decls"]):
                        scope_ = None
                        for a_ in f.ancestors(dn_):
                            if a_.get("k") in ("compound", "block"):
                                scope_ = a_
                                break
                        if scope_ is None or S.contains(scope_, n):
                            depth_ = len(list(f.ancestors(dn_)))
                            for d_ in dn_["decls"]:
                                if d_["d"] in arrays and arrays[d_["d"]][0] == arr[1]:
                                    cands_.append((depth_, arrays[d_["d"]][1]))
                N = max(cands_)[1] if cands_ else [N_ for (nm, N_, sz) in arrays.values() if nm == arr[1]][0]
                tot = _sx.lin_add(lt, _sx.lin_add(dt, arr, -1))
                verdicts.append((N is not None and _sx.is_const(tot) and tot[1] <= N, dt, lt, arr[1], N, tot))
            if any(v[0] is None for v in verdicts):
                continue      # the destination is not (provably) inside a local array: outside this rule
            bad = [v for v in verdicts if not v[0]]
            ctx.inst(not bad, "R15.4", key, f.loc(n), "%s: destination offset + limit folds to a constant within the array on every path" % n["n"],
                     "%s writes up to %s bytes at %s: offset + limit = %s is not a constant <= %s (the array %s has %s bytes) - the limit grows with the offset "
                     "instead of shrinking" % ((n["n"], _sx.show(bad[0][2]), _sx.show(bad[0][1]), _sx.show(bad[0][5]), bad[0][4], bad[0][3], bad[0][4]) if bad else ("",) * 7))
    ctx.floor("R15.4", nbw, 5, "length-limited writes into local arrays")

    # ---------------------------------------------------------------- R15.5
    nfg = 0
    for f in fb.funcs.values():
        if not auth(f) or f.file.startswith("kerl/"):
            continue
        cfg = None
        for n in f.nodes():
            if n["k"] == "call" and n.get("n") == "fgets" and n["args"]:
                nfg += 1
                ctx.site()
                cfg = cfg or f.cfg()
                buf = n["args"][0]
                btxt = astq.estr(buf)
                fail_succ = None
                for (blk, s_, c, t) in cfg.cond_edges():
                    if c == n["id"] and t is False:
                        fail_succ = s_
                key = "fgets=%s:%s" % (f.name, btxt)
                if fail_succ is None:
                    ctx.fail("R15.5", key, f.loc(n), "the result of fgets(%s, ...) is not tested" % btxt)
                    continue
                # reads of buf reachable from the failing edge without an intervening write to buf
                def same_buf(a_):
                    # the same array object, not merely the same name (block scopes may re-use a name)
                    while a_ is not None and a_.get("k") in ("cast", "paren"):
                        a_ = a_["e"]
                    b_ = buf
                    while b_ is not None and b_.get("k") in ("cast", "paren"):
                        b_ = b_["e"]
                    if a_ is None or b_ is None:
                        return False
                    if a_.get("k") == "ref" and b_.get("k") == "ref":
                        return a_.get("d") == b_.get("d")
                    return astq.estr(a_) == astq.estr(b_)
                writes = [m for m in f.nodes() if m["k"] == "assign" and m["lhs"].get("k") == "index" and same_buf(m["lhs"]["base"]) and astq.const_value(m["lhs"]["idx"]) == 0]
                wblocks = cfg.blocks_of_nodes(writes)
                reach = cfg.reachable_from(fail_succ, removed_blocks=wblocks - {fail_succ}) if fail_succ not in wblocks else set()
                reads = []
                for m in f.nodes():
                    if m is not n and m["k"] in ("call", "mcall", "opcall", "ctor") and m.get("n") not in ("fgets", "memset", "snprintf") and any(same_buf(a) for a in m.get("args", []) if a):
                        p = cfg.position(m)
                        if p and p[0] in reach:
                            reads.append(m)
                ctx.inst(not reads, "R15.5", key, f.loc(n), "on the failing edge of fgets the buffer is re-initialised (or not read)",
                         "after fgets(%s, ...) failed, %s(%s) at %s reads the uninitialised buffer" % (btxt, reads[0].get("n") if reads else "", btxt, f.loc(reads[0]) if reads else ""))
    ctx.floor("R15.5", nfg, 1, "fgets calls")

    # ---------------------------------------------------------------- R15.11 no assert on session state in the session driver
    ctx.rule("R15.11", "the session driver (stepper, rewind, command handlers, instance) never asserts on session state a user can reach: it rejects with an error")
    sess_files = ("debugger/interpreter.cpp", "functions.cpp", "instance.cpp")
    n_asserts = 0
    for f in fb.funcs.values():
        if f.file not in sess_files or f.body is None or f.name.startswith("StepExtended"):
            continue
        al = astq.aliases(f)
        for n in f.nodes():
            if not (n["k"] == "call" and n.get("n") == "__assert_fail"):
                continue
            par = f.parent(n)
            while par is not None and par.get("k") != "cond":
                par = f.parent(par)
            if par is None:
                continue
            n_asserts += 1
            cond = par["cond"]
            c0 = cond
            while c0 is not None and c0.get("k") == "cast":
                c0 = c0["e"]
            if astq.const_value(cond) is not None or (c0 is not None and c0.get("k") == "un" and c0.get("op") == "!" and c0["e"].get("k") == "str"):
                continue      # assert(0) / assert(!"text"): an unreachability marker, decided by R15.8 and the exhaustiveness rules
            roots = set()
            for x in walk(cond):
                if x["k"] in ("ref", "mem"):
                    for p_ in astq.paths(x, al):
                        r0 = p_[0]
                        if r0 == ("this",) or r0[0] == "parm" or (r0[0] == "global" and len(r0) > 1 and r0[1] in ("env", "instance")):
                            roots.add(astq.path_str(p_))
            ctx.site()
            ctx.inst(not roots, "R15.11", "assert@%s:%s" % (f.name.split("(")[0], astq.estr(cond)[:40]), f.loc(n),
                     "assert(%s) does not read session state" % astq.estr(cond)[:60],
                     "%s asserts `%s`, which reads session state (%s) that interactive commands (exec, stepping after an error) can bring into any shape: "
                     "a failed assertion aborts the debugger instead of failing the script" % (f.name, astq.estr(cond)[:80], ", ".join(sorted(roots))[:120]))
    ctx.floor("R15.11", n_asserts, 1, "assert sites inspected in the session driver")
    # ---------------------------------------------------------------- R15.12 the verification context exists wherever it is used
    ctx.rule("R15.12", "every use of secp256k1_context_verify reachable from a tool's main happens while an ECCVerifyHandle is alive (global object of the program, or a holder on every call path)")
    unit_targets = {u["unit"]: set(u["targets"]) for u in fb.raw_units}
    readers = [f for f in fb.funcs.values() if f.body is not None and not f.name.startswith("ECCVerifyHandle::") and
               any(n["k"] == "ref" and n["n"] == "secp256k1_context_verify" and n.get("dk") == "global" for n in f.nodes())]
    if not readers:
        raise AnalysisBroken("R15.12: no function reads secp256k1_context_verify")

    def has_handle(rec, depth=0):
        if rec == "ECCVerifyHandle":
            return True
        r = fb.records.get(rec)
        if r is None or depth > 3:
            return False
        return any(has_handle(fl.get("ct") or "", depth + 1) for fl in r.get("fields", []) if not (fl.get("ty") or "").rstrip().endswith("*"))
    holders = set()
    for f in fb.funcs.values():
        if f.body is None:
            continue
        for n in f.nodes():
            if n["k"] == "decl" and any(has_handle(d.get("ct") or "") and not (d.get("ty") or "").rstrip().endswith(("*", "&")) for d in n["decls"]):
                holders.add(f.id)
    for m in mains:
        prog_name = m.file.rsplit(".", 1)[0]
        units = {u for u, t in unit_targets.items() if prog_name in t or "libbitcoin_a" in t or "libbitcoin" in " ".join(t)}
        glob = [v for vs in fb.vars_by_name.values() for v in vs if v.get("unit") in units and prog_name in unit_targets.get(v.get("unit"), set()) and has_handle(v.get("ct") or "")]
        reach_all = prog.reachable([m])
        used = [r for r in readers if r.id in reach_all]
        ctx.site(len(used))
        if not used:
            ctx.ok("R15.12", "verify-context@" + m.file, m.loc(), "%s never reaches a user of the verification context" % prog_name)
            continue
        if glob:
            ctx.ok("R15.12", "verify-context@" + m.file, m.loc(), "%s links the global `%s` (%s), which holds an ECCVerifyHandle for the whole run" % (prog_name, glob[0]["name"], glob[0].get("ct")))
            continue
        seen = prog.reachable([m], stop=holders)
        bare = [r for r in used if r.id in seen and r.id not in holders]
        ctx.inst(not bare, "R15.12", "verify-context@" + m.file, m.loc(),
                 "every path from %s's main to a user of the verification context passes a function holding an ECCVerifyHandle" % prog_name,
                 "%s reaches %s without any ECCVerifyHandle alive (no global holder is linked into %s): secp256k1_context_verify is null there - assertion failure / null context: %s"
                 % (prog_name, bare[0].name if bare else "", prog_name, " -> ".join(prog.chain(seen, bare[0].id)[:8]) if bare else ""))
    # ---------------------------------------------------------------- R15.17 the signing context exists wherever it is used
    # (sibling rule: twelve of the thirteen users in value.cpp create it on first use; the odd one out handed libsecp256k1 a null
    # context). A user is fine if a call of ECC_Start dominates its first read, or if the tool's main calls ECC_Start on every path.
    ctx.rule("R15.17", "every use of secp256k1_context_sign reachable from a tool's main is preceded by its creation (ECC_Start in the function, or unconditionally in that main)")
    sreaders = [f for f in fb.funcs.values() if f.body is not None and f.name not in ("ECC_Start", "ECC_Stop") and
                any(n["k"] == "ref" and n["n"] == "secp256k1_context_sign" and n.get("dk") == "global" for n in f.nodes())]
    if not sreaders:
        raise AnalysisBroken("R15.17: no function reads secp256k1_context_sign")

    def starts_context(f):
        fcfg = f.cfg()
        starts = [n for n in f.nodes() if n["k"] == "call" and n.get("n") == "ECC_Start"]
        if not starts:
            return False
        uses = [n for n in f.nodes() if n["k"] == "ref" and n["n"] == "secp256k1_context_sign" and n.get("dk") == "global"]
        ok_all = True
        for u in uses:
            # the read that is the null test guarding ECC_Start itself is part of the idiom
            if any(a.get("k") == "if" and S.contains(a.get("cond"), u) and any(S.contains(a.get("then"), st) for st in starts) for a in f.ancestors(u)):
                continue
            guard_ifs = [a for st in starts for a in f.ancestors(st) if a.get("k") == "if"]
            if not any(fcfg.dominates(st, u) for st in starts) and not any(fcfg.dominates(g["cond"], u) for g in guard_ifs):
                ok_all = False
        return ok_all
    n17 = 0
    for m in mains:
        reach_m = prog.reachable([m])
        mcfg = m.cfg()
        main_starts = [n for n in m.nodes() if n["k"] == "call" and n.get("n") == "ECC_Start"]
        main_ok = bool(main_starts) and mcfg.must_pass_from_block(mcfg.entry, main_starts)
        for r in sorted(sreaders, key=lambda f_: f_.id):
            if r.id not in reach_m or r is m:
                continue
            n17 += 1
            ctx.site()
            okr = main_ok or starts_context(r)
            ctx.inst(okr, "R15.17", "sign-context@%s<-%s" % (r.name, m.file), r.loc(),
                     "%s %s" % (r.name, "creates the signing context on first use" if not main_ok else "runs after %s's main created the signing context" % m.file),
                     "%s uses secp256k1_context_sign but, unlike its siblings, does not create it on first use, and %s never calls ECC_Start: libsecp256k1 is handed a null context (its error callbacks dereference it)" % (r.name, m.file))
    ctx.floor("R15.17", n17, 8, "users of the signing context reachable from the tools")
    # ---------------------------------------------------------------- R15.6 / R15.8 (shared with C17)
    from .. import report
    sub = report.Ctx("C17", ctx.tier, fb, prog, ctx.seed)
    c17.run(sub)
    for i in sub.instances:
        if i["rule"] == "R17.3":
            ctx.instances.append(dict(i, rule="R15.6"))
        elif i["rule"] in ("R17.1", "R17.2") and ("opcode=" in i["key"] or "nested-switch" in i["key"]):
            ctx.instances.append(dict(i, rule="R15.8"))
    ctx.sites += sub.sites

    # ---------------------------------------------------------------- R15.7
    pre = size_preconditions(fb, prog)
    ctx.floor("R15.7", len(pre), 5, "functions with an assert-backed size precondition (incl. wrappers)")
    ncs = 0
    for f in fb.funcs.values():
        if not auth(f) or f.id in pre:
            continue
        cfg = None
        for n in f.nodes():
            roots = [n]
            if not (astq.is_call(n) and n.get("cid") in pre):
                continue
            i, K = pre[n["cid"]]
            obj, args = astq.call_args(n)
            if i >= len(args) or args[i] is None:
                continue
            ncs += 1
            ctx.site()
            cfg = cfg or f.cfg()
            a = underlying(args[i])
            atxt = astq.estr(a)
            key = "precond=%s(%s)@%s" % ((n.get("callee") or "?").split("::")[-1], atxt[:30], f.name)
            ok, why = precondition_met(fb, f, cfg, n, a, K)
            if not ok and a is not None and a.get("k") == "ref" and a.get("dk") == "parm":
                ok, why = callers_establish(fb, prog, f, a, K)
            ctx.inst(ok, "R15.7", key, f.loc(n), "%s requires size %s: %s" % (n.get("callee"), K, why),
                     "%s asserts that its argument has %s bytes, but `%s` reaches it %s: a wrong length aborts the process"
                     % (n.get("callee"), K, atxt[:50], why))
    ctx.floor("R15.7", ncs, 8, "call sites of size-precondition functions in authored units")

    # ---- R15.7c assert-backed CHARACTER preconditions: `for (c : P) assert(pred(c))` over a parameter P. Every argument that
    # reaches P from authored code must be made of characters that satisfy pred: a string literal that does, the result of a
    # sanitiser whose output cannot contain the rejected characters (ToLower when only 'A'..'Z' are rejected), or - through a
    # global - only such values.
    def char_pred(cond, var_d):
        """-> function(ch) evaluating the assert condition for one character, or None if it is not a pure comparison formula"""
        def ev(n, ch):
            k = n.get("k")
            if k in ("cast", "paren"):
                return ev(n["e"], ch)
            if k == "ref" and n.get("d") == var_d:
                return ch
            cv = astq.const_value(n)
            if cv is not None:
                return cv
            if k == "bin" and n["op"] in ("||", "&&", "<", ">", "<=", ">=", "==", "!="):
                a, b = ev(n["lhs"], ch), ev(n["rhs"], ch)
                if a is None or b is None:
                    return None
                return {"||": lambda: int(bool(a) or bool(b)), "&&": lambda: int(bool(a) and bool(b)), "<": lambda: int(a < b), ">": lambda: int(a > b),
                        "<=": lambda: int(a <= b), ">=": lambda: int(a >= b), "==": lambda: int(a == b), "!=": lambda: int(a != b)}[n["op"]]()
            if k == "un" and n.get("op") == "!":
                a = ev(n["e"], ch)
                return None if a is None else int(not a)
            return None
        if ev(cond, 65) is None:
            return None
        return lambda ch: bool(ev(cond, ch))
    cpre = {}
    for f in fb.funcs.values():
        for n in f.nodes():
            if n["k"] != "forrange" or n.get("range") is None:
                continue
            r = n["range"]
            while r.get("k") in ("cast", "paren"):
                r = r["e"]
            if r.get("k") != "ref" or r.get("dk") != "parm":
                continue
            for m in walk(n["body"]):
                if m["k"] == "cond" and any(x["k"] == "call" and x.get("n") == "__assert_fail" for x in walk(m)):
                    pr = char_pred(m["cond"], n.get("vard"))
                    if pr is not None:
                        for i, p_ in enumerate(f.params):
                            if p_["d"] == r.get("d"):
                                cpre[f.id] = (i, frozenset(ch for ch in range(1, 128) if not pr(ch)), f)
    ctx.site(len(cpre))

    def chars_ok(f, e, rejected, depth=0):
        """(ok, why) - can the string expression e contain a rejected character?"""
        while e is not None and (e.get("k") in ("cast", "paren", "defarg", "opaque") or (e.get("k") == "ctor" and e.get("args") and (e.get("copy") or e.get("mrec") in ("std::basic_string", "std::basic_string_view")))):
            e = e["e"] if "e" in e else e["args"][0]
        if e is None:
            return False, "unknown value"
        if e.get("k") == "str":
            badc = sorted({c_ for c_ in e.get("s", "") if ord(c_) in rejected})
            return (not badc), ("the literal \"%s\"%s" % (e.get("s"), " contains %s" % badc if badc else ""))
        if e.get("k") == "cond":
            a, wa = chars_ok(f, e["then"], rejected, depth)
            b, wb = chars_ok(f, e["else"], rejected, depth)
            return a and b, (wa if not a else wb)
        if astq.is_call(e) and (e.get("callee") or e.get("n") or "").split("::")[-1] == "ToLower" and rejected <= frozenset(range(65, 91)):
            return True, "ToLower(...) cannot contain 'A'..'Z'"
        if e.get("k") == "ref" and e.get("dk") == "global" and depth < 2:
            g = fb.var(e["n"], optional=True)
            srcs = []
            if g is not None and g.get("init") is not None:
                srcs.append((None, g["init"]))
            for h in fb.funcs.values():
                if not auth(h):
                    continue
                for n_ in h.nodes():
                    lhs = rhs = None
                    if n_["k"] == "assign":
                        lhs, rhs = n_["lhs"], n_["rhs"]
                    elif n_["k"] == "opcall" and n_.get("op") == "=" and len(n_["args"]) == 2:
                        lhs, rhs = n_["args"]
                    if lhs is not None and lhs.get("k") == "ref" and lhs.get("dk") == "global" and lhs.get("n") == e["n"]:
                        srcs.append((h, rhs))
            for (h, rhs) in srcs:
                okk, why = chars_ok(h, rhs, rejected, depth + 1)
                if not okk:
                    return False, "%s is assigned %s%s" % (e["n"], astq.estr(rhs)[:60], (" at " + h.loc(rhs)) if h is not None else "")
            return True, "every value stored in %s satisfies it" % e["n"]
        return False, "`%s` is not a checked value" % astq.estr(e)[:50]
    ncc = 0
    for f in fb.funcs.values():
        if not auth(f):
            continue
        for n in f.nodes():
            if not (astq.is_call(n) and n.get("cid") in cpre):
                continue
            i, rejected, g = cpre[n["cid"]]
            obj, args = astq.call_args(n)
            if i >= len(args) or args[i] is None:
                continue
            ncc += 1
            ctx.site()
            okc, why = chars_ok(f, args[i], rejected)
            rj = "".join(chr(c_) for c_ in sorted(rejected))
            ctx.inst(okc, "R15.7", "char-precond=%s(%s)@%s" % (g.name.split("::")[-1], astq.estr(args[i])[:24], f.name), f.loc(n),
                     "%s asserts that no character of its argument is in [%s]: %s" % (g.name, rj[:30], why),
                     "%s asserts that no character of its argument is in [%s], but %s: such a value aborts the process on the assertion" % (g.name, rj[:30], why))
    if cpre and not ncc:
        raise AnalysisBroken("R15.7c: functions with a character precondition exist but no authored call site was found")

    # ---- R15.13 recursion inventory. Stack depth is the one resource no bounds check protects: every cycle of the resolved call
    # graph (G-CG, strongly connected components) must be a reviewed one whose depth is bounded for a stated reason; a cycle
    # driven by input nesting must contain a rejecting comparison of a local counter with a constant, and no variable-length
    # array may be live across a call back into its cycle (stack use per level must not grow with the input either).
    REVIEWED = {
        frozenset(["Value::Value", "Value::parse_args"]): ("guard", "one level per [bracket level of the input; bounded by the nesting limit checked while scanning"),
        frozenset(["DeferringSignatureChecker::CheckECDSASignature"]): ("fixed", "delegation to the wrapped checker object; depth = number of wrappers, fixed by the program"),
        frozenset(["DeferringSignatureChecker::CheckSchnorrSignature"]): ("fixed", "delegation to the wrapped checker object"),
        frozenset(["DeferringSignatureChecker::CheckLockTime"]): ("fixed", "delegation to the wrapped checker object"),
        frozenset(["DeferringSignatureChecker::CheckSequence"]): ("fixed", "delegation to the wrapped checker object"),
        frozenset(["TapBranch::ToString"]): ("fixed", "depth of the tap tree = log2(script count); the script count is limited to 1024 by tap's main"),
        frozenset(["TapBranch::Prove"]): ("fixed", "depth of the tap tree = log2(script count)"),
    }
    ctx.rule("R15.13", "every recursion cycle of the call graph is a reviewed one with a depth bound; input-driven cycles carry a nesting limit and no variable-length array across the recursive call")
    graph = {}
    for f in fb.funcs.values():
        if f.body is not None:
            graph[f.id] = {c_.id for (_n, c_) in prog.callees(f) if c_.body is not None}
    sccs = []
    index, low, onst, stack_, cnt = {}, {}, set(), [], [0]
    for root in graph:
        if root in index:
            continue
        work = [(root, iter(sorted(graph[root])))]
        index[root] = low[root] = cnt[0]
        cnt[0] += 1
        stack_.append(root)
        onst.add(root)
        while work:
            v, it_ = work[-1]
            adv = False
            for w in it_:
                if w not in graph:
                    continue
                if w not in index:
                    index[w] = low[w] = cnt[0]
                    cnt[0] += 1
                    stack_.append(w)
                    onst.add(w)
                    work.append((w, iter(sorted(graph[w]))))
                    adv = True
                    break
                elif w in onst:
                    low[v] = min(low[v], index[w])
            if adv:
                continue
            work.pop()
            if work:
                low[work[-1][0]] = min(low[work[-1][0]], low[v])
            if low[v] == index[v]:
                comp = []
                while True:
                    w = stack_.pop()
                    onst.discard(w)
                    comp.append(w)
                    if w == v:
                        break
                if len(comp) > 1 or v in graph[v]:
                    sccs.append(comp)
    ctx.site(len(graph))
    for comp in sorted(sccs, key=lambda c_: sorted(fb.funcs[x].name for x in c_)):
        fs = [fb.funcs[x] for x in comp]
        names = frozenset(f_.name for f_ in fs)
        key = "cycle=" + "+".join(sorted(names))
        rv = REVIEWED.get(names)
        if rv is None:
            ctx.fail("R15.13", key, fs[0].loc(), "recursion cycle {%s} is not a reviewed one: nothing bounds its depth that this check knows of (a nested or self-referential input "
                     "can exhaust the stack)" % ", ".join(sorted(names)))
            continue
        kind, why = rv
        ids = set(comp)
        # no variable-length array live across a call back into the cycle
        vla = []
        for f_ in fs:
            for n in f_.nodes():
                if n["k"] != "decl":
                    continue
                for d in n["decls"]:
                    ty = d.get("ty") or ""
                    if "[" in ty and ty.endswith("]") and d.get("arraysize") is None and not ty.endswith("[]"):
                        scope = None
                        for a in f_.ancestors(n):
                            if a.get("k") in ("compound", "block"):
                                scope = a
                                break
                        inner = list(walk(scope)) if scope is not None else list(f_.nodes())
                        if any(astq.is_call(x) and any(g_.id in ids for g_ in (prog.resolve(x["cid"]) if x.get("cid") else [])) for x in inner) or \
                           any((x.get("k") in ("call", "mcall") and x.get("n") in ("emplace_back", "emplace")) for x in inner):
                            vla.append((f_, n, d))
        ctx.inst(not vla, "R15.13", key + ":no-vla-across-recursion", (vla[0][0].loc(vla[0][1]) if vla else fs[0].loc()),
                 "no variable-length array is live across a call back into the cycle {%s}" % ", ".join(sorted(names)),
                 "%s %s is live across the recursive call in %s: every level of recursion adds a stack array whose size is taken from the input" %
                 ((vla[0][2].get("ty"), vla[0][2]["n"], vla[0][0].name) if vla else ("", "", "")))
        if kind == "guard":
            # the limit must sit in a function every cycle passes through (removing it leaves the rest acyclic) and dominate
            # every call of that function back into the cycle
            def acyclic_without(fid_):
                rest = [x for x in comp if x != fid_]
                color = {}

                def dfs(v):
                    color[v] = 1
                    for w in graph.get(v, ()):
                        if w in rest:
                            if color.get(w) == 1:
                                return False
                            if w not in color and not dfs(w):
                                return False
                    color[v] = 2
                    return True
                return all(dfs(v) for v in rest if v not in color)
            guards = []
            for f_ in fs:
                if not acyclic_without(f_.id):
                    continue
                fcfg_ = f_.cfg()
                rec_calls = [x for x in f_.nodes() if (astq.is_call(x) and x.get("cid") and any(g_.id in ids for g_ in prog.resolve(x["cid"]))) or
                             (x.get("k") in ("call", "mcall") and x.get("n") in ("emplace_back", "emplace") and x.get("ext"))]
                for n in f_.nodes():
                    if n["k"] != "if":
                        continue
                    c_ = n["cond"]
                    while c_ is not None and c_.get("k") in ("cast", "paren"):
                        c_ = c_["e"]
                    if c_ is None or c_.get("k") != "bin" or c_["op"] not in (">", ">=", "<", "<="):
                        continue
                    l_, r_ = c_["lhs"], c_["rhs"]
                    while l_.get("k") in ("cast", "paren"):
                        l_ = l_["e"]
                    while r_.get("k") in ("cast", "paren"):
                        r_ = r_["e"]
                    var, con = (l_, r_) if c_["op"] in (">", ">=") else (r_, l_)
                    if var.get("k") == "ref" and var.get("dk") in ("local", "global") and astq.const_value(con) is not None and astq.const_value(con) > 1:
                        leaves = any((x["k"] == "call" and x.get("n") in ("exit", "abort", "_exit")) or x["k"] in ("return", "throw") for x in walk(n["then"]))
                        upd = any((x["k"] in ("cassign",) and x["lhs"].get("d") == var.get("d")) or (x["k"] == "un" and x.get("op") in ("++",) and x["e"].get("d") == var.get("d")) or
                                  (x["k"] in ("call", "mcall", "ctor") and any(a_ is not None and a_.get("k") == "ref" and a_.get("d") == var.get("d") and i_ < len(x.get("pk") or "") and (x.get("pk") or "")[i_] == "r"
                                                                                 for i_, a_ in enumerate(x.get("args", [])))) for x in f_.nodes())
                        if leaves and upd and all(fcfg_.dominates(n["cond"], rc) for rc in rec_calls):
                            guards.append((f_, n, astq.const_value(con)))
            ctx.inst(bool(guards), "R15.13", key + ":nesting-limit", guards[0][0].loc(guards[0][1]) if guards else fs[0].loc(),
                     "every cycle of {%s} passes through %s, which rejects when its depth counter exceeds %s before it calls back into the cycle (%s)" % (", ".join(sorted(names)), guards[0][0].name if guards else "?", guards[0][2] if guards else "?", why),
                     "the cycle {%s} recurses once per nesting level of its input, and no function that every cycle passes through limits the depth before calling back into it: "
                     "`btcc 'int(int(int( ...15000 deep... )))'` overflows the stack" % ", ".join(sorted(names)))
        else:
            ctx.ok("R15.13", key + ":reviewed", fs[0].loc(), why)
    ctx.floor("R15.13", len(sccs), 3, "recursion cycles in the call graph")

    # ---- R15.14 contradiction rule for constant subscripts: where a function itself decides the size of a container (a rejecting
    # `size() != K`, an equality in a condition), a constant subscript on a path that decided size == K must be < K. Paths are
    # enumerated by G-SYM for the functions that contain both a size equality and a constant subscript on the same container.
    ctx.rule("R15.14", "a constant subscript is smaller than the size the same path decided for the container")
    ncs14 = 0
    skipped14 = []
    for f in sorted(fb.funcs.values(), key=lambda f_: f_.id):
        if not auth(f) or f.d.get("main") or len(f.nodes()) > 900:
            continue      # drivers are too large to enumerate path by path; the rule is about the small decoding helpers
        sized, subs = set(), set()
        for n in f.nodes():
            if n["k"] == "bin" and n["op"] in ("==", "!=") and (astq.const_value(n["lhs"]) is not None or astq.const_value(n["rhs"]) is not None):
                o_ = n["rhs"] if astq.const_value(n["lhs"]) is not None else n["lhs"]
                while o_ is not None and o_.get("k") in ("cast", "paren"):
                    o_ = o_["e"]
                if o_ is not None and o_.get("k") == "mcall" and o_.get("n") == "size" and o_.get("obj") is not None:
                    sized.add(astq.estr(o_["obj"]))
            b_ = i_ = None
            if n["k"] == "opcall" and n.get("op") == "[]" and len(n.get("args", [])) == 2:
                b_, i_ = n["args"]
            elif n["k"] == "mcall" and n.get("n") == "at" and n.get("args"):
                b_, i_ = n.get("obj"), n["args"][0]
            if b_ is not None and i_ is not None and astq.const_value(i_) is not None:
                subs.add(astq.estr(b_))
        if not (sized & subs):
            continue
        X = _sx.Explorer(prog, inline=lambda fn, n_: False, transparent=lambda n_: True)
        try:
            outs = X.explore(f, this=("a", "this"), limit=600)
        except _sx.Unsupported as e:
            skipped14.append("%s: %s" % (f.name, str(e)[:50]))
            continue
        bad14 = None
        npaths = 0
        for o in outs:
            sizes = {}
            for (t, v) in o.conds:
                if isinstance(t, tuple) and t[0] == "eq" and v:
                    for a, b in ((t[1], t[2]), (t[2], t[1])):
                        if _sx.is_const(b) and isinstance(a, tuple) and a[:2] == ("ap", "m:size"):
                            sizes[a[2]] = b[1]
            if not sizes:
                continue
            npaths += 1
            terms = [t for (t, v) in o.conds] + [x for e in o.events for x in e.terms] + list(o.store.values()) + list(o.heap.values())
            for t in terms:
                for y in _sx.subterms(t):
                    if isinstance(y, tuple) and y[0] == "ap" and y[1] in ("[]", "m:at") and len(y) == 4 and _sx.is_const(y[3]) and y[2] in sizes:
                        if y[3][1] >= sizes[y[2]]:
                            bad14 = (_sx.show(y)[:60], sizes[y[2]])
        if not npaths:
            continue
        ncs14 += 1
        ctx.site(npaths)
        ctx.inst(bad14 is None, "R15.14", "subscript-within-decided-size@" + f.name, f.loc(),
                 "on the %d path(s) of %s that decide a container's size every constant subscript of it is smaller" % (npaths, f.name),
                 "%s reads %s on a path that decided the container has %s element(s)" % ((f.name, bad14[0], bad14[1]) if bad14 else (f.name, "", "")))
    ctx.extra["R15.14_not_explored"] = skipped14
    ctx.floor("R15.14", ncs14, 2, "functions deciding a container size and subscripting it with constants")

    # ---- R15.15 iterator / container pairing in loops over several scripts: where a loop decodes a different script in each
    # iteration (the receiver of GetOp depends on the loop index), the iterator handed to GetOp must have been taken from that
    # script in the same iteration, except in the first iteration (index decided 0), where the caller's position is used.
    ctx.rule("R15.15", "the iterator passed to <script>.GetOp in a loop over scripts belongs to that script (re-taken every iteration but the first)")
    n1515 = 0
    for f in fb.funcs.values():
        if not auth(f):
            continue
        for L in [n for n in f.nodes() if n["k"] == "for" and n.get("body") is not None]:
            calls = [x for x in walk(L["body"]) if x["k"] == "mcall" and x.get("n") == "GetOp"]
            if not calls or L.get("init") is None or L["init"].get("k") != "decl":
                continue
            ivar = L["init"]["decls"][0]["n"]
            X = _sx.Explorer(prog, inline=lambda fn, n_: False, transparent=lambda n_: True)
            try:
                outs = X.explore(f, this=("a", "this"), body=L["body"], limit=2000)
            except _sx.Unsupported:
                continue
            IV = ("a", ivar)

            def flat(lst):
                for e in lst:
                    yield e
                    if getattr(e, "body", None):
                        for y in flat(e.body):
                            yield y
            varying = False
            bad15 = None
            for o in outs:
                first = any((t == ("eq", _sx.C(0), IV) or t == ("eq", IV, _sx.C(0))) and v for (t, v) in o.conds) or \
                    any(t == ("ap", "<", _sx.C(0), IV) and not v for (t, v) in o.conds) or any(t == IV and not v for (t, v) in o.conds)
                for e in flat(o.events):
                    if e.kind == "mcall" and e.name == "GetOp" and len(e.terms) >= 2:
                        recv, it_ = e.terms[0], e.terms[1]
                        if not _sx.contains(recv, IV):
                            continue
                        varying = True
                        base = it_
                        while isinstance(base, tuple) and base[0] == "ap" and base[1].startswith("out:GetOp") and len(base) > 2:
                            base = base[2]
                        own = isinstance(base, tuple) and base[:2] in (("ap", "m:begin"), ("ap", "m:cbegin")) and base[2] == recv
                        if not own and not first:
                            bad15 = (_sx.show(base)[:40], _sx.show(recv)[:40])
            if not varying:
                continue
            n1515 += 1
            ctx.site(len(outs))
            ctx.inst(bad15 is None, "R15.15", "iterator-of-the-same-script@" + f.name, f.loc(L),
                     "every GetOp in the loop over scripts uses an iterator taken from the script of that iteration (or the caller's position in the first iteration)",
                     "%s: an iteration other than the first can hand the iterator `%s` to %s.GetOp: it points into the previous script when decoding of that script stopped early "
                     "(a truncated push), so the next script is decoded from foreign memory" % ((f.name,) + bad15 if bad15 else (f.name, "", "")))
    ctx.floor("R15.15", n1515, 1, "loops decoding one script per iteration")

    # ---- R15.7d assert-backed size RELATIONS: `assert(P.size() == Q.f.size())` over two parameters (P possibly moved into a member
    # first). A caller that hands over a vector it built with exactly k unconditional appends must have established that the
    # other container has k elements (a guard on its size that dominates the call).
    rel = {}
    for f in fb.funcs.values():
        for n in f.nodes():
            if n["k"] == "call" and n.get("n") == "__assert_fail":
                par = f.parent(n)
                while par is not None and par.get("k") != "cond":
                    par = f.parent(par)
                if par is None:
                    continue
                c = par["cond"]
                while c is not None and c.get("k") in ("cast", "paren"):
                    c = c["e"]
                if c is None or c.get("k") != "bin" or c["op"] != "==":
                    continue
                sides = []
                for sd in (c["lhs"], c["rhs"]):
                    while sd is not None and sd.get("k") in ("cast", "paren"):
                        sd = sd["e"]
                    if sd is not None and sd.get("k") == "mcall" and sd.get("n") == "size" and sd.get("obj") is not None:
                        sides.append(sd["obj"])
                if len(sides) != 2:
                    continue
                # which parameters do the two containers come from
                moved = {}
                for m in f.nodes():
                    if m["k"] in ("assign", "opcall") and (m.get("op") in (None, "=")):
                        lhs = m["lhs"] if m["k"] == "assign" else (m["args"][0] if len(m.get("args", [])) == 2 else None)
                        rhs = m["rhs"] if m["k"] == "assign" else (m["args"][1] if len(m.get("args", [])) == 2 else None)
                        if lhs is not None and rhs is not None:
                            for x in walk(rhs):
                                if x["k"] == "ref" and x.get("dk") == "parm":
                                    moved[astq.estr(lhs)] = x["d"]
                pidx = []
                for sd in sides:
                    root = None
                    for x in walk(sd):
                        if x["k"] == "ref" and x.get("dk") == "parm":
                            root = x["d"]
                    if root is None:
                        root = moved.get(astq.estr(sd))
                    pidx.append(([i for i, p_ in enumerate(f.params) if p_["d"] == root] or [None])[0])
                if None not in pidx and pidx[0] != pidx[1]:
                    other_path = astq.estr(sides[1] if pidx[0] < pidx[1] else sides[0])
                    rel[f.id] = (min(pidx), max(pidx), f, astq.estr(c))
    nrel = 0
    for f in fb.funcs.values():
        if not auth(f):
            continue
        cfg_ = None
        for n in f.nodes():
            if not (astq.is_call(n) and n.get("cid") in rel):
                continue
            ia, ib, g, ctext = rel[n["cid"]]
            obj, args = astq.call_args(n)
            if max(ia, ib) >= len(args):
                continue
            # which argument is a locally built vector
            built = None
            for i_ in (ia, ib):
                a_ = args[i_]
                for x in walk(a_):
                    if x["k"] == "ref" and x.get("dk") == "local":
                        built = (i_, x)
            if built is None:
                continue
            vec = built[1]
            other = args[ib if built[0] == ia else ia]
            cfg_ = cfg_ or f.cfg()
            apps = [m for m in f.nodes() if m["k"] == "mcall" and m.get("n") in ("emplace_back", "push_back") and m.get("obj") is not None and m["obj"].get("k") == "ref" and m["obj"].get("d") == vec.get("d")]
            in_loop = any(a.get("k") in ("for", "while", "do", "forrange") for m in apps for a in f.ancestors(m))
            if in_loop or not apps:
                continue
            k_ = len([m for m in apps if cfg_.dominates(m, n)])
            nrel += 1
            ctx.site()
            otxt = astq.estr(other).lstrip("*").replace("(", "").replace(")", "").replace(".get", "")
            guards = [(cn, t) for (cn, t) in S.ast_guards(f, n)]
            okg = False
            for (cn, t) in guards:
                for x in walk(cn):
                    if x["k"] == "bin" and x["op"] in ("==", "!=") and (astq.const_value(x["lhs"]) == k_ or astq.const_value(x["rhs"]) == k_):
                        sz = x["rhs"] if astq.const_value(x["lhs"]) == k_ else x["lhs"]
                        if "size()" in astq.estr(sz) and "vin" in astq.estr(sz) and ((x["op"] == "==") == bool(t)):
                            okg = True
            # or a rejecting test earlier in the function
            for m in f.nodes():
                if m["k"] == "if" and cfg_.dominates(m["cond"], n):
                    for x in walk(m["cond"]):
                        if x["k"] == "bin" and x["op"] == "!=" and (astq.const_value(x["lhs"]) == k_ or astq.const_value(x["rhs"]) == k_) and "size()" in astq.estr(x) and "vin" in astq.estr(x) and S.terminates(m["then"]):
                            okg = True
            ctx.inst(okg, "R15.7", "size-relation=%s@%s" % (g.name.split("::")[-1], f.name), f.loc(n),
                     "%s asserts %s; the caller built a vector of %d element(s) and established that the transaction has as many inputs" % (g.name, ctext, k_),
                     "%s asserts %s, but %s hands it a vector of %d element(s) without having established that the transaction has %d input(s): a transaction with more inputs aborts the process on the assertion" % (g.name, ctext, f.name, k_, k_))
    if rel and not nrel:
        raise AnalysisBroken("R15.7d: functions with a size-relation precondition exist but no authored call site was recognised")

    # ---- R15.16 the session set-up functions report failure through their boolean result (after printing a diagnostic); a caller
    # that drops it carries on with a half-configured instance (tap then ran into the sighash assertions)
    ctx.rule("R15.16", "the boolean result of Instance's parse / configure / set-up functions is used at every call site")
    SETUP = ("Instance::parse_transaction", "Instance::parse_input_transaction", "Instance::configure_tx_txin", "Instance::setup_environment",
             "Instance::parse_script", "Instance::parse_pretend_valid_expr")
    setup_fns = {f_.id: f_ for f_ in fb.funcs.values() if f_.name in SETUP and f_.d.get("ret") == "bool" and f_.body is not None}
    n16 = 0
    for f in fb.funcs.values():
        if not auth(f):
            continue
        for n in f.nodes():
            if astq.is_call(n) and n.get("cid") in setup_fns:
                n16 += 1
                par = f.parent(n)
                while par is not None and par.get("k") in ("cast", "paren", "opaque"):
                    par = f.parent(par)
                used = par is not None and par.get("k") not in ("block", "compound", "for", "while", "do", "switch", "case", "default", "try") or \
                    (par is not None and par.get("k") in ("if", "while", "for", "do") and S.contains(par.get("cond"), n))
                ctx.site()
                ctx.inst(used, "R15.16", "status-used:%s@%s" % (setup_fns[n["cid"]].name.split("::")[-1], f.name), f.loc(n),
                         "%s acts on the result of %s" % (f.name, setup_fns[n["cid"]].name),
                         "%s calls %s and drops its result: after a refused input it continues with a half-configured instance (assertions of the signature-hash code abort the process)" % (f.name, setup_fns[n["cid"]].name))
    ctx.floor("R15.16", n16, 6, "call sites of the set-up functions")

    # ---- R15.18 no variable-length array sized by input: a token read from stdin or typed at the prompt has no length limit
    # (argv words do: 128 KiB), so `char buf[strlen(token) + 1]` is a stack overflow waiting for a long enough token
    VLA_OK = {("cliargs::parse", "long_opts"): "sized by the number of options the program declares - a constant of each tool"}
    ctx.rule("R15.18", "no variable-length array sized by input in btcdeb-authored code")
    nvla = 0
    for f in sorted(fb.funcs.values(), key=lambda f_: f_.id):
        if f.body is None or f.file.startswith(("secp256k1", "test/", "kerl/")) or not (auth(f) or f.file in ("cliargs.h",)):
            continue
        for n in f.nodes():
            if n["k"] != "decl":
                continue
            for d in n["decls"]:
                ty = d.get("ty") or ""
                if "[" in ty and ty.endswith("]") and d.get("arraysize") is None and not ty.endswith("[]"):
                    nvla += 1
                    ctx.site()
                    why = VLA_OK.get((f.name, d["n"]))
                    ctx.inst(why is not None, "R15.18", "vla:%s@%s" % (d["n"], f.name), f.loc(n), "%s %s: %s" % (ty, d["n"], why),
                             "%s declares `%s %s`: the array lives on the stack and its size comes from the input (a token piped on stdin or typed at the prompt has no length limit): "
                             "`python3 -c \"print('1'*12000000)\" | btcdeb` overflows the stack" % (f.name, ty, d["n"]))
    ctx.extra["R15.18_vlas"] = nvla

    # ---- R15.19 a local character buffer that is read as a string has been written on every path: arrays declared without an
    # initialiser whose only writes are conditional are read uninitialised on the path that takes none of them
    ctx.rule("R15.19", "a local char buffer read as a string (returned, converted, formatted) is written on every path before that read")
    WRITERS = ("snprintf", "sprintf", "strcpy", "strncpy", "memset", "memcpy", "fgets", "fread", "read")
    n19 = 0
    seen19 = set()
    for f in sorted(fb.funcs.values(), key=lambda f_: f_.id):
        if not auth(f) and f.file not in ("debugger/interpreter.h", "value.h"):
            continue
        if f.body is None:
            continue
        fcfg = None
        for dn in f.nodes():
            if dn["k"] != "decl":
                continue
            for d in dn["decls"]:
                ty = d.get("ty") or ""
                if not (ty.startswith("char[") and d.get("arraysize")) or d.get("init") is not None:
                    continue
                aliases = {d["d"]}
                for m in f.nodes():
                    if m["k"] == "decl":
                        for d2 in m["decls"]:
                            i0 = d2.get("init")
                            while i0 is not None and i0.get("k") in ("cast", "paren"):
                                i0 = i0["e"]
                            if i0 is not None and i0.get("k") == "ref" and i0.get("d") == d["d"]:
                                aliases.add(d2["d"])

                def mentions(e):
                    return e is not None and any(x["k"] == "ref" and x.get("d") in aliases for x in walk(e))
                writes, reads = [], []
                for m in f.nodes():
                    if m["k"] == "call" and m.get("n") in WRITERS and m.get("args") and mentions(m["args"][0]):
                        writes.append(m)
                    elif m["k"] == "assign" and m["lhs"].get("k") == "index" and mentions(m["lhs"].get("base")):
                        writes.append(m)
                for m in f.nodes():
                    if m["k"] == "return" and mentions(m.get("e")):
                        reads.append(m)
                    elif m["k"] in ("call", "mcall", "ctor", "opcall") and m not in writes and m.get("n") not in WRITERS and any(mentions(a) for a in m.get("args", []) if a):
                        if m["k"] == "opcall" and m.get("op") in ("=", "+=", "-=", "++") and mentions(m["args"][0]) and not any(mentions(a) for a in m["args"][1:]):
                            continue      # pointer arithmetic on an alias, not a read of the bytes
                        reads.append(m)
                # reads inside a loop may rely on writes of earlier iterations (a fill loop that reports its own overflow): a
                # path-insensitive rule cannot judge those; only straight-line functions are decided
                reads = [r for r in reads if not any(a_.get("k") in ("while", "for", "do", "forrange") for a_ in f.ancestors(r))]
                if not reads:
                    continue
                if (f.file, f.loc(dn)) in seen19:
                    continue      # an inline function of a header is extracted once per unit
                seen19.add((f.file, f.loc(dn)))
                fcfg = fcfg or f.cfg()
                n19 += 1
                ctx.site()
                wblocks = fcfg.blocks_of_nodes(writes)
                dpos = fcfg.position(dn)
                start = dpos[0] if dpos else fcfg.entry
                free = fcfg.reachable_from(start, removed_blocks=wblocks) if start not in wblocks else set()
                unwritten = [r for r in reads if not any(fcfg.dominates(w, r) for w in writes) and fcfg.position(r) and fcfg.position(r)[0] in free]
                ctx.inst(not unwritten, "R15.19", "buffer-written-before-read:%s@%s" % (d["n"], f.name), f.loc(dn),
                         "every read of %s is dominated by a write" % d["n"],
                         "%s: `%s` at %s reads %s, which is declared without an initialiser and written only conditionally before it: on the path that takes none of the writes the bytes are "
                         "indeterminate (valgrind: conditional jump depends on uninitialised value)" % ((f.name, astq.estr(unwritten[0])[:40], f.loc(unwritten[0]), d["n"]) if unwritten else (f.name, "", "", d["n"])))
    ctx.floor("R15.19", n19, 1, "local char buffers read as strings outside loops")

    # ---- R15.20 a record kept by value in a std::vector is copied member by member when the vector grows: every scalar member
    # must be initialised by every constructor (an indeterminate enum / integer is loaded by the implicit copy constructor)
    ctx.rule("R15.20", "records stored by value in vectors initialise every scalar member in every constructor")
    import re as _re20
    elem_recs = set()
    for f in fb.funcs.values():
        if f.body is None or not (auth(f) or f.file in ("value.h",)):
            continue
        for n in f.nodes():
            if n["k"] == "decl":
                for d in n["decls"]:
                    m_ = _re20.match(r"(?:const )?std::vector<([A-Za-z_][A-Za-z_0-9:]*)>", (d.get("ty") or ""))
                    if m_ and m_.group(1) in fb.records and fb.records[m_.group(1)].get("file") in ("value.h", "instance.h", "debugger/interpreter.h", "debugger/see.h", "tap.cpp", "functions.cpp", "btcdeb.cpp"):
                        elem_recs.add(m_.group(1))
        for p_ in f.params:
            m_ = _re20.match(r"(?:const )?std::vector<([A-Za-z_][A-Za-z_0-9:]*)>", (p_.get("ty") or ""))
            if m_ and m_.group(1) in fb.records and fb.records[m_.group(1)].get("file") in ("value.h", "instance.h", "debugger/interpreter.h", "debugger/see.h", "tap.cpp", "functions.cpp", "btcdeb.cpp"):
                elem_recs.add(m_.group(1))

    def is_scalar(ty):
        t = (ty or "").replace("const ", "").strip()
        return t.endswith("*") or t.startswith("enum ") or t in ("int", "bool", "char", "unsigned int", "size_t", "int64_t", "uint32_t", "uint8_t", "uint64_t", "long", "unsigned long", "opcodetype", "SigVersion", "unsigned char")
    n20 = 0
    for rn in sorted(elem_recs):
        sc = [fl["n"] for fl in fb.records[rn].get("fields", []) if is_scalar(fl.get("ty"))]
        ctors = [c for c in fb.funcs.values() if c.rec == rn and c.short == rn.split("::")[-1] and c.body is not None]
        if not sc or not ctors:
            continue
        n20 += 1
        ctx.site(len(ctors))
        gaps = []
        for c in ctors:
            if any(i.get("delegating") for i in c.d.get("inits", [])):
                continue      # a delegating constructor: the members are the target constructor's business
            inited = {i.get("field") for i in c.d.get("inits", []) if i.get("field")}
            # assignments that are statements of the constructor's body itself (before anything conditional) initialise as well
            for st in (c.body.get("ch", []) if c.body.get("k") == "block" else []):
                if st is None or st.get("k") not in ("assign", "decl", "call", "mcall", "opcall"):
                    break
                if st["k"] == "assign" and st.get("op") == "=" and st["lhs"].get("k") == "mem" and (st["lhs"].get("base") or {}).get("k") == "this":
                    inited.add(st["lhs"]["n"])
            miss = [x for x in sc if x not in inited]
            if miss:
                gaps.append((c.params[0].get("ty") if c.params else "()", miss))
        ctx.inst(not gaps, "R15.20", "members-initialised:" + rn, ctors[0].loc(),
                 "every constructor of %s initialises %s (default member initialisers count)" % (rn, ", ".join(sc)),
                 "%s(%s) leaves %s without an initialiser; %s objects are kept by value in a std::vector, whose growth copies every member: "
                 "the copy loads an indeterminate value (UBSan: load of value 3200171710, which is not a valid value for type 'opcodetype')" % ((rn, gaps[0][0], ", ".join(gaps[0][1]), rn) if gaps else (rn, "", "", rn)))
    ctx.floor("R15.20", n20, 1, "records stored by value in vectors")

    # ---- R15.21 closed dispatch on an enum parameter: a function that aborts for some enumerators of a parameter (a `switch`
    # whose default / fall-out is assert(false), an unconditional `assert(p == A || p == B)`) may only be called with the others.
    # For every call site G-SYM enumerates the caller's paths: the argument is a constant, or the conditions decided before the
    # call leave only accepted values; an argument that is the caller's own unassigned parameter makes that parameter closed in
    # turn (the obligation moves to the caller's callers).
    ctx.rule("R15.21", "a function that aborts for some enumerators of a parameter is only called with the others (decided on every path to the call)")
    closed = closed_enum_params(fb)
    work = list(closed.items())
    done21 = set()
    n21 = 0
    skipped21 = []
    while work:
        (gid, pi), (enum, okv, why) = work.pop(0)
        if (gid, pi) in done21:
            continue
        done21.add((gid, pi))
        g = fb.funcs[gid]
        allv = {c_["v"]: c_["n"] for c_ in enum["consts"]}
        targets = {gid} | {b_ for b_ in g.d.get("overrides", [])}
        for f in sorted(fb.funcs.values(), key=lambda f_: f_.id):
            if f.body is None:
                continue
            calls = [n for n in f.nodes() if n["k"] in ("call", "mcall", "ctor") and n.get("cid") in targets and len(n.get("args", [])) > pi and n["args"][pi] is not None]
            if not calls:
                continue
            if (f.file, f.line, gid, pi) in done21:
                continue      # instantiations of one template
            done21.add((f.file, f.line, gid, pi))
            for cn in calls:
                a = cn["args"][pi]
                key = "closed-dispatch:%s(%s)@%s" % (g.name.split("(")[0].split("<")[0], g.params[pi]["n"], f.name.split("(")[0].split("<")[0])
                cv = astq.const_value(a)
                ctx.site()
                if cv is not None:
                    n21 += 1
                    ctx.inst(cv in okv, "R15.21", key, f.loc(cn), "%s is passed %s, which %s handles" % (g.name, allv.get(cv, cv), g.name),
                             "%s calls %s with %s = %s, for which %s" % (f.name, g.name, g.params[pi]["n"], allv.get(cv, cv), why))
                    continue
                a0 = a
                while a0 is not None and a0.get("k") in ("cast", "paren"):
                    a0 = a0["e"]
                if len(f.nodes()) > 900:
                    skipped21.append("%s: too large to enumerate" % f.name)
                    continue
                # small helpers are part of the caller's decision (a predicate such as `static bool HasSchnorrSighash(SigVersion)`)
                X = _sx.Explorer(prog, inline=lambda fn, n_: fn.body is not None and fn.id not in targets and len(fn.nodes()) <= 60 and (auth(fn) or fn.file == f.file),
                                 transparent=lambda n_: True)
                try:
                    outs = X.explore(f, this=("a", "this"), limit=600)
                except _sx.Unsupported as e:
                    skipped21.append("%s: %s" % (f.name, str(e)[:50]))
                    continue
                bad21 = None
                passthrough = None
                fieldflow = None
                seen_call = 0
                for o in outs:
                    for e in o.events:
                        if e.node is not cn or e.func is not f:
                            continue
                        seen_call += 1
                        ts = e.terms[1:] if e.kind == "mcall" else e.terms
                        if pi >= len(ts):
                            continue
                        t = ts[pi]
                        feas = set(allv)
                        if _sx.is_const(t):
                            feas = {t[1]}
                        else:
                            for (c_, v_) in o.conds[:e.nconds]:
                                if c_ == t:
                                    feas = feas - {0} if v_ else feas & {0}
                                elif isinstance(c_, tuple) and c_[0] == "eq" and t in c_[1:3]:
                                    k_ = c_[2] if c_[1] == t else c_[1]
                                    if _sx.is_const(k_):
                                        feas = feas & {k_[1]} if v_ else feas - {k_[1]}
                        if feas <= okv:
                            continue
                        if t[0] == "a" and any(p_["n"] == t[1] for p_ in f.params) and a0 is not None and a0.get("k") == "ref" and a0.get("dk") == "parm":
                            passthrough = [i_ for i_, p_ in enumerate(f.params) if p_["n"] == t[1]][0]
                            continue
                        if t[0] == "f" and t[1] == ("a", "this") and f.rec:
                            # a member set once, from a constructor parameter or a constant: the obligation moves to the constructors
                            fld = t[2]
                            ctors = [c_ for c_ in fb.funcs.values() if c_.rec == f.rec and c_.short == f.rec.split("::")[-1].split("<")[0] and c_.body is not None
                                     and (c_.name.split("::")[0] == f.name.split("::")[0])]
                            rewritten = [m_ for m_ in fb.funcs.values() if m_.rec == f.rec and m_.body is not None and m_ not in ctors and
                                         any(x["k"] in ("bin", "opcall") and (x.get("op") or "").endswith("=") and x.get("op") not in ("==", "!=", "<=", ">=") and
                                             (x.get("lhs") or (x.get("args") or [None])[0] or {}).get("k") == "mem" and (x.get("lhs") or x["args"][0]).get("n") == fld for x in m_.nodes())]
                            srcs = []
                            for c_ in ctors:
                                ini = [i_ for i_ in c_.d.get("inits", []) if i_.get("field") == fld and i_.get("written")]
                                e_ = ini[0]["e"] if ini else None
                                while e_ is not None and e_.get("k") in ("cast", "paren"):
                                    e_ = e_["e"]
                                if e_ is not None and e_.get("k") == "ref" and e_.get("dk") == "parm":
                                    srcs.append((c_, [i_ for i_, p_ in enumerate(c_.params) if p_["d"] == e_["d"]][0]))
                                elif e_ is not None and astq.const_value(e_) is not None and astq.const_value(e_) in okv:
                                    srcs.append((c_, None))
                                else:
                                    srcs = None
                                    break
                            if ctors and srcs is not None and not rewritten:
                                fieldflow = (fld, srcs)
                                continue
                        bad21 = (_sx.show(t)[:50], sorted(allv[v_] for v_ in feas - okv))
                if not seen_call:
                    skipped21.append("%s: the call is on no enumerated path" % f.name)
                    continue
                n21 += 1
                if fieldflow is not None and bad21 is None:
                    ctx.ok("R15.21", key, f.loc(cn), "%s passes the member `%s`, which only the constructors set (from a parameter or an accepted constant): the obligation moves to the constructors' callers" % (f.name, fieldflow[0]))
                    for (c_, i_) in fieldflow[1]:
                        if i_ is not None:
                            work.append(((c_.id, i_), (enum, okv, why + " (through the member %s)" % fieldflow[0])))
                    continue
                if passthrough is not None and bad21 is None:
                    ctx.ok("R15.21", key, f.loc(cn), "%s hands its own parameter `%s` on: the obligation moves to its callers" % (f.name, f.params[passthrough]["n"]))
                    work.append(((f.id, passthrough), (enum, okv, why + " (through %s)" % f.name.split("(")[0])))
                    continue
                ctx.inst(bad21 is None, "R15.21", key, f.loc(cn),
                         "on every path of %s to the call, %s is one of %s" % (f.name, g.params[pi]["n"], ", ".join(sorted(allv[v_] for v_ in okv))),
                         "%s calls %s with %s = `%s`, which the path leaves free to be %s: %s" % ((f.name, g.name, g.params[pi]["n"], bad21[0], " / ".join(bad21[1]), why) if bad21 else (f.name, g.name, "", "", "", "")))
    ctx.extra["R15.21_closed_parameters"] = sorted("%s(%s)" % (fb.funcs[k_[0]].name.split("(")[0], fb.funcs[k_[0]].params[k_[1]]["n"]) for k_ in closed)
    ctx.extra["R15.21_not_explored"] = sorted(set(skipped21))
    ctx.floor("R15.21", len(closed), 1, "functions aborting for some enumerators of a parameter")
    ctx.floor("R15.21", n21, 2, "call sites of such functions")

    # ---- R15.22 a stream that could not be opened is not used: fopen returns null for a path that cannot be opened (a read-only
    # working directory for the history file, a missing data set); every use of the result lies on the non-null side of a test.
    ctx.rule("R15.22", "the result of fopen is tested, and not used on the null side")
    from .common import call_result_edges, null_test_edges
    n22 = 0
    for f in sorted(fb.funcs.values(), key=lambda f_: f_.id):
        if f.body is None or not auth(f) or (f.file, f.line, "R15.22") in done21:
            continue
        opens = [n for n in f.nodes() if n["k"] == "call" and n.get("n") in ("fopen", "fdopen", "popen", "freopen")]
        if not opens:
            continue
        done21.add((f.file, f.line, "R15.22"))
        fcfg = f.cfg()
        for cn in opens:
            n22 += 1
            ctx.site()
            holder = None
            for n in f.nodes():
                if n["k"] == "decl":
                    for d in n["decls"]:
                        if d.get("init") is cn:
                            holder = d["d"]
                if n["k"] == "assign" and n["rhs"] is cn and n["lhs"].get("k") == "ref":
                    holder = n["lhs"].get("d")
            if holder is not None:
                succ, fail = null_test_edges(f, fcfg, holder)
            else:
                succ, fail = call_result_edges(f, fcfg, cn)
            why22 = None
            if fail is None:
                why22 = "its result is never compared with null"
            elif holder is not None:
                nullside = fcfg.reachable_from(fail)
                for n in f.nodes():
                    if n["k"] == "ref" and n.get("d") == holder:
                        par = f.parent(n)
                        pos = fcfg.position(n)
                        if par is not None and par.get("k") in ("call", "mcall") and pos is not None and pos[0] in nullside:
                            why22 = "`%s` at line %s uses it where the test found it null" % (astq.estr(par)[:50], n.get("l"))
            ctx.inst(why22 is None, "R15.22", "stream-opened:%s@%s" % (astq.estr(cn["args"][0])[:30] if cn.get("args") else "?", f.name), f.loc(cn),
                     "the stream is used only where the open succeeded",
                     "%s opens %s and %s: when the path cannot be opened (read-only directory, missing file) the null stream is handed to the C library - segmentation fault" % (f.name, astq.estr(cn["args"][0])[:40] if cn.get("args") else "?", why22))
    ctx.floor("R15.22", n22, 2, "fopen call sites in btcdeb-authored code")

    # ---- R15.23 memcpy / memmove / memcmp / memset take pointers that are never null, even for a length of zero; data() of an empty
    # std::vector may be null. Where the length is not a positive constant and the vector is a local or a member of the object
    # (its emptiness is this function's business), the call sits under a test of the vector's size / emptiness or of the length.
    # Vectors reached through a parameter are the callers' business and are listed, not judged.
    ctx.rule("R15.23", "data() of a possibly empty std::vector is not handed to memcpy / memmove / memcmp / memset with a length that may be zero")
    n23 = 0
    callers23 = []
    for f in sorted(fb.funcs.values(), key=lambda f_: f_.id):
        if f.body is None or not auth(f) or (f.file, f.line, "R15.23") in done21:
            continue
        memcalls = [n for n in f.nodes() if n["k"] == "call" and n.get("n") in ("memcpy", "memmove", "memcmp", "memset") and n.get("args")]
        if not memcalls:
            continue
        done21.add((f.file, f.line, "R15.23"))
        for cn in memcalls:
            ln_ = cn["args"][-1]
            cv = astq.const_value(ln_)
            ptrs = cn["args"][:1] if cn["n"] == "memset" else cn["args"][:2]
            for a in ptrs:
                a0 = a
                while a0 is not None and a0.get("k") in ("cast", "paren"):
                    a0 = a0["e"]
                if not (a0 is not None and a0.get("k") == "mcall" and a0.get("n") == "data" and a0.get("objct") == "std::vector" and a0.get("obj") is not None):
                    continue
                n23 += 1
                ctx.site()
                key = "non-null-pointer:%s@%s" % (astq.estr(a0)[:30], f.name)
                if cv is not None and cv > 0:
                    ctx.ok("R15.23", key, f.loc(cn), "the length is the positive constant %s (that the vector holds as many bytes is R15.7's business)" % cv)
                    continue
                root = a0["obj"]
                while root is not None and root.get("k") in ("mem", "cast", "paren") and root.get("base" if root["k"] == "mem" else "e") is not None:
                    root = root["base" if root["k"] == "mem" else "e"]
                if not (root is not None and (root.get("k") == "this" or (root.get("k") == "ref" and root.get("dk") == "local"))):
                    callers23.append("%s: %s" % (f.loc(cn), astq.estr(a0)[:40]))
                    ctx.ok("R15.23", key, f.loc(cn), "the vector is reached through a parameter: listed, its emptiness is the callers' business")
                    continue
                otxt = astq.estr(a0["obj"])
                ltxt = astq.estr(ln_)
                atoms = S.guard_atoms(f, cn) + [(f.node_by_id(c_), t_) for (c_, t_) in f.cfg().guards_of(cn)]
                guarded = any(g_ is not None and ((otxt + ".empty()") in astq.estr(g_) or (otxt + ".size()") in astq.estr(g_) or ltxt in astq.estr(g_)) for (g_, _t) in atoms)
                ctx.inst(guarded, "R15.23", key, f.loc(cn), "the call is under a test of the vector's size or of the length",
                         "%s hands %s to %s with the length `%s`, which may be zero while the vector is empty (its data() is then null): undefined behaviour "
                         "(UBSan: null pointer passed as argument, which is declared to never be null)" % (f.name, astq.estr(a0)[:40], cn["n"], ltxt[:40]))
    ctx.extra["R15.23_left_to_callers"] = callers23
    ctx.floor("R15.23", n23, 2, "vector data() pointers handed to the mem* functions")

    # ---- R15.24 a buffer sized by a counting pass holds what the writing pass stores: where a function walks the bytes of a string
    # parameter twice - a pass that only counts (`escapes++` under a switch, an `||` chain or a predicate helper over the byte)
    # feeding `malloc(len + count + 1)`, and a switch that stores through a moving pointer - every byte value is written with at most
    # 1 + (what the first pass counted for it) bytes.
    ctx.rule("R15.24", "per byte value, the writing pass stores no more bytes than the sizing pass counted (escape tables agree)")
    n24 = 0

    def _byte_of_param(e):
        """declaration key of the string parameter if e is `param[index]`"""
        while e is not None and e.get("k") in ("cast", "paren"):
            e = e["e"]
        if e is not None and e.get("k") == "index":
            b0 = e["base"]
            while b0 is not None and b0.get("k") == "cast":
                b0 = b0["e"]
            if b0 is not None and b0.get("k") == "ref" and b0.get("dk") == "parm":
                return b0["d"]
        return None

    def _stores_in(stmts):
        k_ = 0
        for st in stmts:
            for x in walk(st):
                if x["k"] == "assign" and x["lhs"].get("k") == "un" and x["lhs"].get("op") == "*" and any(y["k"] == "un" and "++" in (y.get("op") or "") for y in walk(x["lhs"])):
                    k_ += 1
                elif x["k"] == "assign" and x["lhs"].get("k") == "index" and any(y["k"] == "un" and "++" in (y.get("op") or "") for y in walk(x["lhs"].get("idx") or x["lhs"])):
                    k_ += 1
        return k_

    def _incs_in(stmts):
        out = {}
        for st in stmts:
            for x in walk(st):
                if x["k"] == "un" and "++" in (x.get("op") or "") and x["e"].get("k") == "ref" and x["e"].get("dk") == "local":
                    out[x["e"]["n"]] = out.get(x["e"]["n"], 0) + 1
                elif x["k"] == "cassign" and x.get("op") == "+=" and x["lhs"].get("k") == "ref" and astq.const_value(x["rhs"]) is not None:
                    out[x["lhs"]["n"]] = out.get(x["lhs"]["n"], 0) + astq.const_value(x["rhs"])
        return out

    def _switch_table(sw, fn):
        m, d = {}, None
        for g_ in S.case_groups(sw):
            if g_.switch is not sw:
                continue
            for (_nm, v, _n) in g_.labels:
                if v == "default":
                    d = fn(g_.stmts)
                else:
                    m[v] = fn(g_.stmts)
        return m, d

    def _truth_table(g, cond, is_byte, depth=0):
        """({byte value: 1} for the values the predicate `cond` of the byte holds for, 0 for the rest) or None: an || chain of
        `byte == constant`, or a call of a one-parameter repository predicate (a switch / || chain over its parameter returning
        constants)"""
        while cond is not None and cond.get("k") in ("cast", "paren"):
            cond = cond["e"]
        if cond is None:
            return None
        if cond.get("k") == "bin" and cond.get("op") == "||":
            a, b = _truth_table(g, cond["lhs"], is_byte, depth), _truth_table(g, cond["rhs"], is_byte, depth)
            return None if a is None or b is None else dict(a, **b)
        if cond.get("k") == "bin" and cond.get("op") == "==":
            for x, y in ((cond["lhs"], cond["rhs"]), (cond["rhs"], cond["lhs"])):
                if is_byte(x) and astq.const_value(y) is not None:
                    return {astq.const_value(y): 1}
            return None
        if cond.get("k") == "bin" and cond.get("op") == "!=" and astq.const_value(cond["rhs"]) == 0:
            return _truth_table(g, cond["lhs"], is_byte, depth)
        if cond.get("k") == "call" and len(cond.get("args", [])) == 1 and is_byte(cond["args"][0]) and depth < 2:
            hs = [h for h in (prog.resolve(cond["cid"]) if cond.get("cid") else []) if h.body is not None and len(h.params) == 1]
            if len(hs) != 1:
                return None
            h = hs[0]
            pd = h.params[0]["d"]

            def is_p(e):
                while e is not None and e.get("k") in ("cast", "paren"):
                    e = e["e"]
                return e is not None and e.get("k") == "ref" and e.get("d") == pd
            sws_ = [w for w in S.find_switches(h) if is_p(w["cond"])]
            if len(sws_) == 1:
                def ret_const(stmts):
                    for st in stmts:
                        for x in walk(st):
                            if x["k"] == "return" and x.get("e") is not None and astq.const_value(x["e"]) is not None:
                                return astq.const_value(x["e"])
                    return None
                m_, d_ = _switch_table(sws_[0], ret_const)
                if any(v_ is None for v_ in m_.values()) or d_ not in (0, None):
                    return None
                return {k_: 1 for k_, v_ in m_.items() if v_}
            rets = [x for x in h.nodes() if x["k"] == "return" and x.get("e") is not None]
            if len(rets) == 1:
                return _truth_table(h, rets[0]["e"], is_p, depth + 1)
        return None
    for f in sorted(fb.funcs.values(), key=lambda f_: f_.id):
        if f.body is None or not auth(f) or (f.file, f.line, "R15.24") in done21:
            continue
        wsw = [(sw, _byte_of_param(sw["cond"])) for sw in S.find_switches(f)]
        wsw = [(sw, d_) for (sw, d_) in wsw if d_ is not None and any(_stores_in(g_.stmts) for g_ in S.case_groups(sw) if g_.switch is sw)]
        if not wsw:
            continue
        done21.add((f.file, f.line, "R15.24"))
        for (swB, dB) in wsw:
            def is_byte(e, d_=dB):
                return _byte_of_param(e) == d_
            # the sizing pass over the same parameter: a counting switch, or `if (<predicate of the byte>) counter++`
            sizing = []
            for sw in S.find_switches(f):
                if sw is not swB and _byte_of_param(sw["cond"]) == dB and not any(_stores_in(g_.stmts) for g_ in S.case_groups(sw) if g_.switch is sw):
                    cs = set()
                    for g_ in S.case_groups(sw):
                        cs |= set(_incs_in(g_.stmts))
                    if len(cs) == 1:
                        cnt = list(cs)[0]
                        sizing.append((cnt,) + _switch_table(sw, lambda st, c_=cnt: _incs_in(st).get(c_, 0)))
            for n in f.nodes():
                if n["k"] == "if" and n.get("else") is None and not S.contains(swB, n):
                    inc = _incs_in([n["then"]])
                    if len(inc) == 1 and not _stores_in([n["then"]]):
                        tt = _truth_table(f, n["cond"], is_byte)
                        if tt is not None:
                            cnt = list(inc)[0]
                            sizing.append((cnt, {k_: inc[cnt] for k_ in tt}, 0))
            sizing = [z for z in sizing if any(n["k"] == "call" and n.get("n") in ("malloc", "realloc") and n.get("args") and z[0] in astq.estr(n["args"][-1]) for n in f.nodes())]
            if len(sizing) != 1:
                continue
            cnt, cA, dfA = sizing[0]
            n24 += 1
            ctx.site()
            wB, dfB = _switch_table(swB, _stores_in)
            bad24 = []
            for v in sorted(set(cA) | set(wB), key=str):
                counted = cA.get(v, dfA or 0)
                written = wB.get(v, dfB if dfB is not None else 0)
                if written > 1 + counted:
                    bad24.append((v, written, 1 + counted))
            if (dfB or 0) > 1 + (dfA or 0):
                bad24.append(("any other byte", dfB, 1 + (dfA or 0)))
            ctx.inst(not bad24, "R15.24", "sizing-and-writing-agree@" + f.name, f.loc(swB),
                     "for every byte value the writing switch of %s stores at most 1 + the %s counted by the sizing pass (%d labelled values)" % (f.name, cnt, len(set(cA) | set(wB))),
                     "%s stores %s byte(s) for the byte value %s but its sizing pass reserved %s: the buffer sized with `%s` is overrun by one byte per such character (heap overflow)"
                     % ((f.name, bad24[0][1], repr(chr(bad24[0][0])) if isinstance(bad24[0][0], int) and 0 <= bad24[0][0] < 128 else bad24[0][0], bad24[0][2], cnt) if bad24 else (f.name, "", "", "", "")))
    ctx.floor("R15.24", n24, 1, "functions with a sizing pass and a writing pass over the same string")

    # ---- R15.25 an unsigned difference does not wrap: `C.size() - e` with a varying e is evaluated only where e <= C.size() has been
    # decided (a dominating comparison of the same two operands, or the condition of the ?: it sits in). A wrapped difference used
    # as an offset passes a later `begin + size > C.size()` test again (the sum wraps back) and addresses memory before the buffer.
    ctx.rule("R15.25", "an unsigned size difference with a varying subtrahend is evaluated only where the subtrahend does not exceed the size")

    def _norm25(e):
        while e is not None and (e.get("k") in ("cast", "paren") or (e.get("k") == "mcall" and e.get("n") in ("getint",) and e.get("obj") is not None)):
            e = e["e"] if e.get("k") in ("cast", "paren") else e["obj"]
        return astq.estr(e) if e is not None else None

    def _decides_le(cn, truth, small, big):
        """the condition node cn with outcome `truth` implies small <= big (operands compared by spelling, casts and .getint() dropped)"""
        while cn is not None and cn.get("k") in ("cast", "paren"):
            cn = cn["e"]
        if cn is None:
            return False
        if cn.get("k") == "bin" and cn.get("op") in ("&&", "||"):
            # a && b true: both hold; a || b false: both fail
            if (cn["op"] == "&&") == bool(truth):
                return _decides_le(cn["lhs"], truth, small, big) or _decides_le(cn["rhs"], truth, small, big)
            return False
        if cn.get("k") == "un" and cn.get("op") == "!":
            return _decides_le(cn["e"], not truth, small, big)
        op = cn.get("op")
        if cn.get("k") == "bin":
            a, b = cn["lhs"], cn["rhs"]
        elif cn.get("k") == "opcall" and len(cn.get("args", [])) == 2:
            a, b = cn["args"]
        else:
            return False
        if op not in ("<", "<=", ">", ">="):
            return False
        ta, tb = _norm25(a), _norm25(b)
        if {ta, tb} != {small, big}:
            return False
        if ta == big:      # big op small  ->  small op' big
            op = {"<": ">", "<=": ">=", ">": "<", ">=": "<="}[op]
        # now: small op big
        return (op in ("<", "<=") and bool(truth)) or (op == ">" and not truth)
    n25 = 0
    for f in sorted(fb.funcs.values(), key=lambda f_: f_.id):
        if f.body is None or not auth(f) or (f.file, f.line, "R15.25") in done21:
            continue
        subs = []
        for n in f.nodes():
            if n["k"] == "bin" and n.get("op") == "-" and astq.const_value(n["rhs"]) is None:
                l0 = n["lhs"]
                while l0 is not None and l0.get("k") in ("cast", "paren"):
                    l0 = l0["e"]
                if l0 is not None and l0.get("k") == "mcall" and l0.get("n") in ("size", "length") and "unsigned" in (n.get("ty") or "unsigned"):
                    subs.append(n)
        if not subs:
            continue
        done21.add((f.file, f.line, "R15.25"))
        fcfg = f.cfg()
        for n in subs:
            n25 += 1
            ctx.site()
            big, small = _norm25(n["lhs"]), _norm25(n["rhs"])
            decided = any(_decides_le(f.node_by_id(c_), t_, small, big) for (c_, t_) in fcfg.guards_of(n))
            if not decided:
                child = n
                for a in f.ancestors(n):
                    if a.get("k") == "cond" and a.get("cond") is not None and not S.contains(a["cond"], n):
                        side = S.contains(a.get("then"), n)
                        if _decides_le(a["cond"], side, small, big):
                            decided = True
                    if a.get("k") == "if" and a.get("cond") is not None and not S.contains(a["cond"], n):
                        if _decides_le(a["cond"], S.contains(a.get("then"), n), small, big):
                            decided = True
                    child = a
            ctx.inst(decided, "R15.25", "difference-does-not-wrap:%s@%s" % (astq.estr(n)[:40], f.name), f.loc(n),
                     "`%s` is evaluated where %s <= %s has been decided" % (astq.estr(n)[:50], small, big),
                     "%s evaluates `%s` without having decided %s <= %s: for a larger %s the unsigned difference wraps to a huge value (as an offset it addresses memory before the buffer, and a later `offset + n > size` test wraps back and passes)"
                     % (f.name, astq.estr(n)[:60], small, big, small))
    ctx.floor("R15.25", n25, 1, "unsigned size differences with a varying subtrahend")

    # ---- R15.26 `amounts` is subscripted by the input index (R03.1): every successful path of parse_transaction leaves it with at
    # least one entry per input - padded by the `while (amounts.size() < vin.size()) push_back` loop, resized to vin.size(), or
    # decided not to be shorter. (A path that keeps a shorter list makes amounts[txin_index] a write behind the vector.)
    ctx.rule("R15.26", "every successful path of parse_transaction leaves one amount per transaction input")
    ptx = fb.fn("Instance::parse_transaction", file="instance.cpp")
    X26 = _sx.Explorer(prog, inline=lambda fn, n_: False, transparent=lambda n_: True)
    try:
        outs26 = [o for o in X26.explore(ptx, this=("a", "this"), limit=4000) if o.status == "ret" and o.ret == _sx.C(1)]
    except _sx.Unsupported as e:
        raise AnalysisBroken("R15.26: parse_transaction was not evaluated (%s)" % str(e)[:60])

    def vin_size(t):
        return isinstance(t, tuple) and t[:2] == ("ap", "m:size") and isinstance(t[2], tuple) and t[2][0] == "f" and t[2][2] == "vin"
    bad26 = None
    for o in outs26:
        a = o.heap.get((("a", "this"), "amounts"), ("f", ("a", "this"), "amounts"))
        ok26 = False
        if isinstance(a, tuple) and a[:2] == ("ap", "loopvar") and isinstance(a[2], tuple) and a[2][:2] == ("ap", "while"):
            c_ = a[2][2]
            ok26 = isinstance(c_, tuple) and c_[:2] == ("ap", "<") and isinstance(c_[2], tuple) and c_[2][:2] == ("ap", "m:size") and vin_size(c_[3]) and \
                isinstance(a[3], tuple) and a[3][:2] == ("ap", "mut:push_back")
        if not ok26 and isinstance(a, tuple) and a[:2] == ("ap", "mut:resize") and len(a) >= 4 and vin_size(a[3]):
            ok26 = True
        if not ok26:
            for (t_, v_) in o.conds:
                if isinstance(t_, tuple) and t_[:2] == ("ap", "<") and len(t_) == 4 and t_[2] == ("ap", "m:size", a) and vin_size(t_[3]) and not v_:
                    ok26 = True
        if not ok26:
            bad26 = _sx.show(a)[:90]
    ctx.site(len(outs26))
    ctx.floor("R15.26", len(outs26), 1, "successful paths of parse_transaction")
    ctx.inst(bad26 is None, "R15.26", "one-amount-per-input", ptx.loc(), "on all %d successful paths `amounts` is padded / resized to the number of inputs" % len(outs26),
             "a successful path of parse_transaction leaves amounts as `%s` - possibly shorter than vin: configure_tx_txin's `amounts[txin_index] = ...` then writes behind the vector (--tx=<k amounts>:<hex> with the spent output referenced by input #k or later)"
             % (bad26 or ""))

    # ---------------------------------------------------------------- R15.9
    ev = fb.fn("Instance::eval", file="instance.cpp")
    opstep = fb.fn("StepScript", file="script/interpreter.cpp")
    # in the operation step: every store of `pc` (the iterator parameter) into a session field must be under !local_script
    al = astq.aliases(opstep)
    stores = []
    for n in opstep.nodes():
        if n["k"] == "opcall" and n["op"] == "=" and len(n["args"]) == 2:
            r = n["args"][1]
            if r.get("k") == "ref" and r.get("dk") == "parm" and r["n"] == "pc":
                lps = astq.paths(n["args"][0], al)
                if any(p[0][0] == "parm" and len(p) > 1 for p in lps):
                    stores.append(n)
    ctx.floor("R15.9", len(stores), 1, "stores of the script iterator into the session (OP_CODESEPARATOR)")
    for sn in stores:
        ctx.site()
        atoms = S.guard_atoms(opstep, sn) + [(opstep.node_by_id(c), t) for (c, t) in opstep.cfg().guards_of(sn)]
        guarded = False
        for (a, t) in atoms:
            if a is None:
                continue
            a2, neg = S.strip_not(a)
            if a2 is not None and a2.get("k") == "ref" and a2["n"] == "local_script" and (t != neg) is False:
                guarded = True
        ctx.inst(guarded, "R15.9", "iterator-store:%s" % astq.estr(sn["args"][0]), opstep.loc(sn),
                 "the iterator is stored in the session only when the step runs on the session's own script",
                 "`%s` stores an iterator into the script being stepped; under `exec` that script is a temporary of Instance::eval, so the session keeps a dangling iterator (used by the next signature check)" % astq.estr(sn))


def closed_enum_params(fb):
    """{(function id, parameter index): (enum record, accepted values, why)} - parameters of a small enum type for some of whose
    enumerators every path of the function ends in abort / a failed assertion:
      * `switch (p)` that every path to the function's exit passes, where the label (or the default / the fall-out) a value goes
        to cannot reach the exit or an exit() call;
      * an assertion every path passes whose condition is p == A || p == B ... ."""
    from ..cfg import CFG
    out = {}
    seen = set()
    for f in fb.funcs.values():
        if f.body is None or not f.d.get("cfg") or (f.file, f.line) in seen:
            continue
        enum_params = []
        for i, p_ in enumerate(f.params):
            es = [e for e in fb.enums if e["name"] == (p_.get("ct") or "").split("::")[-1] and 2 <= len(e["consts"]) <= 8]
            if es and not (p_.get("ty") or "").rstrip().endswith(("&", "*")):
                enum_params.append((i, p_, es[0]))
        if not enum_params:
            continue
        seen.add((f.file, f.line))
        cfg = None
        for (i, p_, enum) in enum_params:
            def is_p(e, d=p_["d"]):
                while e is not None and e.get("k") in ("cast", "paren"):
                    e = e["e"]
                return e is not None and e.get("k") == "ref" and e.get("dk") == "parm" and e.get("d") == d
            if any((n["k"] == "bin" and n["op"].endswith("=") and n["op"] not in ("==", "!=", "<=", ">=") and is_p(n["lhs"])) or
                   (n["k"] == "un" and n["op"] == "&" and is_p(n["e"])) for n in f.nodes()):
                continue      # re-assigned: the value at the dispatch is not the argument
            allv = {c_["v"] for c_ in enum["consts"]}
            cfg = cfg or CFG(f)
            abort_blocks = {b for b, blk in cfg.blocks.items() if blk.get("noret") and
                            any((f.node_by_id(x) or {}).get("k") == "call" and (f.node_by_id(x) or {}).get("n") in ("abort", "__assert_fail") for x in blk["el"])}
            other_noret = {b for b, blk in cfg.blocks.items() if blk.get("noret")} - abort_blocks

            def aborting(b):
                r = cfg.reachable_from(b, removed_blocks=abort_blocks - {b}) if b not in abort_blocks else {b}
                return b in abort_blocks or (cfg.exit not in r and not (r & other_noret) and
                                             any(s_ in abort_blocks for x in r for s_ in cfg.succs(x)))
            for sw in S.find_switches(f, lambda n: is_p(n["cond"])):
                ids = {x["id"] for x in walk(sw)}
                label_blocks = {blk["label"]: b for b, blk in cfg.blocks.items() if blk.get("label") in ids}
                heads = [b for b, blk in cfg.blocks.items() if blk.get("term") == sw["id"]]
                if not heads or not cfg.must_pass_from_block(cfg.entry, [sw["cond"]]):
                    continue
                goes = {}
                dflt = None
                for grp in S.case_groups(sw):
                    if grp.switch is not sw:
                        continue
                    blks = [label_blocks[l[2]["id"]] for l in grp.labels if l[2]["id"] in label_blocks]
                    if not blks:
                        continue
                    for (_nm, v, _n) in grp.labels:
                        if v == "default":
                            dflt = blks[0]
                        else:
                            goes[v] = blks[0]
                if dflt is None:
                    fall = [s_ for s_ in cfg.succs(heads[0]) if s_ not in label_blocks.values()]
                    dflt = fall[0] if fall else None
                okv = set()
                for v in allv:
                    b = goes.get(v, dflt)
                    if b is None or not aborting(b):
                        okv.add(v)
                if okv != allv and okv:
                    out[(f.id, i)] = (enum, okv, "the switch of %s at %s ends in assert(false) / abort()" % (f.name.split("(")[0], f.loc(sw)))
            for n in f.nodes():
                if n["k"] == "cond" and any(x["k"] == "call" and x.get("n") == "__assert_fail" for x in walk(n)):
                    def disj(e):
                        while e is not None and e.get("k") in ("cast", "paren"):
                            e = e["e"]
                        if e is not None and e.get("k") == "bin" and e.get("op") == "||":
                            return disj(e["lhs"]) + disj(e["rhs"])
                        return [e]
                    names = set()
                    for d_ in disj(n["cond"]):
                        one = S.compared_enumerators(d_, is_p) if d_ is not None else None
                        if not one:
                            names = None
                            break
                        names |= one
                    if names and cfg.must_pass_from_block(cfg.entry, list(walk(n["cond"]))):
                        okv = {c_["v"] for c_ in enum["consts"] if any(q.split("::")[-1] == c_["n"] for q in names)}
                        if okv and okv != allv:
                            prev = out.get((f.id, i))
                            out[(f.id, i)] = (enum, okv & prev[1] if prev else okv, "%s asserts `%s` at %s" % (f.name.split("(")[0], astq.estr(n["cond"])[:60], f.loc(n)))
    return out


def upper_bound_from_guard(cn, t, vtxt):
    """largest value of the variable vtxt admitted by the guard `cn` having truth t (constant bound), or None:
    v < K / v <= K holding, v >= K / v > K failing, and the mirrored spellings"""
    if cn is None or cn.get("k") != "bin" or cn.get("op") not in ("<", "<=", ">", ">="):
        return None
    l, r = cn["lhs"], cn["rhs"]
    while l is not None and l.get("k") == "cast":
        l = l["e"]
    while r is not None and r.get("k") == "cast":
        r = r["e"]
    op = cn["op"]

    def var_plus_const(e):
        """(offset) if e is `v` or `v + c` / `c + v` with a non-negative constant c"""
        if e is None:
            return None
        if astq.estr(e) == vtxt:
            return 0
        if e.get("k") == "bin" and e.get("op") == "+":
            for a_, b_ in ((e["lhs"], e["rhs"]), (e["rhs"], e["lhs"])):
                while a_ is not None and a_.get("k") in ("cast", "paren"):
                    a_ = a_["e"]
                if a_ is not None and astq.estr(a_) == vtxt and astq.const_value(b_) is not None and astq.const_value(b_) >= 0:
                    return astq.const_value(b_)
        return None
    if var_plus_const(l) is not None and astq.const_value(cn["rhs"]) is not None:
        K = astq.const_value(cn["rhs"]) - var_plus_const(l)      # v + c < K  ==  v < K - c
    elif var_plus_const(r) is not None and astq.const_value(cn["lhs"]) is not None:
        K = astq.const_value(cn["lhs"]) - var_plus_const(r)
        op = {"<": ">", "<=": ">=", ">": "<", ">=": "<="}[op]      # K op v  ==  v op' K
    else:
        return None
    if not t:
        op = {"<": ">=", "<=": ">", ">": "<=", ">=": "<"}[op]
    if op == "<":
        return K - 1
    if op == "<=":
        return K
    return None


def bounded_store(f, cfg, n, idx, ivars, size, base):
    if not ivars:
        return False, "index expression has no variable"
    v = ivars[0]
    vtxt = v["n"]
    # (a) dominating guard  v < K  / v <= K  with K within the array
    for (c, t) in cfg.guards_of(n):
        cn = f.node_by_id(c)
        if cn is None or cn.get("k") != "bin":
            continue
        ub = upper_bound_from_guard(cn, t, vtxt)
        if ub is not None and ub < size:
            return True, "dominated by `%s` being %s" % (astq.estr(cn), "true" if t else "false")
        if cn["op"] in ("<", "<=") and astq.estr(cn["lhs"]) == vtxt and t:
            K = astq.const_value(cn["rhs"])
            if K is not None:
                lim = K - 1 if cn["op"] == "<" else K
                if lim < size:
                    return True, "dominated by `%s`" % astq.estr(cn)
            rtxt = astq.estr(cn["rhs"])
            if "sizeof(%s)" % base["n"] in rtxt:
                return True, "dominated by `%s`" % astq.estr(cn)
    # (b) loop-bounded counter: v is only changed by ++ in a for/while whose condition has a conjunct v < K, K <= size-1
    mods = [m for m in f.nodes() if (m["k"] == "un" and m["op"] in ("++", "--") and m["e"].get("k") == "ref" and m["e"].get("d") == v.get("d")) or
            (m["k"] in ("assign", "cassign") and m["lhs"].get("k") == "ref" and m["lhs"].get("d") == v.get("d"))]
    loops = [l for l in f.nodes() if l["k"] in ("for", "while") and l.get("cond") is not None]
    for l in loops:
        for cj in S.conjuncts(l["cond"]):
            if cj is not None and cj.get("k") == "bin" and cj["op"] == "<" and astq.estr(cj["lhs"]) == vtxt:
                K = astq.const_value(cj["rhs"])
                only_inc = all((m["k"] == "un" and m["op"] == "++") or (m["k"] == "assign" and astq.const_value(m["rhs"]) == 0) for m in mods)
                inside = all(S.contains(l, m) for m in mods)
                if K is not None and K <= size - 1 and only_inc and inside:
                    return True, "index is a loop counter bounded by `%s` (<= %d after the loop)" % (astq.estr(cj), K)
    # (b') guarded counter: every modification that can reach the store is `= 0` or a `++` that is itself dominated
    # by a guard `v < K` (loop condition or if) with K <= size-1  ->  v <= K at the store
    np = cfg.position(n)
    rel = []
    for m in mods:
        mp = cfg.position(m)
        if mp is None or np is None:
            continue
        if S.contains(n, m):
            continue
        if mp[0] == np[0] and mp[1] < np[1] or (np[0] in cfg.reachable_from(mp[0]) and mp[0] != np[0]) or (mp[0] == np[0] and np[0] in set(s_ for s_ in cfg.reachable_from(mp[0]) if s_ != mp[0] or mp[0] in [x for y in cfg.succs(mp[0]) for x in cfg.reachable_from(y)])):
            rel.append(m)
    maxK = None
    good = bool(rel)
    for m in rel:
        if m["k"] == "assign" and astq.const_value(m["rhs"]) == 0:
            continue
        if m["k"] == "un" and m["op"] == "++":
            ks = []
            for (c, t) in cfg.guards_of(m):
                cn = f.node_by_id(c)
                ub = upper_bound_from_guard(cn, t, vtxt)
                if ub is not None:
                    ks.append(ub + 1)
            if ks:
                maxK = max(maxK or 0, min(ks))
                continue
        good = False
    # the store itself may post-increment the index: buf[j++] needs j <= size-1 before, handled by the guard on that ++
    if good and maxK is not None and maxK <= size - 1:
        return True, "every increment of `%s` that can reach the store is guarded by `%s < %d`" % (vtxt, vtxt, maxK)
    # (c) strlen-derived decreasing index under v > 0
    decl_init = None
    for m in f.nodes():
        if m["k"] == "decl":
            for d in m["decls"]:
                if d["d"] == v.get("d") and d.get("init") is not None:
                    decl_init = d["init"]
    if decl_init is not None and "strlen(%s)" % base["n"] in astq.estr(decl_init):
        dec_only = all(m["k"] == "un" and m["op"] == "--" for m in mods)
        pos_guard = any(astq.estr(f.node_by_id(c)) == "(%s > 0)" % vtxt and t for (c, t) in cfg.guards_of(n) if f.node_by_id(c))
        if dec_only and pos_guard:
            return True, "index starts at strlen(%s) and only decreases under `%s > 0`" % (base["n"], vtxt)
    return False, "no dominating bound on `%s` (array has %d elements)" % (vtxt, size)


def precondition_met(fb, f, cfg, n, a, K):
    if a is None:
        return False, "with an unknown argument"
    k = a.get("k")
    ct = a.get("ct") or a.get("ty") or ""
    # fixed-size types
    if any(t in ct for t in ("uint256", "uint160", "base_blob")) or (k == "ref" and "arraysize" in a):
        return True, "argument has a fixed-size type (%s)" % ct
    if k == "ctor":
        # vector(first, first + N) with constant distance
        cargs = [x for x in a.get("args", []) if x is not None and x.get("k") != "defarg"]
        if len(cargs) == 2:
            a = dict(a, args=cargs)
            t0, t1 = astq.estr(a["args"][0]), astq.estr(a["args"][1])
            import re
            m0 = re.match(r"\((.*) \+ (\d+)\)$", t0)
            m1 = re.match(r"\((.*) \+ (\w+)\)$", t1)
            base0, off0 = (m0.group(1), int(m0.group(2))) if m0 else (t0, 0)
            if m1 and m1.group(1) == base0:
                off1 = astq.const_value(a["args"][1]["args"][1]) if a["args"][1].get("k") == "opcall" else None
                if off1 is not None and (K is None or off1 - off0 == K):
                    return True, "range-constructed with constant length %d" % (off1 - off0)
    if k in ("ref", "mem", "opcall", "mcall"):
        vtxt = astq.estr(a)
        # producer: a dominating do_sha256()/do_hash160() on the same Value object
        base = a
        if a.get("k") == "mem" and a.get("n") == "data" and a.get("base") is not None:
            base = a["base"]
        if a.get("k") == "mcall" and a.get("n") == "data_value" and a.get("obj") is not None:
            base = a["obj"]
        btxt = astq.estr(base)
        if cfg is not None:
            for m in f.nodes():
                if m["k"] == "mcall" and m.get("n") in HASH_PRODUCERS and m.get("obj") is not None and astq.estr(m["obj"]) == btxt:
                    if (K is None or HASH_PRODUCERS[m["n"]] == K) and cfg.dominates(m, n):
                        return True, "produced by %s() (%d bytes)" % (m["n"], HASH_PRODUCERS[m["n"]])
            sf = size_facts(f, cfg, n, vtxt)
            if sf is not None:
                if sf[0] == "eq":
                    if K is None or sf[1] <= {K}:
                        return True, "dominated by a rejecting size test (size in %s)" % sorted(sf[1])
                    return False, "after a size test that still admits %s" % sorted(sf[1] - {K})
                return True, "dominated by a rejecting size test against a computed expected size"
    return False, "without a dominating size test"


def callers_establish(fb, prog, ctor, a, K):
    """argument `a` of a constructor-initialiser call is a constructor parameter: every caller must establish the size"""
    if a is None or a.get("k") != "ref" or a.get("dk") != "parm":
        return False, "without a dominating size test"
    pi = None
    for j, p in enumerate(ctor.params):
        if p["d"] == a["d"]:
            pi = j
    if pi is None:
        return False, "without a dominating size test"
    sites = []
    for g in fb.funcs.values():
        for n in g.nodes():
            if n["k"] in ("ctor", "new") or astq.is_call(n):
                c = n
                if n["k"] == "new" and n.get("init") is not None:
                    c = n["init"]
                if c.get("cid") == ctor.id:
                    sites.append((g, c))
    if not sites:
        return False, "and no caller was found"
    for (g, c) in sites:
        obj, args = astq.call_args(c)
        if pi >= len(args) or args[pi] is None:
            return False, "caller %s passes nothing" % g.name
        ok, why = precondition_met(fb, g, g.cfg(), c, underlying(args[pi]), K)
        if not ok:
            return False, "from %s at %s %s" % (g.name, g.loc(c), why)
    return True, "every caller (%d) establishes the size" % len(sites)


MUTANTS = [
    dict(name="sighash-for-any-script-version", file="instance.cpp", find="    if (sigver != SigVersion::TAPROOT && sigver != SigVersion::TAPSCRIPT) {\n        fprintf(stderr, \"error: the output being spent is not a taproot output", replace="    if (false) {\n        fprintf(stderr, \"error: the output being spent is not a taproot output", expect=["R15.21:closed-dispatch:SignatureHashSchnorr(sigversion)@Instance::calc_sighash"]),
    dict(name="checker-built-to-assert-on-missing-data", file="instance.cpp", find="txdata, MissingDataBehavior::FAIL);", replace="txdata, MissingDataBehavior::ASSERT_FAIL);", expect=["R15.21:closed-dispatch:GenericTransactionSignatureChecker(mdb)@Instance::setup_environment"]),
    dict(name="history-stream-unchecked", file="kerl/kerl.c", find="    if (fp) {\n      fprintf(fp,", replace="    {\n      fprintf(fp,", expect=["R15.22:stream-opened:history_file@kerl_add_history"]),
    dict(name="urandom-stream-used-when-null", file="value.cpp", find="    if (!f) {\n        fprintf(stderr, \"unable to open /dev/urandom", replace="    if (!f && num > 64) {\n        fprintf(stderr, \"unable to open /dev/urandom", expect=["R15.22:stream-opened:\"/dev/urandom\"@GetRandBytes"]),
    dict(name="history-line-trimmed-unconditionally", file="kerl/kerl.c", find="      if (len > 0 && buf[len-1] == '\\n') buf[len-1] = 0;", replace="      buf[len-1] = 0;", expect=["R15.4:array=buf@kerl_set_history_file:index=(len - 1)"]),
    dict(name="string-bytes-copied-with-memcpy", file="value.h", find="            data.assign(str.begin(), str.end());\n", replace="            data.resize(str.length());\n            memcpy(data.data(), str.data(), str.length());\n", expect=["R15.23:non-null-pointer:data.data()@Value::data_value"]),
    dict(name="escape-writes-uncounted-character", file="kerl/kerl.c", find="        case '\"': *(ptr++) = '\\\\'; *(ptr++) = '\"'; break;\n        default: *(ptr++) = input[i];", replace="        case '\"': *(ptr++) = '\\\\'; *(ptr++) = '\"'; break;\n        case '$': *(ptr++) = '\\\\'; *(ptr++) = '$'; break;\n        default: *(ptr++) = input[i];", expect=["R15.24:sizing-and-writing-agree@escape"]),
    dict(name="escape-counts-one-character-less", file="kerl/kerl.c", find="case '\\n': case '\\t': case '\\r': case '\\b': case '\\\\': case '\"': escapes++;", replace="case '\\n': case '\\t': case '\\r': case '\\\\': case '\"': escapes++;", expect=["R15.24:sizing-and-writing-agree@escape"]),
    dict(name="argument-count-difference-unguarded", file="tap.cpp", find="    size_t sargc = sai < ca.l.size() ? ca.l.size() - sai : 0;", replace="    size_t sargc = ca.l.size() - sai;", expect=["R15.25:difference-does-not-wrap"]),
    dict(name="amounts-padded-only-when-none-given", file="instance.cpp", find="    while (amounts.size() < tx->vin.size()) amounts.push_back(0);", replace="    if (amounts.empty()) amounts.resize(tx->vin.size(), 0);", expect=["R15.26:one-amount-per-input"]),
    dict(name="token-sized-stack-array", file="instance.cpp", find="            if (std::to_string(n) == v) {", replace="            char nbuf[vlen + 1];\n            snprintf(nbuf, vlen + 1, \"%d\", n);\n            if (!strcmp(nbuf, v)) {", expect=["R15.18:vla:nbuf@Instance::eval"]),
    dict(name="hashtype-buffer-uninitialised", file="debugger/interpreter.h", find="    char buf[100] = \" \"; // the names are joined with blanks; the leading one is skipped below", replace="    char buf[100];", expect=["R15.19:buffer-written-before-read:buf@hashtype_str"]),
    dict(name="value-member-without-initialiser", file="value.h", find="    opcodetype opcode = OP_0;", replace="    opcodetype opcode;", expect=["R15.20:members-initialised:Value"]),
    dict(name="signing-context-not-created", file="value.cpp", find="void Value::do_pubkey_to_xpubkey() {\n    if (!secp256k1_context_sign) ECC_Start();\n", replace="void Value::do_pubkey_to_xpubkey() {\n", expect=["R15.17:sign-context@Value::do_pubkey_to_xpubkey"]),
    dict(name="tap-ignores-failed-configuration", file="tap.cpp", find="        if (!instance.configure_tx_txin()) abort(", replace="        instance.configure_tx_txin(); if (false) abort(", expect=["R15.16:status-used:configure_tx_txin@main"]),
    dict(name="sighash-for-any-input-count", file="instance.cpp", find="    if (tx->vin.size() != 1) {\n        fprintf(stderr, \"error: a signature hash can only be computed", replace="    if (false) {\n        fprintf(stderr, \"error: a signature hash can only be computed", expect=["R15.7:size-relation=Init@Instance::calc_sighash"]),
    dict(name="listing-iterator-carried-over", file="functions.cpp", find="        if (siter > 0) {\n            if (headers[siter] != \"\") {", replace="        if (siter > 0 && !l.empty()) {\n            if (headers[siter] != \"\") {", expect=["R15.15:iterator-of-the-same-script@svprintscripts"]),
    dict(name="subscript-beyond-accepted-length", file="value.h", find="        if (data.size() != 25) {", replace="        if (data.size() != 25 && data.size() != 23) {", expect=["R15.14:subscript-within-decided-size@Value::do_spk_to_addr"]),
    dict(name="nesting-limit-removed", file="value.h", find="        if (nesting > MAX_BRACKET_DEPTH) {\n            fprintf(stderr, \"parse error, expression nested more than %zu deep\\n\", MAX_BRACKET_DEPTH);\n            exit(1);\n        }\n", replace="", expect=["R15.13:cycle=Value::Value+Value::parse_args:nesting-limit"]),
    dict(name="nesting-limit-only-for-brackets", file="value.h", find="        if (nesting > MAX_BRACKET_DEPTH) {\n", replace="        if (nesting > MAX_BRACKET_DEPTH && v[0] == '[') {\n", expect=["R15.13:cycle=Value::Value+Value::parse_args:nesting-limit"]),
    dict(name="token-array-on-the-stack", file="value.h", find="        std::vector<char*> args_ptr;\n", replace="        char* args_ptr_[args_len + 1];\n        std::vector<char*> args_ptr;\n        args_ptr_[0] = nullptr;\n", expect=["R15.13:cycle=Value::Value+Value::parse_args:no-vla-across-recursion"]),
    dict(name="new-recursion-unreviewed", file="instance.cpp", find="bool Instance::rewind() {\n    if (env->pc == env->script.begin()) {\n        return false;\n    }", replace="bool Instance::rewind() {\n    if (env->pc == env->script.begin()) {\n        return false;\n    }\n    if (env->done && env->curr_op_seq > 100000) return rewind();", expect=["R15.13:cycle=Instance::rewind"]),
    dict(name="addrprefix-unchecked", file="tap.cpp", find="ToLower(ca.m['p'])", replace="ca.m['p']", expect=["R15.7:char-precond=Encode(bech32_hrp)"]),
    dict(name="default-prefix-upper-case", file="value.cpp", find='std::string bech32_hrp = "bcrt";', replace='std::string bech32_hrp = "BCRT";', expect=["R15.7:char-precond=Encode(bech32_hrp)"]),
    dict(name="listing-limit-grows-with-offset", file="btcdeb.cpp", find="snprintf(pbuf, sizeof(buf) - (pbuf - buf), \"%s\", GetOpName", replace="snprintf(pbuf, sizeof(buf) + pbuf - buf, \"%s\", GetOpName", expect=["R15.4:bounded-write:snprintf@main"]),
    dict(name="listing-limit-ignores-offset", file="btcdeb.cpp", find="snprintf(pbuf, sizeof(buf) - (pbuf - buf), \"%s\", HexStr", replace="snprintf(pbuf, sizeof(buf), \"%s\", HexStr", expect=["R15.4:bounded-write:snprintf@main"]),
    dict(name="format-buffer-too-small", file="functions.cpp", find="    snprintf(lfmt, 15, ", replace="    snprintf(lfmt, 16, ", expect=["R15.4:bounded-write:snprintf@print_dualstack"]),
    dict(name="empty-transaction-accepted", file="instance.cpp", find="    if (tx->vin.empty()) {\n        fprintf(stderr, \"error: the transaction has no inputs\\n\");\n        return false;\n    }\n", replace="", expect=["R15.3:transaction-has-an-input"]),
    dict(name="verify-context-not-created-in-btcc", file="value.cpp", find="    static ECCVerifyHandle verify_handle;\n", replace="", expect=["R15.12:verify-context@btcc.cpp"]),
    dict(name="p2sh-empty-stack-assert", file="debugger/interpreter.cpp", find="            if (env.p2shstack.empty())\n                return set_error(serror, SCRIPT_ERR_INVALID_STACK_OPERATION);\n", replace="            assert(!env.p2shstack.empty());\n", expect=["R15.11:assert@"]),
    dict(name="instance-dtor-deletes-shared-tce", file="instance.h", find="        delete env;\n", replace="        delete env;\n        delete tce;\n", expect=["R15.2:single-owner=InterpreterEnv::tce<-Instance::tce"]),
    dict(name="delete-strdup-memory", file="instance.cpp", find="            std::string ss = s;\n            free(s);", replace="            std::string ss = s;\n            delete s;", expect=["R15.2:dealloc=Instance::parse_transaction"]),
    dict(name="free-new-memory", file="cliargs.h", find="delete long_options.back();", replace="free(long_options.back());", expect=["R15.2:dealloc=cliargs::~cliargs"]),
    dict(name="unbounded-flag-buffer", file="btcdeb.cpp", find="        } else if (j < sizeof(buf) - 1) {\n            buf[j++] = mod[i];\n        } else {", replace="        } else if (true) {\n            buf[j++] = mod[i];\n        } else {", expect=["R15.4:array=buf@svf_parse_flags"]),
    dict(name="off-by-one-flag-buffer", file="btcdeb.cpp", find="} else if (j < sizeof(buf) - 1) {", replace="} else if (j < 128) {", expect=["R15.4:array=buf@svf_parse_flags"]),
    dict(name="fgets-buffer-read-after-failure", file="btcdeb.cpp", find="        while (fgets(buf, 1024, stdin)) input += buf;", replace="        if (!fgets(buf, 1024, stdin)) fprintf(stderr, \"warning: nothing to read\\n\");\n        input += buf;", expect=["R15.5:fgets=main:buf"]),
    dict(name="vout-index-unchecked", file="instance.cpp", find="        if (txin_vout_index < 0 || (size_t)txin_vout_index >= txin->vout.size()) {", replace="        if (txin_vout_index < 0) {", expect=["R15.3:index=txin_vout_index"]),
    dict(name="select-index-unchecked", file="instance.cpp", find="            if (select_index >= tx->vin.size()) {", replace="            if (select_index >= 1000) {", expect=["R15.3:index=txin_index"]),
    dict(name="hash-length-unchecked", file="instance.cpp", find="            if (pushval.size() != 20) {\n                fprintf(stderr, \"unknown/non-standard script pub key (expected a 20 byte script hash", replace="            if (pushval.size() > 520) {\n                fprintf(stderr, \"unknown/non-standard script pub key (expected a 20 byte script hash",
         expect=["R15.7:precond=uint160(pushval)"]),
    dict(name="sighash-64-admitted", file="value.cpp", find="if (args[0].size() != 32) abort(\"invalid input (sighash must be 32 bytes)\");", replace="if (args[0].size() != 32 && args[0].size() != 64) abort(\"invalid input (sighash must be 32 or 64 bytes)\");",
         expect=["R15.7:precond=uint256(args[0])@Value::verify_sig"]),
    dict(name="schnorr-sig-length-unchecked", file="value.cpp", find="        if (args[2].size() != 64) abort(\"invalid input (schnorr signature must be 64 bytes)\");\n", replace="", expect=["R15.7:precond=VerifySchnorr"]),
    dict(name="exec-try-removed", file="functions.cpp", find="    try {\n        instance.eval(argc, argv);\n    } catch (std::exception const& ex) {\n        fprintf(stderr, \"exception: %s\\n\", ex.what());\n    }", replace="    instance.eval(argc, argv);",
         expect=["R15.1:entry=fn_exec"]),
    dict(name="btcc-catch-narrowed", file="btcc.cpp", find="} catch (const std::exception& ex) {", replace="} catch (const std::bad_alloc& ex) {", expect=["R15.1:entry=main@btcc.cpp"]),
    dict(name="tf-try-narrowed", file="functions.cpp", find="    } catch (std::exception const& ex) {\n        fprintf(stderr, \"exception: %s\\n\", ex.what());\n        rv = -1;", replace="    } catch (std::bad_alloc const& ex) {\n        fprintf(stderr, \"exception: %s\\n\", ex.what());\n        rv = -1;",
         expect=["R15.1:entry=fn_tf"]),
    dict(name="exec-iterator-stored", file="script/interpreter.cpp", find="if (!local_script) pbegincodehash = pc;", replace="pbegincodehash = pc;", expect=["R15.9:iterator-store"]),
    dict(name="div-zero-test-removed", file="debugger/interpreter.cpp", find="            case OP_DIV:\n                if (num2 == 0) return set_error(serror, SCRIPT_ERR_UNKNOWN_ERROR);\n", replace="            case OP_DIV:\n", expect=["R15.6:trap:/:num2"]),
    dict(name="handler-removed", file="debugger/interpreter.cpp", regex=True, find=r"    case OP_2DIV:\n.*?return true;\n\n    case OP_MUL:", replace="    case OP_MUL:", expect=["R15.8:opcode=OP_2DIV"]),
]
