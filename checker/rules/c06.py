"""C06 - tap: printed address and witnesses verify: writer<->verifier agreement clauses (DESIGN.md section 4, C06)."""
from .. import astq, structure as S, streams
from ..facts import AnalysisBroken, walk

EXPLANATION = (
    "Writer<->reader agreement between tap.cpp (which builds the tree, the tweak and the control block) and the verifier the "
    "debugger uses (C05's batch twin / XOnlyPubKey). R06.1 the tag literals of tap's four tagged hashers equal the verifier's; the "
    "leaf stream is (leaf-version byte, script) with the literal leaf version equal to TAPROOT_LEAF_TAPSCRIPT; the branch hash "
    "streams the lexicographically smaller child first (evaluated symbolically over both outcomes of the comparison, including the "
    "swap idiom), which is the order the verifier folds with; the tweak hash streams (internal key, root). R06.2 the control block is "
    "written as [leaf version | parity bit][internal key][proof...] - the layout the verifier reads at offsets 0, 1, 33+32i - and the "
    "parity bit is 0 exactly when the serialised tweaked key has the even prefix 0x02 (finite-domain tabulation of the two "
    "prefixes). R06.3 TapBranch::Prove appends the sibling's hash (child==left => right's, child==right => left's) and only then "
    "recurses to the parent (bottom-up, the order the verifier folds). R06.4 non-interference: the data-dependence closure of the "
    "printed address contains none of the spend-selection variables. Tree shape for every n, secp256k1 tweak arithmetic, bech32m and "
    "the reported sighash value are NOT decided.")
TRUSTED = ["clang 14 parser/Sema", "/verif extractor", "C05's facts about the verifier"]
ASSUMPTIONS = ["data dependence through libsecp calls is modelled as: every pointer argument may be written from every other argument"]
DECLINED = ["tree shape for every n (pairing loops)", "secp256k1_xonly_pubkey_tweak_add, bech32m encoding", "that the reported sighash is the digest of the emitted transaction (see C02/C03)"]


def run(ctx, anchors=None):
    fb, prog = ctx.facts, ctx.prog
    ctx.rule("R06.1", "tap's tagged hashers, leaf stream, branch ordering and tweak stream agree with the verifier")
    ctx.rule("R06.2", "control-block layout and parity polarity agree with the verifier")
    ctx.rule("R06.3", "Prove appends the sibling hash, then recurses to the parent")
    ctx.rule("R06.4", "the printed address does not depend on the spend selection")
    tapmain = [f for f in fb.funcs.values() if f.d.get("main") and f.file == "tap.cpp"]
    if not tapmain:
        raise AnalysisBroken("tap main not found")
    tapmain = tapmain[0]

    from . import common as _cm
    _cm.require_names(tapmain, ["hasher", "internal_pubkey_u256", "root", "ctl", "ctl_ln", "is_even", "serialized_pk", "internal_pubkey", "scripts"], "R06")
    # ---- R06.1 tags
    tags = {"HasherTapSighash": "TapSighash", "HasherTapLeaf": "TapLeaf", "HasherTapBranch": "TapBranch", "HasherTapTweak": "TapTweak"}
    for name, tag in sorted(tags.items()):
        v = fb.var(name)
        lits = [x["s"] for x in walk(v["init"]) if x["k"] == "str"] if v.get("init") else []
        ctx.site()
        ctx.inst(lits == [tag], "R06.1", "tag=" + name, "%s:%d" % (v["file"], v["line"]), "%s = TaggedHash(\"%s\")" % (name, tag),
                 "tap hashes with the tag %s where BIP341 / the verifier use \"%s\"" % (lits, tag))
    # leaf
    leafc = [f for f in fb.fns("TapLeaf::TapLeaf") if any(p["ct"] == "CScript" for p in f.params)]
    if not leafc:
        raise AnalysisBroken("TapLeaf(index, script) constructor not found")
    leafc = leafc[0]
    ops = []
    hasher = None
    for n in leafc.nodes():
        if n["k"] == "opcall" and n.get("op") == "<<":
            base, o = streams.flatten_chain(n)
            if base is not None and base.get("k") == "ref":
                ops = o
                # which global was it copied from
                for m in leafc.nodes():
                    if m["k"] == "decl":
                        for d in m["decls"]:
                            if d["n"] == base["n"] and d.get("init") is not None:
                                hs = [y["n"] for y in walk(d["init"]) if y["k"] == "ref" and y.get("dk") == "global"]
                                hasher = hs[0] if hs else None
                break
    lv = astq.const_value(ops[0][1]) if ops else None
    want_lv = fb.var("TAPROOT_LEAF_TAPSCRIPT").get("value")
    ctx.site()
    ctx.inst(hasher == "HasherTapLeaf" and len(ops) == 2 and lv == want_lv and astq.estr(ops[1][1]) == "script", "R06.1", "leaf-stream", leafc.loc(),
             "leaf hash = TapLeaf(0x%02x, script)" % (lv or 0),
             "tap's leaf hash streams %s into %s; the verifier hashes (leaf version 0x%02x, script) with TapLeaf" % ([astq.estr(o[1]) for o in ops], hasher, want_lv))
    one_byte = bool(ops) and ("uint8_t" in astq.estr(ops[0][1]) or ops[0][1].get("ty") == "uint8_t" or "unsigned char" in (ops[0][1].get("ty") or ""))
    ctx.inst(one_byte, "R06.1", "leaf-version-one-byte", leafc.loc(), "the leaf version is streamed as a single byte")
    # branch
    brc = fb.fn("TapBranch::TapBranch")
    _cm.require_names(brc, ["h_l", "h_r", "hasher", "m_l", "m_r"], "R06.1")
    cmp = None
    for n in brc.nodes():
        if n["k"] == "if" and n["cond"].get("k") == "call" and n["cond"].get("n") == "lexicographical_compare":
            cmp = n
    stream = None
    bh = None
    for n in brc.nodes():
        if n["k"] == "opcall" and n.get("op") == "<<":
            base, o = streams.flatten_chain(n)
            if base is not None and base.get("k") == "ref" and len(o) == 2:
                stream = [astq.estr(x[1]) for x in o]
                for m in brc.nodes():
                    if m["k"] == "decl":
                        for d in m["decls"]:
                            if d["n"] == base["n"] and d.get("init") is not None:
                                hs = [y["n"] for y in walk(d["init"]) if y["k"] == "ref" and y.get("dk") == "global"]
                                bh = hs[0] if hs else None
    ok_branch = False
    detail = ""
    if cmp is not None and stream:
        X = astq.estr(cmp["cond"]["args"][0]).split(".")[0]   # cond true  <=>  X < Y
        Y = astq.estr(cmp["cond"]["args"][2]).split(".")[0]
        # symbolic evaluation of the then-branch: a swap of the two locals through a temporary
        def after(branch_taken):
            env = {X: X, Y: Y}
            if branch_taken:
                for m in walk(cmp["then"]):
                    tgt = src = None
                    if m["k"] == "decl":
                        for d in m["decls"]:
                            if d.get("init") is not None:
                                srcs = [y["n"] for y in walk(d["init"]) if y["k"] == "ref" and y.get("dk") == "local"]
                                if srcs:
                                    env[d["n"]] = env.get(srcs[0], srcs[0])
                    if m["k"] == "opcall" and m["op"] == "=" and len(m["args"]) == 2:
                        tgt = astq.estr(m["args"][0])
                        srcs = [y["n"] for y in walk(m["args"][1]) if y["k"] == "ref" and y.get("dk") == "local"]
                        if srcs:
                            env[tgt] = env.get(srcs[0], srcs[0])
            return [env.get(s_, s_) for s_ in stream]
        t_case = after(True)    # X < Y : the lesser is X
        f_case = after(False)   # Y <= X: the lesser-or-equal is Y
        if cmp.get("else") is not None:
            detail = "else-branch present (not the swap idiom)"
        ok_branch = t_case[0] == X and f_case[0] == Y and set(t_case) == {X, Y} and bh == "HasherTapBranch"
        detail = "when %s<%s streams %s; otherwise streams %s" % (X, Y, t_case, f_case)
    ctx.site()
    ctx.inst(ok_branch, "R06.1", "branch-smaller-first", brc.loc(cmp) if cmp is not None else brc.loc(),
             "TapBranch streams the lexicographically smaller child hash first (%s)" % detail,
             "TapBranch does not stream the smaller child first (%s): the verifier folds (k,node) with the smaller first, so proofs do not verify" % detail)
    # children come from m_l / m_r
    srcs = {}
    for n in brc.nodes():
        if n["k"] == "decl":
            for d in n["decls"]:
                if d.get("init") is not None and d["n"] in ("h_l", "h_r"):
                    srcs[d["n"]] = astq.estr(d["init"])
    ctx.inst(srcs.get("h_l", "").replace("this->", "") in ("m_l->m_hash",) and srcs.get("h_r", "").replace("this->", "") in ("m_r->m_hash",), "R06.1", "branch-children", brc.loc(),
             "the two streamed hashes are the left and right child hashes")
    # the constructor may link the children (m_parent) but must not modify them otherwise: Prove() later reads the children's
    # own hashes as sibling hashes
    ws = prog.write_sets().get(brc.id, {})
    child_writes = sorted({astq.path_str(p_) for p_ in ws if (p_[0][0] == "parm" and len(p_) > 1 and [x for x in p_[1:] if x not in ("*", "[]")][-1:] != ["m_parent"])
                           or (p_[0] == ("this",) and any(x in ("m_l", "m_r") for x in p_[1:]) and [x for x in p_[1:] if x not in ("*", "[]")][-1] not in ("m_l", "m_r", "m_parent"))})
    ctx.site()
    ctx.inst(not child_writes, "R06.1", "branch-does-not-modify-children", brc.loc(),
             "the TapBranch constructor writes only m_parent of its children",
             "the TapBranch constructor modifies its children (%s): Prove() then emits the node's own hash instead of the sibling's whenever the two were swapped" % ", ".join(child_writes))
    # tweak
    tw = None
    for n in tapmain.nodes():
        if n["k"] == "opcall" and n.get("op") == "<<":
            base, o = streams.flatten_chain(n)
            if base is not None and base.get("k") == "ref" and base["n"] == "hasher" and len(o) == 2:
                tw = [astq.estr(x[1]) for x in o]
    hdecl = [d for n in tapmain.nodes() if n["k"] == "decl" for d in n["decls"] if d["n"] == "hasher"]
    hsrc = [y["n"] for d in hdecl if d.get("init") for y in walk(d["init"]) if y["k"] == "ref" and y.get("dk") == "global"]
    ctx.site()
    ctx.inst(tw == ["internal_pubkey_u256", "root->m_hash"] and hsrc == ["HasherTapTweak"], "R06.1", "tweak-stream", tapmain.loc(),
             "tweak = TapTweak(internal key || merkle root)", "tap's tweak hash streams %s into %s; the verifier hashes (internal key, merkle root) with TapTweak" % (tw, hsrc))
    verifier = fb.fn("XOnlyPubKey::ComputeTapTweakHash")
    vops = []
    for n in verifier.nodes():
        if n["k"] == "opcall" and n.get("op") == "<<":
            base, o = streams.flatten_chain(n)
            if len(o) == 2:
                vops = [astq.estr(x[1]) for x in o]
    ctx.inst(vops == ["m_keydata", "*merkle_root"], "R06.1", "verifier-tweak-stream", verifier.loc(), "verifier: TapTweak(key || root)")
    # ---- R06.2 control block
    ctl_init = [d for n in tapmain.nodes() if n["k"] == "decl" for d in n["decls"] if d["n"] == "ctl"]
    ok_init = bool(ctl_init) and ctl_init[0].get("init") is not None and astq.estr(ctl_init[0]["init"]) == "internal_pubkey"
    prove_calls = [n for n in tapmain.nodes() if n["k"] == "mcall" and n.get("n") == "Prove" and any(astq.estr(a) == "ctl" for a in n["args"])]
    ins = [n for n in tapmain.nodes() if n["k"] == "mcall" and n.get("n") == "insert" and astq.estr(n.get("obj")) == "ctl"]
    cfg = tapmain.cfg()
    ok_ins = len(ins) == 1 and "ctl.begin()" in astq.estr(ins[0]["args"][0]) and "ctl_ln" in astq.estr(ins[0]["args"][1])
    ok_order = ok_init and prove_calls and ok_ins and all(cfg.dominates(ctl_init_node(tapmain), p) for p in prove_calls) and True
    ctx.site()
    ctx.inst(ok_init and bool(prove_calls) and ok_ins, "R06.2", "control-layout", tapmain.loc(ins[0]) if ins else tapmain.loc(),
             "control block = [version|parity][internal key][proof appended by Prove]: the layout read at offsets 0, 1, 33+32i",
             "the control block is not assembled as [version|parity][internal key][proof...]")
    ilen = [n for n in tapmain.nodes() if n["k"] == "if" and "internal_pubkey.size()" in astq.estr(n["cond"]) and "32" in astq.estr(n["cond"])]
    ctx.inst(bool(ilen), "R06.2", "internal-key-32-bytes", tapmain.loc(ilen[0]) if ilen else tapmain.loc(), "the internal key is required to be 32 bytes (so the proof starts at offset 33)")
    # parity polarity by finite-domain tabulation
    ev = [d for n in tapmain.nodes() if n["k"] == "decl" for d in n["decls"] if d["n"] == "is_even"]
    ln = [d for n in tapmain.nodes() if n["k"] == "decl" for d in n["decls"] if d["n"] == "ctl_ln"]
    ok_par = False
    table = {}
    if ev and ln and ev[0].get("init") is not None and ln[0].get("init") is not None:
        e = ev[0]["init"]
        while e is not None and e.get("k") == "cast":
            e = e["e"]
        c = ln[0]["init"]
        while c is not None and c.get("k") == "cast":
            c = c["e"]
        if e is not None and e.get("k") == "bin" and e["op"] == "==" and c is not None and c.get("k") == "cond" and astq.estr(c["cond"]) == "is_even":
            even_prefix = astq.const_value(e["rhs"])
            tv, fv = astq.const_value(c["then"]), astq.const_value(c["else"])
            for prefix in (2, 3):
                is_even = 1 if prefix == even_prefix else 0
                byte = tv if is_even else fv
                table[prefix] = byte
            mask = fb.var("TAPROOT_LEAF_MASK").get("value")
            ok_par = table.get(2) is not None and (table[2] & 1) == 0 and (table[3] & 1) == 1 and (table[2] & mask) == want_lv and (table[3] & mask) == want_lv \
                and "serialized_pk[0]" in astq.estr(e["lhs"])
    ctx.site(2)
    ctx.inst(ok_par, "R06.2", "parity-polarity", tapmain.loc(), "prefix 0x02 -> control byte 0x%02x, prefix 0x03 -> 0x%02x (low bit = parity of the output key, upper bits = leaf version)" % (table.get(2, 0), table.get(3, 0)),
             "control byte per key prefix is %s: the verifier checks CheckTapTweak(p, k, control[0] & 1) and leaf version control[0] & 0xfe == 0x%02x" % (table, want_lv))
    # ---- R06.3
    prove = [f for f in fb.fns("TapBranch::Prove")]
    if not prove:
        raise AnalysisBroken("TapBranch::Prove not found")
    prove = prove[0]
    _cm.require_names(prove, ["child", "proof", "hash", "m_l", "m_r", "m_parent"], "R06.3")
    arms = {}
    for n in prove.nodes():
        if n["k"] == "if" and n["cond"].get("k") == "bin" and n["cond"]["op"] == "==" and astq.estr(n["cond"]["lhs"]) == "child":
            which = astq.estr(n["cond"]["rhs"]).replace("this->", "")
            asg = [m for m in walk(n["then"]) if m["k"] == "opcall" and m["op"] == "="]
            if asg:
                arms[which] = astq.estr(asg[0]["args"][1]).replace("this->", "")
    ctx.site()
    ctx.inst(arms == {"m_l": "m_r->m_hash", "m_r": "m_l->m_hash"}, "R06.3", "sibling-hash", prove.loc(),
             "child == left -> right's hash; child == right -> left's hash",
             "Prove selects %s: the proof must contain the SIBLING's hash of each node on the path" % arms)
    pcfg = prove.cfg()
    app = [n for n in prove.nodes() if n["k"] == "mcall" and n.get("n") == "insert" and astq.estr(n.get("obj")) == "proof"]
    rec = [n for n in prove.nodes() if n["k"] == "mcall" and n.get("n") == "Prove"]
    ok_rec = len(app) == 1 and len(rec) == 1 and pcfg.dominates(app[0], rec[0]) and "proof.end()" in astq.estr(app[0]["args"][0]) and astq.estr(rec[0]["args"][0]) == "this"
    ctx.inst(ok_rec, "R06.3", "append-then-recurse", prove.loc(), "the sibling hash is appended at the end of the proof before recursing to the parent with `this` as child",
             "Prove does not (append at the end, then recurse to the parent with this): the verifier folds bottom-up")
    # ---- R06.4 data-dependence closure of the address
    dep = {}

    def add(t, srcs):
        dep.setdefault(t, set()).update(srcs)
    for n in tapmain.nodes():
        if n["k"] == "decl":
            for d in n["decls"]:
                if d.get("init") is not None:
                    add(d["n"], {y["n"] for y in walk(d["init"]) if y["k"] == "ref" and y.get("dk") in ("local", "parm")})
        elif n["k"] in ("assign", "cassign"):
            t = [y["n"] for y in walk(n["lhs"]) if y["k"] == "ref" and y.get("dk") == "local"]
            if t:
                add(t[0], {y["n"] for y in walk(n["rhs"]) if y["k"] == "ref" and y.get("dk") in ("local", "parm")})
        elif n["k"] == "opcall" and n.get("op") in ("=", "<<", "+="):
            t = [y["n"] for y in walk(n["args"][0]) if y["k"] == "ref" and y.get("dk") == "local"]
            if t:
                add(t[0], {y["n"] for a in n["args"][1:] for y in walk(a) if y["k"] == "ref" and y.get("dk") in ("local", "parm")})
        elif n["k"] == "mcall" and n.get("obj") is not None and n.get("mconst") is False:
            t = [y["n"] for y in walk(n["obj"]) if y["k"] == "ref" and y.get("dk") == "local"]
            if t:
                add(t[0], {y["n"] for a in n["args"] if a for y in walk(a) if y["k"] == "ref" and y.get("dk") in ("local", "parm")})
        elif n["k"] == "call" and not (n.get("cid") and prog.resolve(n["cid"])):
            names = {y["n"] for a in n["args"] if a for y in walk(a) if y["k"] == "ref" and y.get("dk") in ("local", "parm")}
            outs = {y["n"] for a in n["args"] if a is not None and a.get("k") == "un" and a["op"] == "&" for y in walk(a) if y["k"] == "ref" and y.get("dk") == "local"}
            outs |= {y["n"] for a in n["args"] if a is not None and a.get("k") == "mcall" and a.get("n") in ("data", "begin") for y in walk(a) if y["k"] == "ref"}
            for o in outs:
                add(o, names - {o})
    seen = set()
    st = ["serialized_pk"]
    while st:
        x = st.pop()
        if x in seen:
            continue
        seen.add(x)
        st.extend(dep.get(x, ()))
    forbidden = {"spending_index", "is_tapscript", "spending_leaf", "taproot_input_stack", "taproot_inputs", "ctl", "premade_sig", "privkey", "is_taproot", "spending_script"}
    bad = sorted(seen & forbidden)
    ctx.site(len(seen))
    ctx.inst("internal_pubkey" in seen and "scripts" in seen and not bad, "R06.4", "address-independent-of-spend-selection", tapmain.loc(),
             "the address depends (data flow) on %d variables incl. the internal key and the scripts, none of the spend selection" % len(seen),
             "the printed address depends on %s: it differs when a leaf is selected for spending" % bad)
    ctx.extra["address_data_dependences"] = sorted(seen)


def ctl_init_node(func):
    for n in func.nodes():
        if n["k"] == "decl" and any(d["n"] == "ctl" for d in n["decls"]):
            return n
    return func.body


MUTANTS = [
    dict(name="branch-sorts-children-in-place", file="tap.cpp", find="        auto h_l = m_l->m_hash;\n        auto h_r = m_r->m_hash;", replace="        auto& h_l = m_l->m_hash;\n        auto& h_r = m_r->m_hash;", expect=["R06.1:branch-does-not-modify-children"]),
    dict(name="tag-typo-tap", file="tap.cpp", find="HasherTapBranch = TaggedHash(\"TapBranch\")", replace="HasherTapBranch = TaggedHash(\"TapBranches\")", expect=["R06.1:tag=HasherTapBranch"]),
    dict(name="leaf-version-c1", file="tap.cpp", find="hasher << static_cast<uint8_t>(0xc0) << script;", replace="hasher << static_cast<uint8_t>(0xc1) << script;", expect=["R06.1:leaf-stream"]),
    dict(name="branch-larger-first", file="tap.cpp", find="if (std::lexicographical_compare(h_r.begin(), h_r.end(), h_l.begin(), h_l.end())) {", replace="if (std::lexicographical_compare(h_l.begin(), h_l.end(), h_r.begin(), h_r.end())) {", expect=["R06.1:branch-smaller-first"]),
    dict(name="tweak-operands-swapped", file="tap.cpp", find="hasher << internal_pubkey_u256 << root->m_hash;", replace="hasher << root->m_hash << internal_pubkey_u256;", expect=["R06.1:tweak-stream"]),
    dict(name="parity-swapped", file="tap.cpp", find="uint8_t ctl_ln = is_even ? 0xc0 : 0xc1;", replace="uint8_t ctl_ln = is_even ? 0xc1 : 0xc0;", expect=["R06.2:parity-polarity"]),
    dict(name="even-prefix-wrong", file="tap.cpp", find="int is_even = serialized_pk[0] == 0x02;", replace="int is_even = serialized_pk[0] == 0x03;", expect=["R06.2:parity-polarity"]),
    dict(name="prove-own-hash", file="tap.cpp", find="        if (child == m_l) {\n            hash = m_r->m_hash;", replace="        if (child == m_l) {\n            hash = m_l->m_hash;", expect=["R06.3:sibling-hash"]),
    dict(name="prove-recurse-first", file="tap.cpp", find="        proof.insert(proof.end(), hash.begin(), hash.end());\n        if (m_parent) m_parent->Prove(this, proof);", replace="        if (m_parent) m_parent->Prove(this, proof);\n        proof.insert(proof.end(), hash.begin(), hash.end());", expect=["R06.3:append-then-recurse"]),
    dict(name="address-depends-on-spend", file="tap.cpp", find="    hasher << internal_pubkey_u256 << root->m_hash;", replace="    hasher << internal_pubkey_u256 << (is_tapscript ? spending_leaf->m_hash : root->m_hash);", expect=["R06.4:address-independent-of-spend-selection", "R06.1:tweak-stream"]),
    dict(name="version-byte-appended", file="tap.cpp", find="ctl.insert(ctl.begin(), &ctl_ln, &ctl_ln + 1);", replace="ctl.insert(ctl.end(), &ctl_ln, &ctl_ln + 1);", expect=["R06.2:control-layout"]),
]
