"""C06 - tap: printed address and witnesses verify: writer<->verifier agreement clauses (DESIGN.md section 4, C06)."""
import os
from .. import astq, structure as S, streams
from ..facts import AnalysisBroken, walk

EXPLANATION = (
    "Writer<->reader agreement between tap.cpp (which builds the tree, the tweak and the control block) and the verifier the "
    "debugger uses (C05's batch twin / XOnlyPubKey). R06.1 the tag literals of tap's four tagged hashers equal the verifier's; the "
    "leaf stream is (leaf-version byte, script) with the literal leaf version equal to TAPROOT_LEAF_TAPSCRIPT; the branch hash "
    "streams the lexicographically smaller child first (evaluated symbolically over both outcomes of the comparison, including the "
    "swap idiom), which is the order the verifier folds with; the tweak hash streams (internal key, root). R06.2 the control block is "
    "written as [leaf version | parity bit][internal key][proof...] - the layout the verifier reads at offsets 0, 1, 33+32i - and the "
    "parity bit is 0 exactly when the serialised tweaked key has the even prefix 0x02 (finite-domain tabulation of the two "
    "prefixes). R06.3 TapBranch::Prove appends the sibling's hash (child==left => right's, child==right => left's) and only then "
    "recurses to the parent (bottom-up, the order the verifier folds). R06.4 non-interference: the data-dependence closure of the "
    "printed address contains none of the spend-selection variables. Tree shape for every n, secp256k1 tweak arithmetic, bech32m and "
    "the reported sighash value are NOT decided. R06.4 (round 6): the closure contains control dependences too - the locals read by the conditions a write is nested in - over the writes from which the address computation is still reachable.")
TRUSTED = ["clang 14 parser/Sema", "/verif extractor", "/verif term evaluator G-SYM (checker/symx.py): inlining, loop summaries relative to prev, linear normal form; casts between integer types are treated as value-preserving", "C05's facts about the verifier"]
ASSUMPTIONS = ["data dependence through libsecp calls is modelled as: every pointer argument may be written from every other argument"]
DECLINED = ["tree shape for every n (pairing loops)", "secp256k1_xonly_pubkey_tweak_add, bech32m encoding", "that the reported sighash is the digest of the emitted transaction (see C02/C03)"]


def run(ctx, anchors=None):
    fb, prog = ctx.facts, ctx.prog
    ctx.rule("R06.1", "tap's tagged hashers, leaf stream, branch ordering and tweak stream agree with the verifier")
    ctx.rule("R06.2", "control-block layout and parity polarity agree with the verifier")
    ctx.rule("R06.3", "Prove appends the sibling hash, then recurses to the parent")
    ctx.rule("R06.4", "the printed address does not depend on the spend selection")
    tapmain = [f for f in fb.funcs.values() if f.d.get("main") and f.file == "tap.cpp"]
    if not tapmain:
        raise AnalysisBroken("tap main not found")
    tapmain = tapmain[0]

    from . import common as _cm
    _cm.require_names(tapmain, ["internal_pubkey_u256", "root", "ctl", "ctl_ln", "is_even", "serialized_pk", "internal_pubkey", "scripts"], "R06")
    # ---- R06.1 tags
    tags = {"HasherTapSighash": "TapSighash", "HasherTapLeaf": "TapLeaf", "HasherTapBranch": "TapBranch", "HasherTapTweak": "TapTweak"}
    for name, tag in sorted(tags.items()):
        v = fb.var(name)
        lits = [x["s"] for x in walk(v["init"]) if x["k"] == "str"] if v.get("init") else []
        ctx.site()
        ctx.inst(lits == [tag], "R06.1", "tag=" + name, "%s:%d" % (v["file"], v["line"]), "%s = TaggedHash(\"%s\")" % (name, tag),
                 "tap hashes with the tag %s where BIP341 / the verifier use \"%s\"" % (lits, tag))
    # leaf / branch: the term of m_hash computed by the constructors (G-SYM: helpers inlined, temporaries and swaps resolved)
    from .. import symx
    this = ("a", "this")
    L, R, O = ("a", "L"), ("a", "R"), ("a", "O")
    X = symx.Explorer(prog, distinct=[L, R, O, symx.NULL], inline=lambda fn, n: fn.file == "tap.cpp")
    leafc = [f for f in fb.fns("TapLeaf::TapLeaf") if any(p["ct"] == "CScript" for p in f.params)]
    if not leafc:
        raise AnalysisBroken("TapLeaf(index, script) constructor not found")
    leafc = leafc[0]
    sparam = [p["n"] for p in leafc.params if p["ct"] == "CScript"][0]
    want_lv = fb.var("TAPROOT_LEAF_TAPSCRIPT").get("value")
    want_leaf = ("ap", "m:GetSHA256", symx.stream(("a", "HasherTapLeaf"), (symx.C(want_lv), "unsigned char"), (("a", sparam), "CScript")))
    try:
        louts = [o for o in X.explore(leafc, this=this) if o.status in ("end", "ret")]
    except symx.Unsupported as e:
        raise AnalysisBroken("R06.1: TapLeaf constructor: %s" % e)
    ctx.site()
    got_leaf = sorted({symx.show(o.field(this, "m_hash")) for o in louts})
    ctx.inst(bool(louts) and all(o.field(this, "m_hash") == want_leaf for o in louts), "R06.1", "leaf-stream", leafc.loc(),
             "leaf hash = %s" % symx.show(want_leaf),
             "tap's leaf hash is %s; the verifier hashes (leaf version 0x%02x, script) with TapLeaf, i.e. %s" % (got_leaf, want_lv, symx.show(want_leaf)))
    one_byte = False
    for o in louts:
        for e in o.events:
            if e.kind == "op" and e.name == "<<" and e.terms[1] == symx.C(want_lv):
                opnd = e.node["args"][1]
                one_byte = "uint8_t" in astq.estr(opnd) or opnd.get("ty") in ("uint8_t", "const uint8_t") or "unsigned char" in (opnd.get("ty") or "") or (opnd.get("ct") or "") == "unsigned char"
    ctx.inst(one_byte, "R06.1", "leaf-version-one-byte", leafc.loc(), "the leaf version is streamed as a single byte")
    # branch
    brc = fb.fn("TapBranch::TapBranch")
    if len(brc.params) != 2:
        raise AnalysisBroken("R06.1: TapBranch(l, r) constructor not found")
    HL, HR = ("f", L, "m_hash"), ("f", R, "m_hash")

    def lt_of(t):
        """P, Q such that the condition term t means P < Q (lexicographically, as byte strings)"""
        if isinstance(t, tuple) and t[0] == "ap" and t[1] == "lexicographical_compare" and len(t) == 6:
            ps = [x[2] if isinstance(x, tuple) and x[0] == "ap" and x[1] in ("m:begin", "m:end") and len(x) == 3 else None for x in t[2:]]
            if None not in ps and ps[0] == ps[1] and ps[2] == ps[3]:
                return ps[0], ps[2]
        if isinstance(t, tuple) and t[0] == "ap" and t[1] == "<" and len(t) == 4:
            return t[2], t[3]
        return None
    try:
        bouts = [o for o in X.explore(brc, this=this, params={brc.params[0]["n"]: L, brc.params[1]["n"]: R}) if o.status in ("end", "ret")]
    except symx.Unsupported as e:
        raise AnalysisBroken("R06.1: TapBranch constructor: %s" % e)
    if not bouts:
        raise AnalysisBroken("R06.1: the TapBranch constructor has no completing path")
    ok_branch = True
    details = []
    for o in bouts:
        if o.field(this, "m_l") != L or o.field(this, "m_r") != R:
            raise AnalysisBroken("R06.1: TapBranch does not store its two children in m_l / m_r")
        h = o.field(this, "m_hash")
        if not (h[0] == "ap" and h[1] == "m:GetSHA256" and len(h) == 3):
            ok_branch = False
            details.append("m_hash = %s" % symx.show(h))
            continue
        base, ops = symx.unmut(h[2])
        order = [op[1] for op in ops if op[0] == "<<"]
        cmpc = [(lt_of(t), v) for (t, v) in o.conds if lt_of(t) is not None and set(lt_of(t)) == {HL, HR}]
        if base != ("a", "HasherTapBranch") or len(ops) != 2 or len(order) != 2:
            ok_branch = False
            details.append("m_hash = %s" % symx.show(h))
            continue
        if set(order) != {HL, HR}:
            if any(symx.contains(x, HL) or symx.contains(x, HR) for x in order) and not all(x in (HL, HR) for x in order):
                raise AnalysisBroken("R06.1: TapBranch streams %s - an ordering idiom this rule does not interpret" % [symx.show(x) for x in order])
            ok_branch = False
            details.append("streams %s" % [symx.show(x) for x in order])
            continue
        if not cmpc:
            ok_branch = False
            details.append("streams %s whatever their order" % [symx.show(x) for x in order])
            continue
        (P, Q), v = cmpc[-1]
        smaller = P if v else Q
        details.append("when %s%s%s streams %s" % (symx.show(P), "<" if v else ">=", symx.show(Q), [symx.show(x) for x in order]))
        if order[0] != smaller:
            ok_branch = False
    detail = "; ".join(details)
    ctx.site()
    ctx.inst(ok_branch, "R06.1", "branch-smaller-first", brc.loc(),
             "TapBranch hashes TapBranch(smaller child hash, larger child hash) (%s)" % detail,
             "TapBranch does not stream the smaller child first (%s): the verifier folds (k,node) with the smaller first, so proofs do not verify" % detail)
    # the constructor may link the children (m_parent) but must not modify them otherwise: Prove() later reads the children's
    # own hashes as sibling hashes
    ws = prog.write_sets().get(brc.id, {})
    child_writes = sorted({astq.path_str(p_) for p_ in ws if (p_[0][0] == "parm" and len(p_) > 1 and [x for x in p_[1:] if x not in ("*", "[]")][-1:] != ["m_parent"])
                           or (p_[0] == ("this",) and any(x in ("m_l", "m_r") for x in p_[1:]) and [x for x in p_[1:] if x not in ("*", "[]")][-1] not in ("m_l", "m_r", "m_parent"))})
    ctx.site()
    ctx.inst(not child_writes, "R06.1", "branch-does-not-modify-children", brc.loc(),
             "the TapBranch constructor writes only m_parent of its children",
             "the TapBranch constructor modifies its children (%s): Prove() then emits the node's own hash instead of the sibling's whenever the two were swapped" % ", ".join(child_writes))
    # tweak: the function that holds a HashWriter copied from HasherTapTweak - main itself or a helper main calls
    holders = []
    for f_ in fb.funcs.values():
        if f_.file != "tap.cpp" or f_.body is None:
            continue
        for n in f_.nodes():
            if n["k"] == "decl":
                for d in n["decls"]:
                    if d.get("init") is not None and any(y["k"] == "ref" and y.get("dk") == "global" and y["n"] == "HasherTapTweak" for y in walk(d["init"])):
                        holders.append((f_, d))
    tw = None
    hsrc = ["HasherTapTweak"] if holders else []
    where = tapmain
    if len(holders) == 1 and holders[0][0] is tapmain:
        hname = holders[0][1]["n"]
        for n in tapmain.nodes():
            if n["k"] == "opcall" and n.get("op") == "<<":
                base, o = streams.flatten_chain(n)
                if base is not None and base.get("k") == "ref" and base["n"] == hname and len(o) == 2:
                    tw = [astq.estr(x[1]) for x in o]
    elif len(holders) == 1:
        helper = holders[0][0]
        where = helper
        calls_ = [n for n in tapmain.nodes() if n["k"] == "call" and n.get("cid") == helper.id]
        if len(calls_) == 1 and len(helper.params) == 2 and len(calls_[0]["args"]) == 2:
            try:
                houts = [o for o in X.explore(helper, params={helper.params[0]["n"]: ("a", "p0"), helper.params[1]["n"]: ("a", "p1")}) if o.status == "ret"]
            except symx.Unsupported as e:
                raise AnalysisBroken("R06.1: %s: %s" % (helper.name, e))
            want_h = ("ap", "m:GetSHA256", symx.stream(("a", "HasherTapTweak"), (("a", "p0"), "uint256"), (("a", "p1"), "uint256")))
            if houts and all(o.ret == want_h for o in houts):
                tw = [astq.estr(a_) for a_ in calls_[0]["args"]]
            else:
                tw = [symx.show(o.ret) for o in houts][:1]
    ctx.site()
    ctx.inst(tw == ["internal_pubkey_u256", "root->m_hash"] and hsrc == ["HasherTapTweak"], "R06.1", "tweak-stream", where.loc(),
             "tweak = TapTweak(internal key || merkle root)", "tap's tweak hash streams %s into %s; the verifier hashes (internal key, merkle root) with TapTweak" % (tw, hsrc))
    verifier = fb.fn("XOnlyPubKey::ComputeTapTweakHash")
    if len(verifier.params) != 1 or "m_keydata" not in fb.record_fields("XOnlyPubKey"):
        raise AnalysisBroken("R06.1: anchor name(s) ['XOnlyPubKey::m_keydata' / ComputeTapTweakHash(merkle_root)] not found - renamed or restructured")
    MR = ("a", "merkle_root")
    try:
        vouts = [o for o in X.explore(verifier, this=this, params={verifier.params[0]["n"]: MR}) if o.status == "ret"]
    except symx.Unsupported as e:
        raise AnalysisBroken("R06.1: ComputeTapTweakHash: %s" % e)
    with_root = []
    for o in vouts:
        r = o.ret
        if isinstance(r, tuple) and r[:2] == ("ap", "m:GetSHA256") and len(r) == 3:
            base, ops = symx.unmut(r[2])
            if len(ops) == 2:
                with_root.append((base, [op[1] for op in ops]))
    ctx.inst(bool(with_root) and all(b_ == ("a", "HASHER_TAPTWEAK") and o_ == [("f", this, "m_keydata"), ("f", MR, "*")] for (b_, o_) in with_root), "R06.1", "verifier-tweak-stream", verifier.loc(),
             "verifier: TapTweak(key || root)", "the verifier computes the tweak hash as %s; BIP341 defines TapTweak(internal key || merkle root)" % [(symx.show(b_), [symx.show(x) for x in o_]) for (b_, o_) in with_root][:2])
    # ---- R06.2 control block
    ctl_init = [d for n in tapmain.nodes() if n["k"] == "decl" for d in n["decls"] if d["n"] == "ctl"]
    ok_init = bool(ctl_init) and ctl_init[0].get("init") is not None and astq.estr(ctl_init[0]["init"]) == "internal_pubkey"
    prove_calls = [n for n in tapmain.nodes() if n["k"] == "mcall" and n.get("n") == "Prove" and any(astq.estr(a) == "ctl" for a in n["args"])]
    ins = [n for n in tapmain.nodes() if n["k"] == "mcall" and n.get("n") == "insert" and astq.estr(n.get("obj")) == "ctl"]
    cfg = tapmain.cfg()
    ok_ins = len(ins) == 1 and "ctl.begin()" in astq.estr(ins[0]["args"][0]) and "ctl_ln" in astq.estr(ins[0]["args"][1])
    ok_order = ok_init and prove_calls and ok_ins and all(cfg.dominates(ctl_init_node(tapmain), p) for p in prove_calls) and True
    ctx.site()
    ctx.inst(ok_init and bool(prove_calls) and ok_ins, "R06.2", "control-layout", tapmain.loc(ins[0]) if ins else tapmain.loc(),
             "control block = [version|parity][internal key][proof appended by Prove]: the layout read at offsets 0, 1, 33+32i",
             "the control block is not assembled as [version|parity][internal key][proof...]")
    ilen = [n for n in tapmain.nodes() if n["k"] == "if" and "internal_pubkey.size()" in astq.estr(n["cond"]) and "32" in astq.estr(n["cond"])]
    ctx.inst(bool(ilen), "R06.2", "internal-key-32-bytes", tapmain.loc(ilen[0]) if ilen else tapmain.loc(), "the internal key is required to be 32 bytes (so the proof starts at offset 33)")
    # parity polarity by finite-domain tabulation
    ev = [d for n in tapmain.nodes() if n["k"] == "decl" for d in n["decls"] if d["n"] == "is_even"]
    ln = [d for n in tapmain.nodes() if n["k"] == "decl" for d in n["decls"] if d["n"] == "ctl_ln"]
    ok_par = False
    table = {}
    if ev and ln and ev[0].get("init") is not None:
        e = ev[0]["init"]
        while e is not None and e.get("k") == "cast":
            e = e["e"]
        # value of the control byte per truth of is_even: `is_even ? a : b` as initialiser, or assignments under if (is_even) / else
        per = {}
        defs = []
        if ln[0].get("init") is not None:
            defs.append((ln[0]["init"], []))
        for n in tapmain.nodes():
            if n["k"] == "assign" and n["lhs"].get("k") == "ref" and n["lhs"]["n"] == "ctl_ln":
                defs.append((n["rhs"], S._ast_guards_raw(tapmain, n)))
        for (val, gs) in defs:
            c = val
            while c is not None and c.get("k") == "cast":
                c = c["e"]
            if c is not None and c.get("k") == "cond" and astq.estr(c["cond"]) == "is_even":
                per.setdefault(1, set()).add(astq.const_value(c["then"]))
                per.setdefault(0, set()).add(astq.const_value(c["else"]))
                continue
            truth = [t for (g_, t) in gs if astq.estr(S.strip_not(g_)[0]) == "is_even"]
            neg = [S.strip_not(g_)[1] for (g_, t) in gs if astq.estr(S.strip_not(g_)[0]) == "is_even"]
            if truth:
                per.setdefault(1 if (truth[-1] != neg[-1]) else 0, set()).add(astq.const_value(c))
            else:
                per.setdefault(0, set()).add(astq.const_value(c))
                per.setdefault(1, set()).add(astq.const_value(c))
        if e is not None and e.get("k") == "bin" and e["op"] == "==" and all(len(per.get(t_, ())) == 1 and None not in per[t_] for t_ in (0, 1)):
            even_prefix = astq.const_value(e["rhs"])
            tv, fv = list(per[1])[0], list(per[0])[0]
            for prefix in (2, 3):
                is_even = 1 if prefix == even_prefix else 0
                byte = tv if is_even else fv
                table[prefix] = byte
            mask = fb.var("TAPROOT_LEAF_MASK").get("value")
            ok_par = table.get(2) is not None and (table[2] & 1) == 0 and (table[3] & 1) == 1 and (table[2] & mask) == want_lv and (table[3] & mask) == want_lv \
                and "serialized_pk[0]" in astq.estr(e["lhs"])
    ctx.site(2)
    ctx.inst(ok_par, "R06.2", "parity-polarity", tapmain.loc(), "prefix 0x02 -> control byte 0x%02x, prefix 0x03 -> 0x%02x (low bit = parity of the output key, upper bits = leaf version)" % (table.get(2, 0), table.get(3, 0)),
             "control byte per key prefix is %s: the verifier checks CheckTapTweak(p, k, control[0] & 1) and leaf version control[0] & 0xfe == 0x%02x" % (table, want_lv))
    # ---- R06.3
    prove = [f for f in fb.fns("TapBranch::Prove")]
    if not prove:
        raise AnalysisBroken("TapBranch::Prove not found")
    prove = prove[0]
    if len(prove.params) != 2:
        raise AnalysisBroken("R06.3: TapBranch::Prove(child, proof) not found")
    cparam, pparam = prove.params[0]["n"], prove.params[1]["n"]
    P0 = ("a", pparam)

    def appended(t):
        """proof term -> list of hashes appended at the end, or None if a mutation is not an append of [begin(H), end(H))"""
        base, ops = symx.unmut(t)
        if base != P0:
            return None
        cur = P0
        hs = []
        for op in ops:
            if op[0] != "insert" or len(op) != 4:
                return None
            if not symx.contains(op[1], ("ap", "m:end", cur)):
                return None
            b_, e_ = op[2], op[3]
            if not (b_[0] == "ap" and b_[1] == "m:begin" and e_[0] == "ap" and e_[1] == "m:end" and b_[2] == e_[2]):
                return None
            hs.append(b_[2])
            cur = ("ap", "mut:insert", cur) + tuple(op[1:])
        return hs
    sib_ok, rec_ok = True, True
    sel = {}
    for (cname, child, sibling) in (("left", L, R), ("right", R, L), ("other", O, None)):
        try:
            outs = X.explore(prove, this=this, params={cparam: child}, heap={(this, "m_l"): L, (this, "m_r"): R})
        except symx.Unsupported as e:
            raise AnalysisBroken("R06.3: TapBranch::Prove: %s" % e)
        for o in outs:
            if o.status not in ("end", "ret"):
                continue
            rec = [e for e in o.events if e.kind == "mcall" and e.name == "Prove"]
            ptx = rec[0].terms[2] if rec and len(rec[0].terms) >= 3 else X.var(o, pparam)
            hs = appended(ptx)
            if rec and hs == [] and sibling is not None:
                rec_ok = False      # recursion to the parent before anything was appended
                continue
            if hs is None:
                raise AnalysisBroken("R06.3: Prove builds the proof as %s - a form this rule does not interpret" % symx.show(ptx))
            sel.setdefault(cname, set()).add(tuple(symx.show(h) for h in hs))
            if sibling is None:
                if hs:
                    sib_ok = False
                continue
            if hs != [("f", sibling, "m_hash")]:
                sib_ok = False
            parent = ("f", this, "m_parent")
            known_parent = [v for (t, v) in o.conds if t == parent]
            if known_parent and known_parent[0] and not (len(rec) == 1 and rec[0].terms[0] == parent and rec[0].terms[1] == this):
                rec_ok = False
            if rec and not (len(rec) == 1 and rec[0].terms[0] == parent and rec[0].terms[1] == this):
                rec_ok = False
    if "left" not in sel or "right" not in sel:
        raise AnalysisBroken("R06.3: Prove has no completing path for a left / right child")
    ctx.site(3)
    ctx.inst(sib_ok, "R06.3", "sibling-hash", prove.loc(),
             "child == left -> right's hash; child == right -> left's hash; any other node -> nothing is appended",
             "Prove appends %s: the proof must contain the SIBLING's hash of each node on the path" % {k: sorted(v) for k, v in sel.items()})
    ctx.inst(rec_ok, "R06.3", "append-then-recurse", prove.loc(), "the sibling hash is appended at the end of the proof before recursing to the parent with `this` as child",
             "Prove does not (append at the end, then recurse to the parent with this): the verifier folds bottom-up")
    # ---- R06.4 data-dependence closure of the address
    dep = {}
    _ctl_cache = {}

    def control_names(n):
        """locals read by the conditions a write is nested in: the value written there depends on them as well (seed C06-L: the
        leftover leaf is hung under the root only `if (pending == spending_leaf)` - the tree, and with it the address, then
        depends on the selection although no selected value flows into it)"""
        out = set()
        if n.get("k") == "mcall" and astq.is_pure_accessor(n):
            return out          # begin() / data() / operator[] of a non-const container: no write
        if any(astq.is_call(a) and (a.get("n") or "") == "abort" for a in tapmain.ancestors(n)):
            return out          # evaluated as an argument of the terminating diagnostic
        for a in tapmain.ancestors(n):
            if a.get("k") in ("if", "while", "for", "do", "cond") and a.get("cond") is not None and not any(x is n for x in walk(a["cond"])):
                if a["id"] not in _ctl_cache:
                    _ctl_cache[a["id"]] = {y["n"] for y in walk(a["cond"]) if y["k"] == "ref" and y.get("dk") in ("local", "parm")}
                out |= _ctl_cache[a["id"]]
        return out

    _cfg6 = tapmain.cfg()
    _sink_blocks = {p_[0] for p_ in (_cfg6.position(y) for y in tapmain.nodes() if y.get("k") == "ref" and y.get("n") == "serialized_pk") if p_ is not None}
    if not _sink_blocks:
        raise AnalysisBroken("R06.4: `serialized_pk` (the output key the address is encoded from) not found in tap's main")

    def reaches_address(at):
        """a write matters only if the address computation can still be reached from it (not a write in front of the terminating
        diagnostic, not one made by the signing code after the address was printed)"""
        p_ = _cfg6.position(at)
        if p_ is None:
            return True
        return any(p_[0] == b or _cfg6.exists_path(p_[0], b) for b in _sink_blocks)

    def add(t, srcs, at=None):
        if at is not None and not reaches_address(at):
            return
        dep.setdefault(t, set()).update(srcs)
        if at is not None:
            dep[t].update(control_names(at) - {t})
    for n in tapmain.nodes():
        if n["k"] == "decl":
            for d in n["decls"]:
                if d.get("init") is not None:
                    add(d["n"], {y["n"] for y in walk(d["init"]) if y["k"] == "ref" and y.get("dk") in ("local", "parm")}, at=n)
        elif n["k"] in ("assign", "cassign"):
            t = [y["n"] for y in walk(n["lhs"]) if y["k"] == "ref" and y.get("dk") == "local"]
            if t:
                add(t[0], {y["n"] for y in walk(n["rhs"]) if y["k"] == "ref" and y.get("dk") in ("local", "parm")}, at=n)
        elif n["k"] == "opcall" and n.get("op") in ("=", "<<", "+="):
            t = [y["n"] for y in walk(n["args"][0]) if y["k"] == "ref" and y.get("dk") == "local"]
            if t:
                add(t[0], {y["n"] for a in n["args"][1:] for y in walk(a) if y["k"] == "ref" and y.get("dk") in ("local", "parm")}, at=n)
        elif n["k"] == "mcall" and n.get("obj") is not None and n.get("mconst") is False:
            t = [y["n"] for y in walk(n["obj"]) if y["k"] == "ref" and y.get("dk") == "local"]
            if t:
                add(t[0], {y["n"] for a in n["args"] if a for y in walk(a) if y["k"] == "ref" and y.get("dk") in ("local", "parm")}, at=n)
        elif n["k"] == "call" and not (n.get("cid") and prog.resolve(n["cid"])):
            names = {y["n"] for a in n["args"] if a for y in walk(a) if y["k"] == "ref" and y.get("dk") in ("local", "parm")}
            outs = {y["n"] for a in n["args"] if a is not None and a.get("k") == "un" and a["op"] == "&" for y in walk(a) if y["k"] == "ref" and y.get("dk") == "local"}
            outs |= {y["n"] for a in n["args"] if a is not None and a.get("k") == "mcall" and a.get("n") in ("data", "begin") for y in walk(a) if y["k"] == "ref"}
            for o in outs:
                add(o, names - {o}, at=n)
    seen = set()
    st = ["serialized_pk"]
    while st:
        x = st.pop()
        if x in seen:
            continue
        seen.add(x)
        st.extend(dep.get(x, ()))
    if os.environ.get("VERIF_DEBUG_R064"):
        for x in sorted(seen):
            print("R06.4 dep", x, "<-", sorted(dep.get(x, ())))
    forbidden = {"spending_index", "is_tapscript", "spending_leaf", "taproot_input_stack", "taproot_inputs", "ctl", "premade_sig", "privkey", "is_taproot", "spending_script"}
    bad = sorted(seen & forbidden)
    ctx.site(len(seen))
    ctx.inst("internal_pubkey" in seen and "scripts" in seen and not bad, "R06.4", "address-independent-of-spend-selection", tapmain.loc(),
             "the address depends (data flow) on %d variables incl. the internal key and the scripts, none of the spend selection" % len(seen),
             "the printed address depends on %s: it differs when a leaf is selected for spending" % bad)
    ctx.extra["address_data_dependences"] = sorted(seen)

    # ---- R06.5 the prefix an address starts with is the prefix its checksum covers: in bech32::Encode the term handed to
    # CreateChecksum as human-readable part occurs, as it is, at the front of the returned string (through concatenation only -
    # not re-cased, filtered or transformed on one side and not on the other).
    ctx.rule("R06.5", "bech32::Encode writes the same human-readable part it check-sums")
    from .. import symx as _sx6
    enc = [g for g in fb.funcs.values() if g.name == "bech32::Encode" and g.body is not None]
    if not enc:
        raise AnalysisBroken("R06.5: bech32::Encode not found")
    X6 = _sx6.Explorer(prog, inline=lambda fn, n_: False, transparent=lambda n_: True)
    outs6 = [o for o in X6.explore(enc[0], limit=400) if o.status == "ret" and o.ret is not None]

    def plain_parts(t, depth=0):
        """terms that make up the string t through concatenation alone"""
        out = [t]
        if not isinstance(t, tuple) or depth > 12:
            return out
        if t[0] == "lin":
            for (k_, c_) in t[2]:
                if c_ == 1:
                    out += plain_parts(k_, depth + 1)
        elif t[0] == "ap" and t[1] == "loopvar" and len(t) >= 5:
            out += plain_parts(t[4], depth + 1)      # the value before the loop; what the loop appends is not "as it is"
        elif t[0] == "ap" and t[1] in ("mut:reserve", "mut:+=", "mut:append", "mut:push_back", "+", "new:std::basic_string", "mut:insert") and len(t) >= 3:
            for a_ in t[2:]:
                out += plain_parts(a_, depth + 1)
        return out
    n65 = 0
    bad65 = None
    for o in outs6:
        sums = [e for e in o.events if e.kind == "call" and e.name == "CreateChecksum" and len(e.terms) >= 2]
        if not sums:
            continue
        n65 += 1
        H = sums[0].terms[1]
        if H not in plain_parts(o.ret):
            bad65 = (_sx6.show(H)[:40], _sx6.show(o.ret)[:120])
    ctx.site(n65)
    ctx.floor("R06.5", n65, 1, "returning paths of bech32::Encode that compute a checksum")
    ctx.inst(bad65 is None, "R06.5", "written-prefix-is-the-checksummed-prefix", enc[0].loc(), "the human-readable part handed to CreateChecksum is the front of the returned string",
             "bech32::Encode check-sums `%s` but returns `%s`, where that term is not written as it is: for a prefix the transformation changes (an upper-case --addrprefix) the address carries a checksum over a different prefix and is invalid"
             % (bad65 if bad65 else ("", "")))


def ctl_init_node(func):
    for n in func.nodes():
        if n["k"] == "decl" and any(d["n"] == "ctl" for d in n["decls"]):
            return n
    return func.body


MUTANTS = [
    dict(name="prefix-lowered-after-the-checksum", file="bech32.cpp", find="    std::string ret = hrp + '1';\n", replace="    std::string ret;\n    for (const char& c : hrp) ret += LowerCase(c);\n    ret += '1';\n", expect=["R06.5:written-prefix-is-the-checksummed-prefix"]),
    dict(name="branch-sorts-children-in-place", file="tap.cpp", find="        auto h_l = m_l->m_hash;\n        auto h_r = m_r->m_hash;", replace="        auto& h_l = m_l->m_hash;\n        auto& h_r = m_r->m_hash;", expect=["R06.1:branch-does-not-modify-children"]),
    dict(name="tag-typo-tap", file="tap.cpp", find="HasherTapBranch = TaggedHash(\"TapBranch\")", replace="HasherTapBranch = TaggedHash(\"TapBranches\")", expect=["R06.1:tag=HasherTapBranch"]),
    dict(name="leaf-version-c1", file="tap.cpp", find="hasher << static_cast<uint8_t>(0xc0) << script;", replace="hasher << static_cast<uint8_t>(0xc1) << script;", expect=["R06.1:leaf-stream"]),
    dict(name="branch-larger-first", file="tap.cpp", find="if (std::lexicographical_compare(h_r.begin(), h_r.end(), h_l.begin(), h_l.end())) {", replace="if (std::lexicographical_compare(h_l.begin(), h_l.end(), h_r.begin(), h_r.end())) {", expect=["R06.1:branch-smaller-first"]),
    dict(name="tweak-operands-swapped", file="tap.cpp", find="hasher << internal_pubkey_u256 << root->m_hash;", replace="hasher << root->m_hash << internal_pubkey_u256;", expect=["R06.1:tweak-stream"]),
    dict(name="parity-swapped", file="tap.cpp", find="uint8_t ctl_ln = is_even ? 0xc0 : 0xc1;", replace="uint8_t ctl_ln = is_even ? 0xc1 : 0xc0;", expect=["R06.2:parity-polarity"]),
    dict(name="even-prefix-wrong", file="tap.cpp", find="int is_even = serialized_pk[0] == 0x02;", replace="int is_even = serialized_pk[0] == 0x03;", expect=["R06.2:parity-polarity"]),
    dict(name="prove-own-hash", file="tap.cpp", find="        if (child == m_l) {\n            hash = m_r->m_hash;", replace="        if (child == m_l) {\n            hash = m_l->m_hash;", expect=["R06.3:sibling-hash"]),
    dict(name="prove-recurse-first", file="tap.cpp", find="        proof.insert(proof.end(), hash.begin(), hash.end());\n        if (m_parent) m_parent->Prove(this, proof);", replace="        if (m_parent) m_parent->Prove(this, proof);\n        proof.insert(proof.end(), hash.begin(), hash.end());", expect=["R06.3:append-then-recurse"]),
    dict(name="address-depends-on-spend", file="tap.cpp", find="    hasher << internal_pubkey_u256 << root->m_hash;", replace="    hasher << internal_pubkey_u256 << (is_tapscript ? spending_leaf->m_hash : root->m_hash);", expect=["R06.4:address-independent-of-spend-selection", "R06.1:tweak-stream"]),
    dict(name="version-byte-appended", file="tap.cpp", find="ctl.insert(ctl.begin(), &ctl_ln, &ctl_ln + 1);", replace="ctl.insert(ctl.end(), &ctl_ln, &ctl_ln + 1);", expect=["R06.2:control-layout"]),
]
