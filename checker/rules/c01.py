"""C01 - stepping follows Bitcoin's script rules: the domain, dispatch and internal-consistency clauses (DESIGN.md section 4, C01)."""
from .. import astq, structure as S
from ..engines import ExcEngine
from ..facts import AnalysisBroken, walk
from . import common

EXPLANATION = (
    "Decides the domain / dispatch / internal-consistency clauses of the opcode loop, not the per-opcode value semantics. "
    "R01.1: the refusal domain equals the handler domain (MAX_OPCODE is the largest defined opcode, every handled opcode passes "
    "HasValidOps, and every HasValidOps / parse_script result on user input is branched on with a failing exit). R01.2: every "
    "enumerator of opcodetype is a push (<= OP_PUSHDATA4), a case label of the opcode switch, or one of the six reserved opcodes "
    "handled by a default that returns BAD_OPCODE. R01.3 (contradiction rule): in every case group the depth the code actually "
    "accesses (stacktop(-k), end()-k, pops counted along dominating paths) is covered by a dominating stack-size guard, static "
    "groups are not over-guarded, guards use the consensus error code, and for computed depths the range test is taken at the same "
    "stack height as the access. R01.4: no exception can leave Instance::step (a throwing operation is a failed step). R01.5: every "
    "script switch of the session stepper is dominated by a rejecting conditional-balance test and re-initialises pc, pend, "
    "pbegincodehash and the op counter. R01.7: the disabled-opcode gate precedes the executed/unexecuted test. Arithmetic, "
    "comparison and stack-shuffling results of each opcode are NOT decided (no second implementation exists in the tree).")
TRUSTED = ["clang 14 parser/Sema/CFG", "/verif extractor and engines", "the frozen table of reserved opcodes and of guard error codes (Bitcoin consensus)"]
ASSUMPTIONS = ["stack accesses are made through stacktop()/at(size()+k), end()-k, back(), pops and erases (the idioms enumerated from the tree)"]
DECLINED = ["per-opcode value semantics (arithmetic, comparison, CastToBool, CheckMinimalPush outcomes)", "OP_SUCCESSx treatment in tapscript sessions (not modelled by the debugger; see DESIGN.md)"]

RESERVED = {"OP_RESERVED", "OP_VER", "OP_VERIF", "OP_VERNOTIF", "OP_RESERVED1", "OP_RESERVED2"}
GUARD_ERR_EXCEPTIONS = {"OP_IF": "SCRIPT_ERR_UNBALANCED_CONDITIONAL", "OP_NOTIF": "SCRIPT_ERR_UNBALANCED_CONDITIONAL",
                        "OP_FROMALTSTACK": "SCRIPT_ERR_INVALID_ALTSTACK_OPERATION", "OP_VERIFY": None}
DEFAULT_GUARD_ERR = "SCRIPT_ERR_INVALID_STACK_OPERATION"


def container_of(func, al, expr):
    """'stack' / 'altstack' if expr denotes the session's main / alt stack (through aliases)"""
    for p in astq.paths(expr, al):
        fl = [f for f in p[1:] if f not in ("[]", "*")]
        if fl and fl[-1] in ("stack", "altstack"):
            return fl[-1]
        if len(p) == 1 and p[0][0] in ("local", "parm") and p[0][1].split("#")[0] in ("stack", "altstack"):
            return p[0][1].split("#")[0]
    return None


def size_call(func, al, n):
    if n is not None and n.get("k") == "cast":
        return size_call(func, al, n["e"])
    if n is not None and n.get("k") == "mcall" and n.get("n") == "size":
        return container_of(func, al, n.get("obj"))
    return None


def _lin(func, al, e, cont):
    """(constant, {atom text: coefficient}, coefficient of <cont>.size()) of an integer expression in linear form, or None"""
    while e is not None and e.get("k") == "cast":
        e = e["e"]
    if e is None:
        return None
    cv = astq.const_value(e)
    if cv is not None:
        return (cv, {}, 0)
    if size_call(func, al, e) == cont:
        return (0, {}, 1)
    if e.get("k") == "bin" and e["op"] in ("+", "-"):
        a, b = _lin(func, al, e["lhs"], cont), _lin(func, al, e["rhs"], cont)
        if a is None or b is None:
            return None
        sg = 1 if e["op"] == "+" else -1
        d = dict(a[1])
        for k_, v_ in b[1].items():
            d[k_] = d.get(k_, 0) + sg * v_
        return (a[0] + sg * b[0], {k_: v_ for k_, v_ in d.items() if v_}, a[2] + sg * b[2])
    if e.get("k") == "un" and e.get("op") == "-":
        a = _lin(func, al, e["e"], cont)
        return None if a is None else (-a[0], {k_: -v_ for k_, v_ in a[1].items()}, -a[2])
    return (0, {astq.estr(e): 1}, 0)


def _depth_of_index(func, al, idx, cont, from_end=False):
    """an index into <cont> written relative to its size: ('static', depth) for size()-depth, ('dyn', expr) when other variables
    are involved, None when the index is not relative to the size. Hoisted locals are expanded first. from_end: the expression is
    the k of `end() - k`."""
    x = idx
    l = _lin(func, al, x, cont)
    if l is None or l[2] == 0:
        # not relative to the size as written: look through hoisted locals, but keep locals that hold script data (declared from
        # a call) as variables so that their range test can still be found
        def _top(e_):
            while e_ is not None and e_.get("k") in ("cast", "defarg"):
                e_ = e_.get("e")
            return e_
        keep = tuple(d_["n"] for n_ in func.nodes() if n_["k"] == "decl" for d_ in n_["decls"]
                     if d_.get("init") is not None and (_top(d_["init"]) or {}).get("k") in ("call", "mcall", "ctor") and (_top(d_["init"]) or {}).get("n") != "size")
        x = astq.expand(func, idx, keep=keep)
        l = _lin(func, al, x, cont)
    if l is None:
        return None
    c0, atoms, sz = l
    if from_end:
        c0, atoms, sz = -c0, {k_: -v_ for k_, v_ in atoms.items()}, 1 - sz
    if sz != 1:
        return None
    if not atoms:
        return ("static", -c0) if c0 < 0 else None
    return ("dyn", x)


def stack_events(func, al, region_nodes):
    """accesses, pops, pushes, guards found in a region (list of nodes, pre-walked)"""
    acc, pops, pushes, guards, dyn = [], [], [], [], []
    for n in region_nodes:
        k = n["k"]
        if k == "mcall" and n.get("n") == "at" and n["args"]:
            c = container_of(func, al, n.get("obj"))
            a = n["args"][0]
            if c and a.get("k") == "bin" and a["op"] == "+" and size_call(func, al, a["lhs"]) == c:
                cv = astq.const_value(a["rhs"])
                if cv is not None:
                    if cv < 0:
                        acc.append((c, -cv, n))
                else:
                    dyn.append((c, a["rhs"], n))
                continue
            # other spellings of an index relative to the size (size() - n - 1, a hoisted position, ...)
            r_ = _depth_of_index(func, al, a, c) if c else None
            if r_ is not None and r_[0] == "static":
                acc.append((c, r_[1], n))
            elif r_ is not None:
                dyn.append((c, r_[1], n))
        elif k == "mcall" and n.get("n") in ("back",):
            c = container_of(func, al, n.get("obj"))
            if c:
                acc.append((c, 1, n))
        elif k == "opcall" and n["op"] == "-" and len(n["args"]) == 2:
            a0 = n["args"][0]
            if a0.get("k") == "mcall" and a0.get("n") == "end":
                c = container_of(func, al, a0.get("obj"))
                cv = astq.const_value(n["args"][1])
                if c and cv is not None and cv > 0:
                    acc.append((c, cv, n))
                elif c and cv is None:
                    dyn.append((c, n["args"][1], n))
        elif k == "opcall" and n["op"] == "+" and len(n["args"]) == 2 and n["args"][0].get("k") == "mcall" and n["args"][0].get("n") == "begin":
            # begin() + (size() - k): the same element as end() - k
            c = container_of(func, al, n["args"][0].get("obj"))
            r_ = _depth_of_index(func, al, n["args"][1], c) if c else None
            if r_ is not None and r_[0] == "static":
                acc.append((c, r_[1], n))
            elif r_ is not None:
                dyn.append((c, r_[1], n))
        elif k == "call" and n.get("n") == "_popstack" and n["args"]:
            c = container_of(func, al, n["args"][0])
            if c:
                pops.append((c, n))
        elif k == "mcall" and n.get("n") == "pop_back":
            c = container_of(func, al, n.get("obj"))
            if c:
                pops.append((c, n))
        elif k == "mcall" and n.get("n") in ("push_back", "insert", "emplace_back"):
            c = container_of(func, al, n.get("obj"))
            if c:
                pushes.append((c, n))
        elif k == "if":
            cond = n["cond"]
            for d in S.disjuncts(cond):
                if d is not None and d.get("k") == "bin" and d["op"] in ("<", "<="):
                    c = size_call(func, al, d["lhs"])
                    if c:
                        cv = astq.const_value(d["rhs"])
                        errs = [x for x in walk(n["then"]) if x["k"] == "call" and x.get("n") == "set_error"]
                        err = astq.estr(errs[0]["args"][1]) if errs and len(errs[0]["args"]) == 2 else None
                        if cv is not None:
                            N = cv if d["op"] == "<" else cv + 1
                            guards.append((c, N, n, err, d))
                        else:
                            guards.append((c, None, n, err, d))
    return acc, pops, pushes, guards, dyn


def check_group_depths(ctx, func, al, cfg, gname, region_nodes, first_label, rule="R01.3"):
    acc, pops, pushes, guards, dyn = stack_events(func, al, region_nodes)
    for cont in ("stack", "altstack"):
        a_c = [(k, n) for (c, k, n) in acc if c == cont]
        p_c = [n for (c, n) in pops if c == cont]
        u_c = [n for (c, n) in pushes if c == cont]
        g_c = [(N, n, err, d) for (c, N, n, err, d) in guards if c == cont]
        d_c = [(e, n) for (c, e, n) in dyn if c == cont]
        if not a_c and not p_c and not g_c and not d_c:
            continue

        def pops_dom(node):
            return len([p for p in p_c if p is not node and cfg.dominates(p, node)])

        def pushes_dom(node):
            return len([u for u in u_c if cfg.dominates(u, node)])
        needs = []
        for (k, n) in a_c:
            if pushes_dom(n):
                continue
            needs.append((k + pops_dom(n), n, "access at depth %d after %d pop(s)" % (k, pops_dom(n))))
        for p in p_c:
            if pushes_dom(p):
                continue
            needs.append((1 + pops_dom(p), p, "pop number %d" % (1 + pops_dom(p))))
        static_guards = [(N, n, err, d) for (N, n, err, d) in g_c if N is not None]
        # under-guard: every need must be covered by a dominating guard
        worst = None
        for (need, n, why) in needs:
            ctx.site()
            cover = [N for (N, gn, err, d) in static_guards if cfg.dominates(d, n)]
            dyn_cover = [gn for (N, gn, err, d) in g_c if N is None and cfg.dominates(d, n)]
            G = max(cover) if cover else 0
            if need > G and not dyn_cover:
                if worst is None or need - G > worst[0] - worst[3]:
                    worst = (need, n, why, G)
        key = "%s:%s" % (gname, cont)
        if worst:
            need, n, why, G = worst
            ctx.fail(rule, "depth-covered=" + key, func.loc(n),
                     "case %s: %s on %s needs %d item(s) but the dominating size guard only ensures %d: the operation throws (out_of_range / popstack) instead of failing with a script error"
                     % (gname, why, cont, need, G))
        elif needs:
            ctx.ok(rule, "depth-covered=" + key, func.loc(needs[0][1]), "every static access/pop on %s (max depth %d) is covered by a dominating size guard" % (cont, max(x[0] for x in needs)))
        # over-guard (static groups only)
        if static_guards and not d_c and not any(N is None for (N, gn, err, d) in g_c) and needs:
            top = max(x[0] for x in needs)
            GN = max(N for (N, gn, err, d) in static_guards)
            ctx.inst(GN <= top, rule, "not-over-guarded=" + key, func.loc(static_guards[0][1]),
                     "the guard (%d) does not demand more than the case uses (%d)" % (GN, top),
                     "case %s demands %d item(s) on %s but never touches more than %d: valid scripts are rejected" % (gname, GN, cont, top))
        # error code
        for (N, gn, err, d) in g_c:
            want = GUARD_ERR_EXCEPTIONS.get(first_label, DEFAULT_GUARD_ERR) if first_label in GUARD_ERR_EXCEPTIONS else DEFAULT_GUARD_ERR
            if cont == "altstack":
                want = "SCRIPT_ERR_INVALID_ALTSTACK_OPERATION"
            if want is None or err is None:
                continue
            ctx.inst(err == want, rule, "guard-error=%s:%s" % (key, N), func.loc(gn),
                     "size guard fails with %s" % want, "size guard of case %s fails with %s, consensus uses %s" % (gname, err, want))
        # computed depths: the range test must be taken at the same stack height as the access
        if any(N is None for (N, gn, err, d) in g_c):
            # listed exception (one reason): the guards of this group are themselves computed (`size() < i` with a running
            # counter, OP_CHECKMULTISIG); relating i / ikey / isig is value-level reasoning and is declined here
            ctx.note("R01.3: case %s uses computed guards and computed depths on %s; depth bookkeeping not judged" % (gname, cont))
            continue
        for (e, n) in d_c:
            ctx.site()
            vars_ = {x["d"] for x in walk(e) if x["k"] == "ref" and x.get("dk") == "local"}
            if not vars_:
                continue
            tests = []
            for m in region_nodes:
                if m["k"] == "bin" and m["op"] in ("<", "<=", ">", ">=") and (size_call(func, al, m["lhs"]) == cont or size_call(func, al, m["rhs"]) == cont):
                    other = m["rhs"] if size_call(func, al, m["lhs"]) == cont else m["lhs"]
                    ov = {x["d"] for x in walk(other) if x["k"] == "ref" and x.get("dk") == "local"}
                    if ov & vars_ and cfg.dominates(m, n):
                        tests.append(m)
            if not tests:
                ctx.fail(rule, "dynamic-depth-tested=%s:%s" % (key, astq.estr(e)[:20]), func.loc(n),
                         "computed stack depth `%s` is used without a dominating comparison with %s.size()" % (astq.estr(e), cont))
                continue
            t = tests[-1]
            same = pops_dom(t) == pops_dom(n) and pushes_dom(t) == pushes_dom(n)
            ctx.inst(same, rule, "dynamic-depth-same-height=%s:%s" % (key, astq.estr(e)[:20]), func.loc(n),
                     "the range test of `%s` is evaluated at the same stack height as the access" % astq.estr(e),
                     "case %s: `%s` is range-checked against %s.size() at a different stack height (%d pop(s) before the test, %d before the access): an index one past the end passes the test"
                     % (gname, astq.estr(e), cont, pops_dom(t), pops_dom(n)))


def run(ctx, anchors=None):
    fb, prog = ctx.facts, ctx.prog
    A = anchors or {"opstep": ("StepScript", "script/interpreter.cpp"), "ext": ("StepExtended", "debugger/interpreter.cpp"),
                    "stepper": ("StepScript", "debugger/interpreter.cpp"), "step": ("Instance::step", "instance.cpp"),
                    "valid": "CScript::HasValidOps"}
    opstep = fb.fn(*A["opstep"])
    ext = fb.fn(*A["ext"])
    stepper = fb.fn(*A["stepper"])
    ctx.rule("R01.1", "refusal domain == handler domain; refusal results are branched on")
    ctx.rule("R01.2", "every opcode enumerator is a push, a case label, or reserved (default -> BAD_OPCODE)")
    ctx.rule("R01.3", "stack-size guard vs actual access depth (contradiction rule), guard error codes, computed depths tested at the same height")
    ctx.rule("R01.4", "no exception leaves Instance::step / the step command")
    ctx.rule("R01.5", "every script switch: dominated by a rejecting balance test; pc, pend, pbegincodehash, op counter re-initialised")
    ctx.rule("R01.7", "the disabled-opcode gate precedes the executed/unexecuted test")
    al = astq.aliases(opstep)

    def is_opcode(e, al_=al):
        return any(p[-1] == "opcode" for p in astq.paths(e, al_))
    # ---- enumerators
    en = fb.enum("opcodetype")
    E = {c["n"]: c["v"] for c in en["consts"] if c["n"] != "OP_INVALIDOPCODE"}
    maxop = fb.var("MAX_OPCODE")
    sws = [s for s in S.find_switches(opstep) if is_opcode(s["cond"])]
    if not sws:
        raise AnalysisBroken("opcode switch not found")
    main_sw = sws[0]
    groups = S.case_groups(main_sw)
    H = {}
    default_group = None
    for g in groups:
        for (nm, v, cn) in g.labels:
            if v == "default":
                default_group = g
            else:
                H[v] = nm
    esw = [s for s in S.find_switches(ext) if is_opcode(s["cond"], astq.aliases(ext))]
    for g in (S.case_groups(esw[0]) if esw else []):
        for (nm, v, cn) in g.labels:
            if v != "default":
                H.setdefault(v, nm)
    ctx.floor("R01.2", len(E), 110, "enumerators of opcodetype")
    ctx.floor("R01.2", len(H), 95, "distinct case labels of the opcode switches")
    mx = max(E.values())
    mxn = [n for n, v in E.items() if v == mx][0]
    ctx.inst(maxop.get("value") == mx, "R01.1", "MAX_OPCODE=max-defined", "%s:%d" % (maxop["file"], maxop["line"]),
             "MAX_OPCODE (0x%x) is the largest defined opcode %s" % (mx, mxn),
             "MAX_OPCODE is 0x%x but %s (0x%x) is defined and handled: HasValidOps refuses scripts containing it as 'invalid script'"
             % (maxop.get("value") or 0, mxn, mx))
    over = sorted(n for v, n in H.items() if v > (maxop.get("value") or 0))
    ctx.inst(not over, "R01.1", "handled<=MAX_OPCODE", opstep.loc(main_sw), "every handled opcode passes the HasValidOps range test",
             "handled opcode(s) %s exceed MAX_OPCODE and are refused before execution" % ", ".join(x.split("::")[-1] for x in over))
    # refusal results are used
    nref = 0
    for f in fb.funcs.values():
        if f.file in ("mastify.cpp", "merklebranch.cpp") or f.file.startswith("test/"):
            continue
        for n in f.nodes():
            if n["k"] == "mcall" and n.get("n") in ("HasValidOps", "parse_script") and (n.get("callee") or "").split("::")[0] in ("CScript", "Instance"):
                nref += 1
                ctx.site()
                par = f.parent(n)
                used = False
                p = par
                while p is not None and p.get("k") in ("un", "cast"):
                    p = f.parent(p)
                if p is not None and p.get("k") in ("if", "return", "bin", "cond"):
                    used = True
                # held in a local that a condition reads (`const bool ok = s.HasValidOps(); if (!ok || ...)`)
                held = None
                for dn in f.nodes():
                    if dn["k"] == "decl":
                        for d in dn["decls"]:
                            i0 = d.get("init")
                            while i0 is not None and i0.get("k") in ("cast", "un", "paren"):
                                i0 = i0["e"]
                            if i0 is n:
                                held = d["d"]
                    if dn["k"] == "assign" and dn["rhs"] is n and dn["lhs"].get("k") == "ref":
                        held = dn["lhs"].get("d")
                if held is not None and any(c_["k"] in ("if", "cond", "while") and any(x["k"] == "ref" and x.get("d") == held for x in walk(c_.get("cond"))) for c_ in f.nodes()):
                    used = True
                if held is not None and any(r_["k"] == "return" and any(x["k"] == "ref" and x.get("d") == held for x in walk(r_.get("e"))) for r_ in f.nodes()):
                    used = True
                ctx.inst(used, "R01.1", "refusal-used:%s@%s" % (n.get("n"), f.name), f.loc(n),
                         "the result of %s is branched on / returned" % n.get("n"),
                         "the result of %s is discarded in %s: an undecodable script would be executed" % (n.get("n"), f.name))
    ctx.floor("R01.1", nref, 4, "uses of HasValidOps / parse_script")
    # ---- R01.2
    pushmax = E.get("OP_PUSHDATA4")
    if pushmax is None:
        raise AnalysisBroken("OP_PUSHDATA4 missing")
    # the push branch: `0 <= opcode && opcode <= OP_PUSHDATA4`
    push_branch = [n for n in opstep.nodes() if n["k"] == "bin" and n["op"] == "<=" and is_opcode(n["lhs"]) and astq.const_value(n["rhs"]) == pushmax]
    ctx.inst(bool(push_branch), "R01.2", "push-range-branch", opstep.loc(push_branch[0]) if push_branch else opstep.loc(),
             "opcodes <= OP_PUSHDATA4 are handled by the push branch")
    dflt_ok = False
    if default_group is not None:
        errs = [x for x in default_group.nodes() if x["k"] == "call" and x.get("n") == "set_error"]
        dflt_ok = len(errs) == 1 and astq.estr(errs[0]["args"][1]).endswith("SCRIPT_ERR_BAD_OPCODE")
    ctx.inst(dflt_ok, "R01.2", "default-is-BAD_OPCODE", opstep.loc(main_sw), "the default of the opcode switch returns SCRIPT_ERR_BAD_OPCODE")
    for name, v in sorted(E.items(), key=lambda x: x[1]):
        ctx.site()
        if v <= pushmax:
            continue
        if v in H:
            continue
        ctx.inst(name in RESERVED, "R01.2", "dispatch=" + name, opstep.loc(main_sw), "%s is reserved: default -> BAD_OPCODE" % name,
                 "%s (0x%x) is a defined opcode with no case label: it fails as BAD_OPCODE instead of executing" % (name, v))
    ctx.ok("R01.2", "all-enumerators-dispatched", opstep.loc(main_sw), "%d enumerators: push range, %d case labels, %d reserved" % (len(E), len(H), len(RESERVED)))

    # ---- R01.2b conditional opcodes are dispatched even in a skipped branch: the dispatch condition in front of the opcode
    # switch, evaluated with fExec = false over every opcode value, must select exactly OP_IF..OP_ENDIF (0x63..0x68),
    # which includes the always-failing OP_VERIF / OP_VERNOTIF
    from .. import fd
    disp = None
    for a in opstep.ancestors(main_sw):
        if a.get("k") == "if" and (a.get("then") is main_sw or S.contains(a["then"], main_sw)):
            disp = a
            break
    if disp is None:
        ctx.fail("R01.2", "conditional-dispatch-range", opstep.loc(main_sw), "the opcode switch is no longer guarded by the `fExec || <conditional opcode>` dispatch condition")
    else:
        try:
            FX = common.executed_flag(opstep)
            sel = [v for v in range(0, 256) if fd.ev(disp["cond"], {FX: 0, "opcode": v})]
            selx = [v for v in range(0, 256) if fd.ev(disp["cond"], {FX: 1, "opcode": v})]
        except fd.Unknown as e:
            raise AnalysisBroken("R01.2: dispatch condition not evaluable: %s" % e)
        want = list(range(E["OP_IF"], E["OP_ENDIF"] + 1))
        inv = {v: k for k, v in E.items()}
        ctx.site(512)
        ctx.inst(sel == want and len(selx) == 256, "R01.2", "conditional-dispatch-range", opstep.loc(disp),
                 "with fExec false exactly OP_IF..OP_ENDIF (incl. OP_VERIF, OP_VERNOTIF) reach the opcode switch; with fExec true every opcode does",
                 "in a non-executed branch the opcodes reaching the switch are %s; Bitcoin dispatches exactly OP_IF..OP_ENDIF there (missing: %s) - a skipped %s no longer fails the script"
                 % ([inv.get(v, hex(v)) for v in sel], [inv.get(v, hex(v)) for v in want if v not in sel], "/".join(inv.get(v, hex(v)) for v in want if v not in sel) or "opcode"))
    # ---- R01.3
    cfg = opstep.cfg()
    ng = 0
    for g in groups:
        labels = [nm for (nm, v, cn) in g.labels if v != "default"]
        if not labels:
            continue
        if any(x["k"] == "call" and x.get("cid") == ext.id for x in g.nodes()):
            continue
        ng += 1
        gname = "/".join(x.split("::")[-1] for x in labels[:2]) + ("+%d" % (len(labels) - 2) if len(labels) > 2 else "")
        check_group_depths(ctx, opstep, al, cfg, gname, list(g.nodes()), labels[0].split("::")[-1])
    ecfg = ext.cfg()
    eal = astq.aliases(ext)
    for g in (S.case_groups(esw[0]) if esw else []):
        labels = [nm for (nm, v, cn) in g.labels if v != "default"]
        if not labels:
            continue
        ng += 1
        gname = "/".join(x.split("::")[-1] for x in labels[:2]) + ("+%d" % (len(labels) - 2) if len(labels) > 2 else "")
        check_group_depths(ctx, ext, eal, ecfg, "ext:" + gname, list(g.nodes()), labels[0].split("::")[-1])
    ctx.floor("R01.3", ng, 40, "case groups analysed")

    # ---- R01.4
    exc = ExcEngine(prog)
    step = fb.fn(*A["step"])
    esc = {t: w for t, w in exc.escaping(step).items() if w[0] != "libcall" and t != "tinyformat::format_error" and "may throw" not in (exc.chain(step, t, 40) or [""])[-1]}
    ctx.site(len(step.nodes()))
    ctx.inst(not esc, "R01.4", "step-converts-exceptions", step.loc(),
             "every exception thrown below Instance::step is caught there and becomes a failed step",
             "exception %s can leave Instance::step: %s" % (", ".join(sorted(esc)), " -> ".join(exc.chain(step, sorted(esc)[0])[:6]) if esc else ""))
    # the catch must cover the throw types of a step: handler type std::exception or ...
    tries = [n for n in step.nodes() if n["k"] == "try"]
    ok_handler = any(h["ty"] in ("std::exception", "...") for t in tries for h in t["handlers"])
    ctx.inst(ok_handler, "R01.4", "step-handler-general", step.loc(), "Instance::step catches std::exception (or everything)")

    # ---- R01.5
    sal = astq.aliases(stepper)
    scfg = stepper.cfg()
    switches = common.script_switches(prog, stepper)
    ctx.floor("R01.5", len(switches), 2, "script switches in the session stepper")
    bal = []
    for n in stepper.nodes():
        if n["k"] == "mcall" and n.get("n") == "empty" and any(p[1:2] == ("vfExec",) for p in astq.paths(n.get("obj"), sal)):
            # rejecting edge: !empty -> set_error
            bal.append(n)
    rej = [x for x in stepper.nodes() if x["k"] == "call" and x.get("n") == "set_error"]

    def writes_field(fld):
        return common.field_writers(prog, stepper, fld)
    for swn in switches:
        ctx.site()
        key = astq.estr(swn)[:40]
        good = []
        for b in bal:
            if not scfg.dominates(b, swn):
                continue
            # which edge of the test leads to the switch, and does the other one reject?
            for (blk, s_, c, t) in scfg.cond_edges():
                if c == b["id"]:
                    reach = scfg.reachable_from(s_)
                    if scfg.position(swn)[0] not in reach or True:
                        pass
            # `!vfExec.empty()` true edge must reject
            e_true = [s_ for (blk, s_, c, t) in scfg.cond_edges() if c == b["id"] and t is False]
            if e_true and scfg.must_pass_from_block(e_true[0], rej + [x for x in stepper.nodes() if x["k"] == "return" and astq.const_value(x.get("e")) == 0]):
                good.append(b)
        ctx.inst(bool(good), "R01.5", "balance-check-at-switch:" + key, stepper.loc(swn),
                 "the switch is dominated by a vfExec.empty() test whose non-empty edge rejects",
                 "the script switch `%s` is not preceded by a rejecting vfExec.empty() test: a conditional opened in one script can be closed by the next" % key)
        for fld in ("pc", "pend", "pbegincodehash", "nOpCount", "altstack"):
            ws = writes_field(fld)
            ctx.inst(bool(ws) and (any(w is swn for w in ws) or scfg.must_pass_after(swn, ws)), "R01.5", "reinit:%s:%s" % (fld, key), stepper.loc(swn),
                     "%s is re-initialised after the switch on every path" % fld,
                     "after the script switch `%s` the stepper can return without re-initialising %s%s" % (key, fld, " (every script starts with an empty alt stack: EvalScript keeps it local)" if fld == "altstack" else ""))

    # ---- R01.7
    gate = None
    for n in opstep.nodes():
        if n["k"] == "if":
            for c in S.conjuncts(n["cond"]):
                labs = common.opcode_predicate_set(prog, opstep, c, is_opcode)
                if labs and 8 <= len(labs) <= 64:
                    gate = n
    if gate is None:
        ctx.fail("R01.7", "gate-present", opstep.loc(), "the disabled-opcode gate is missing from the operation step")
    else:
        FX = common.executed_flag(opstep)
        fexec_reads = [n for n in opstep.nodes() if n["k"] == "ref" and n["n"] == FX and n.get("dk") == "local"]
        early = [r for r in fexec_reads if cfg.dominates(r, gate["cond"])]
        nested = [(c, t) for (c, t) in S.ast_guards(opstep, gate) if any(x["k"] == "ref" and x["n"] == FX for x in walk(c))]
        incond = any(x["k"] == "ref" and x["n"] == FX for x in walk(gate["cond"]))
        ctx.inst(not early and not nested and not incond, "R01.7", "gate-before-executed-test", opstep.loc(gate),
                 "disabled opcodes fail before the executed/unexecuted test",
                 "the disabled-opcode gate depends on fExec: a disabled opcode in an unexecuted branch no longer fails")

    # ---- R01.8 the conditional stack. ConditionStack keeps (size, position of the first false) instead of a vector of booleans;
    # every member function must act on that pair as the vector operation acts on the vector it stands for (refinement, decided by
    # cases on where the first false is: none / on top / below the top). G-SYM evaluates each member with the case decided.
    from .. import symx as _sx
    ctx.rule("R01.8", "ConditionStack's members refine the operations of a stack of booleans (cases: all true / first false on top / first false below)")
    THIS_ = ("a", "this")
    need = ["m_stack_size", "m_first_false_pos"]
    have = set(fb.record_fields("ConditionStack"))
    if [x for x in need if x not in have]:
        raise AnalysisBroken("R01.8: anchor name(s) %s not found in ConditionStack - renamed or restructured; update the anchor table" % [x for x in need if x not in have])
    S_, F_ = ("f", THIS_, "m_stack_size"), ("f", THIS_, "m_first_false_pos")
    nf = fb.var("NO_FALSE", optional=True)
    NFv = (nf or {}).get("value")
    if NFv is None:
        NFv = 0xFFFFFFFF
    NF_ = _sx.C(NFv)
    TOP = _sx.lin_add(S_, _sx.C(1), -1)
    methods = {f.short: f for f in fb.funcs.values() if f.rec == "ConditionStack" and f.body is not None}

    def run_case(f, case, fval=None):
        def assume(term, conds):
            if isinstance(term, tuple) and term[0] == "eq":
                a, b = term[1], term[2]
                pair = {a, b}
                if pair == {F_, NF_}:
                    return case == "A"
                if F_ in pair and (TOP in pair or S_ in pair):
                    other = TOP if TOP in pair else S_
                    # `first false == size - 1` (before a decrement) / `== size` (pop_back compares after --size)
                    if other == TOP:
                        return case == "B"
                    return False
                if S_ in pair and _sx.C(0) in pair:
                    return False
            if term == ("a", "f"):
                return bool(fval)
            return None       # anything else (e.g. the non-emptiness asserted by pop_back / toggle_top) forks; aborting paths are dropped
        X = _sx.Explorer(prog, assume=assume, inline=lambda fn, n: fn.rec == "ConditionStack", transparent=lambda n: True)
        params = {p_["n"]: ("a", "f" if (p_.get("ty") or "").strip() == "bool" else "idx") for p_ in f.params}
        outs = [o for o in X.explore(f, this=THIS_, params=params, limit=64) if o.status in ("ret", "end")]
        return outs

    def norm(t, case):
        rep = {"A": (F_, NF_), "B": (F_, TOP)}.get(case)

        def go(x):
            if rep and x == rep[0]:
                return rep[1]
            if isinstance(x, tuple) and x and x[0] == "lin":
                acc = _sx.C(x[1])
                for (y, k) in x[2]:
                    acc = _sx.lin_add(acc, _sx.lin_scale(go(y), k))
                return acc
            if isinstance(x, tuple):
                return tuple(go(y) for y in x)
            return x
        return go(t)
    SPEC = {
        "toggle_top": {("A", None): (TOP, S_), ("B", None): (NF_, S_), ("C", None): (F_, S_)},
        "push_back": {("A", 0): (S_, _sx.lin_add(S_, _sx.C(1))), ("A", 1): (NF_, _sx.lin_add(S_, _sx.C(1))), ("B", 0): (F_, _sx.lin_add(S_, _sx.C(1))), ("B", 1): (F_, _sx.lin_add(S_, _sx.C(1))),
                      ("C", 0): (F_, _sx.lin_add(S_, _sx.C(1))), ("C", 1): (F_, _sx.lin_add(S_, _sx.C(1)))},
        "pop_back": {("A", None): (NF_, TOP), ("B", None): (NF_, TOP), ("C", None): (F_, TOP)},
    }
    RETS = {"all_true": {"A": _sx.C(1), "B": _sx.C(0), "C": _sx.C(0)}}
    nref = 0
    for mname, table in sorted(SPEC.items()):
        f = methods.get(mname)
        if f is None:
            raise AnalysisBroken("R01.8: ConditionStack::%s not found" % mname)
        bad = []
        for (case, fval), (wantF, wantS) in sorted(table.items(), key=repr):
            try:
                outs = run_case(f, case, fval)
            except _sx.Unsupported as e:
                raise AnalysisBroken("R01.8: %s: %s" % (mname, e))
            if not outs or len(outs) > 8:
                raise AnalysisBroken("R01.8: %s has %d non-aborting paths in the case %s" % (mname, len(outs), case))
            nref += 1
            for o in outs:
                gotF = norm(o.heap.get((THIS_, "m_first_false_pos"), F_), case)
                gotS = norm(o.heap.get((THIS_, "m_stack_size"), S_), case)
                if gotF != norm(wantF, case) or gotS != norm(wantS, case):
                    bad.append((case, fval, _sx.show(gotF), _sx.show(norm(wantF, case)), _sx.show(gotS), _sx.show(norm(wantS, case))))
        ctx.site(len(table))
        names = {"A": "all values true", "B": "the first false value is on top", "C": "there is a false value below the top"}
        ctx.inst(not bad, "R01.8", "refines:" + mname, f.loc(), "ConditionStack::%s acts on (size, first false) as the vector operation does, in all %d cases" % (mname, len(table)),
                 "ConditionStack::%s: when %s%s it leaves first-false = %s, size = %s; a stack of booleans would give first-false = %s, size = %s" %
                 ((mname, names[bad[0][0]], "" if bad[0][1] is None else " and %s is pushed" % bool(bad[0][1]), bad[0][2], bad[0][4], bad[0][3], bad[0][5]) if bad else (mname, "", "", "", "", "", "")))
    f = methods.get("all_true")
    if f is None:
        raise AnalysisBroken("R01.8: ConditionStack::all_true not found")
    badr = []
    for case, want in RETS["all_true"].items():
        outs = run_case(f, case)
        if len(outs) != 1 or norm(outs[0].ret, case) not in (want, ("eq",) + tuple(sorted((norm(F_, case), NF_), key=repr))):
            r_ = norm(outs[0].ret, case) if outs else None
            if not (r_ is not None and _sx.is_const(r_) and bool(r_[1]) == bool(want[1])):
                badr.append((case, _sx.show(r_)))
    ctx.inst(not badr, "R01.8", "refines:all_true", f.loc(), "all_true() is `first false == NO_FALSE`", "all_true() returns %s when %s" % ((badr[0][1], badr[0][0]) if badr else ("", "")))
    f = methods.get("at")
    if f is not None:
        outs = run_case(f, "C")
        okat = len(outs) == 1 and outs[0].ret == ("ap", "<", ("a", "idx"), F_)
        ctx.inst(okat, "R01.8", "refines:at", f.loc(), "at(i) is `i < first false`", "at(i) returns %s, expected i < first-false" % (_sx.show(outs[0].ret) if outs else None))
    ctx.floor("R01.8", nref, 10, "ConditionStack member x case combinations")

    # ---- R01.9 an operation in a non-executed branch leaves the session alone: only the conditional opcodes act there, everything
    # else is decoded, counted and size-checked. The blocks of the operation step that can run while the executed flag is false are
    # found on its CFG (at a branch on the flag only the false edge is followed; at the opcode switch only the labels admitted by the
    # `flag || <opcode predicate>` test, evaluated per opcode); a write to session state in one of them must go to the bookkeeping set.
    ctx.rule("R01.9", "in the operation step, code that can run while the executed flag is false writes only decoding / counting / conditional-stack state")
    BOOKKEEPING = {"pc": "the decoder advances", "opcode": "decoded operation", "vchPushValue": "decoded operand", "nOpCount": "operations are counted even when skipped",
                   "opcode_pos": "position counter", "vfExec": "conditional opcodes act in skipped branches", "serror": "error reporting", "script": "local script of exec (decoding)"}
    FX9 = common.executed_flag(opstep)
    cfg9 = opstep.cfg()
    al9 = astq.aliases(opstep)

    def is_opc9(x):
        return x.get("k") == "ref" and x.get("n") == "opcode" or (x.get("k") == "mem" and x.get("n") == "opcode")
    admitted = None
    for n in opstep.nodes():
        if n["k"] == "bin" and n.get("op") == "||":
            l0 = n["lhs"]
            while l0 is not None and l0.get("k") in ("cast", "paren"):
                l0 = l0["e"]
            if l0 is not None and l0.get("k") == "ref" and l0.get("n") == FX9:
                r0 = n["rhs"]
                while r0 is not None and r0.get("k") in ("cast", "paren"):
                    r0 = r0["e"]
                admitted = common.opcode_predicate_set(prog, opstep, r0, is_opc9)
    if admitted is None:
        raise AnalysisBroken("R01.9: the operation step has no `%s || <predicate of the opcode>` test (which opcodes act in a skipped branch is not decidable)" % FX9)
    admitted_short = {a.split("::")[-1] for a in admitted}
    fx_conds = set()
    for (a, s_, c, t) in cfg9.cond_edges():
        cn = opstep.node_by_id(c)
        while cn is not None and cn.get("k") in ("cast", "paren"):
            cn = cn["e"]
        if cn is not None and cn.get("k") == "ref" and cn.get("n") == FX9:
            fx_conds.add(c)
    removed_edges = {(a, s_) for (a, s_, c, t) in cfg9.cond_edges() if c in fx_conds and t}
    # the opcode switch: label blocks of cases outside the admitted set are not entered while the flag is false
    for sw in S.find_switches(opstep, lambda n: is_opc9(n["cond"]) or (n["cond"].get("k") == "cast" and is_opc9(n["cond"]["e"]))):
        ids = {x["id"] for x in walk(sw)}
        heads = [b for b, blk in cfg9.blocks.items() if blk.get("term") == sw["id"]]
        for g in S.case_groups(sw):
            if g.switch is not sw:
                continue
            names = {(l[0] or "").split("::")[-1] for l in g.labels if l[1] != "default"}
            if not names or names & admitted_short:
                continue
            for l in g.labels:
                for b, blk in cfg9.blocks.items():
                    if blk.get("label") == l[2]["id"]:
                        for h in heads:
                            removed_edges.add((h, b))
    skipped_blocks = cfg9.reachable_from(cfg9.entry, removed_edges=removed_edges)
    # fall-through from a removed label block into the next one is still cut by `break`; blocks only reachable through removed edges are out
    n9 = 0
    bad9 = []
    for n in opstep.nodes():
        tgt = None
        if n["k"] in ("assign", "cassign"):
            tgt = n["lhs"]
        elif n["k"] == "un" and n.get("op") in ("++", "--"):
            tgt = n["e"]
        elif n["k"] == "mcall" and n.get("mconst") is False and not astq.is_pure_accessor(n) and n.get("obj") is not None:
            tgt = n["obj"]
        elif n["k"] == "opcall" and n.get("op") in ("=", "+=", "-=", "<<") and n.get("args") and n.get("mconst") is False:
            tgt = n["args"][0]
        tgts = [tgt] if tgt is not None else []
        eff_paths = []
        if n["k"] in ("call", "mcall") and n.get("cid") and not n.get("ext") and any(g_.body is not None for g_ in prog.resolve(n["cid"])):
            # a repository function (an extracted helper): what it writes, in the caller's terms
            pos0 = cfg9.position(n)
            if pos0 is not None and pos0[0] in skipped_blocks:
                eff_paths = list(prog.call_effects(opstep, n).keys())
            tgts = []
        elif n["k"] == "call" and n.get("pk"):
            tgts = [a_ for i_, a_ in enumerate(n.get("args", [])) if a_ is not None and i_ < len(n["pk"]) and n["pk"][i_] in ("r", "p")]
        for p_ in eff_paths:
            root = p_[0]
            if root[0] != "parm":
                continue
            fld = [x for x in p_[1:] if x not in ("*", "[]")]
            pname = opstep.params[root[1]]["n"] if isinstance(root[1], int) and root[1] < len(opstep.params) else str(root[1]).split("#")[0]
            is_env = any(pp_["n"] == pname and "Environment" in (pp_.get("ty") or "") for pp_ in opstep.params)
            if is_env and not fld:
                continue
            name = fld[0] if is_env else pname      # another parameter (the iterator `pc`, the local script) is named by itself
            n9 += 1
            if name not in BOOKKEEPING:
                bad9.append((name, opstep.loc(n), astq.estr(n)[:60]))
        for tg in tgts:
            pos = cfg9.position(n)
            if pos is None or pos[0] not in skipped_blocks:
                continue
            for p_ in astq.paths(tg, al9):
                root = p_[0]
                if root[0] != "parm":
                    continue      # locals of the step
                fld = [x for x in p_[1:] if x not in ("*", "[]")]
                name = fld[0] if fld else root[1].split("#")[0]
                n9 += 1
                if name not in BOOKKEEPING:
                    bad9.append((name, opstep.loc(n), astq.estr(n)[:60]))
    ctx.site(n9)
    ctx.floor("R01.9", n9, 4, "writes to session state that can run while the executed flag is false")
    for (name, loc, txt) in bad9[:6]:
        ctx.fail("R01.9", "skipped-operation-writes:" + name, loc,
                 "`%s` writes %s and can run while %s is false: an operation inside a branch that is not executed changes the session (Bitcoin skips it entirely)" % (txt, name, FX9))
    if not bad9:
        ctx.ok("R01.9", "skipped-operations-write-only-bookkeeping", opstep.loc(), "the %d state writes that can run while %s is false go to %s; the opcodes acting in a skipped branch are %s"
               % (n9, FX9, ", ".join(sorted(BOOKKEEPING)), ", ".join(sorted(admitted_short))))

    # ---- R01.10 which script versions the minimal-IF rules apply to: in the OP_IF / OP_NOTIF case (evaluated path by path by
    # G-SYM), a path that returns SCRIPT_ERR_MINIMALIF has decided sigversion == WITNESS_V0 and the MINIMALIF flag; one that returns
    # SCRIPT_ERR_TAPSCRIPT_MINIMALIF has decided sigversion == TAPSCRIPT. (Legacy scripts take any IF argument.)
    ctx.rule("R01.10", "the minimal-IF errors are returned only for the script version they belong to (witness v0 with the flag / tapscript)")
    errs = {c_["n"]: c_["v"] for e_ in fb.enums if e_["name"] in ("ScriptError_t", "ScriptError") for c_ in e_["consts"]}
    sv_vals = {c_["n"]: c_["v"] for c_ in fb.enum("SigVersion")["consts"]}
    if "SCRIPT_ERR_MINIMALIF" not in errs or "SCRIPT_ERR_TAPSCRIPT_MINIMALIF" not in errs:
        raise AnalysisBroken("R01.10: the minimal-IF error codes are not in the ScriptError enumeration")
    sw10 = [w for w in S.find_switches(opstep) if is_opc9(w["cond"]) or (w["cond"].get("k") == "cast" and is_opc9(w["cond"]["e"]))]
    grp10 = [g for w in sw10 for g in S.case_groups(w) if g.switch is w and "OP_IF" in g.short_names()]
    if len(grp10) != 1:
        raise AnalysisBroken("R01.10: expected one OP_IF case group in the operation step, found %d" % len(grp10))
    from .. import symx as _sx10
    X10 = _sx10.Explorer(prog, inline=lambda fn, n_: False, transparent=lambda n_: True)
    outs10 = []
    try:
        for st in grp10[0].stmts:
            if st.get("k") in ("block", "if"):
                outs10 += X10.explore(opstep, body=st, limit=4000)
    except _sx10.Unsupported as e:
        raise AnalysisBroken("R01.10: the OP_IF case was not evaluated (%s)" % str(e)[:60])
    want10 = {errs["SCRIPT_ERR_MINIMALIF"]: ("WITNESS_V0", True), errs["SCRIPT_ERR_TAPSCRIPT_MINIMALIF"]: ("TAPSCRIPT", False)}
    n10 = 0
    bad10 = None
    for o in outs10:
        r_ = o.ret
        if not (o.status == "ret" and isinstance(r_, tuple) and r_[0] == "ap" and r_[1] == "set_error" and len(r_) == 4):
            continue
        codes = [r_[3][1]] if _sx10.is_const(r_[3]) else [y[1] for y in _sx10.subterms(r_[3]) if _sx10.is_const(y) and y[1] in want10]
        for code in codes:
            if code not in want10:
                continue
            n10 += 1
            ver, needs_flag = want10[code]
            decided_ver = any(isinstance(t_, tuple) and t_[0] == "eq" and _sx10.C(sv_vals[ver]) in t_[1:3] and v_ and
                              any(isinstance(y, tuple) and y in (("a", "sigversion"),) or (isinstance(y, tuple) and y[0] == "f" and y[-1] == "sigversion") for y in t_[1:3]) for (t_, v_) in o.conds)
            decided_flag = (not needs_flag) or any(v_ and isinstance(t_, tuple) and t_[0] == "ap" and t_[1] == "&" and any(("flags" in _sx10.show(y)) for y in t_[2:4]) for (t_, v_) in o.conds)
            if not (decided_ver and decided_flag):
                bad10 = ([k_ for k_, v_ in errs.items() if v_ == code][0], ver, "; ".join("%s=%s" % (_sx10.show(t_)[:30], v_) for (t_, v_) in o.conds[:6]))
    ctx.site(len(outs10))
    ctx.floor("R01.10", n10, 2, "paths of the OP_IF case returning a minimal-IF error")
    ctx.inst(bad10 is None, "R01.10", "minimal-if-version-scope", opstep.loc(grp10[0].labels[0][2]), "each of the %d paths returning a minimal-IF error decided its own script version (and, for witness v0, the flag)" % n10,
             "a path of the OP_IF case returns %s without having decided sigversion == %s%s (decided: %s): the rule is applied to scripts of another version - legacy scripts with a non-minimal IF argument fail although Bitcoin takes the branch"
             % ((bad10[0], bad10[1], " and the MINIMALIF flag" if bad10[1] == "WITNESS_V0" else "", bad10[2]) if bad10 else ("", "", "", "")))

    # ---- R01.11 which refusal an operation meets first is part of what a step reports (the error of the failing operation): in the
    # head of the operation step the refusals come in Bitcoin's order - element size, operation count, disabled opcode, legacy
    # OP_CODESEPARATOR - each test dominating the next. (A 202nd operation that is also disabled fails with OP_COUNT.)
    ctx.rule("R01.11", "the head of the operation step refuses in the order PUSH_SIZE, OP_COUNT, DISABLED_OPCODE, OP_CODESEPARATOR")
    order = ["SCRIPT_ERR_PUSH_SIZE", "SCRIPT_ERR_OP_COUNT", "SCRIPT_ERR_DISABLED_OPCODE", "SCRIPT_ERR_OP_CODESEPARATOR"]
    swtop = sw10[0] if sw10 else None
    firsts = {}
    for n in opstep.nodes():
        if n["k"] == "ref" and n.get("dk") == "enumc" and n["n"] in order and n["n"] not in firsts and not (swtop is not None and S.contains(swtop, n)):
            ifs = [a for a in opstep.ancestors(n) if a.get("k") == "if"]
            if ifs:
                firsts[n["n"]] = ifs[-1]      # the outermost `if` of the refusal
    if len(firsts) < 3:
        raise AnalysisBroken("R01.11: fewer than three of the head refusals (%s) found before the opcode switch" % ", ".join(order))
    seq = [e for e in order if e in firsts]
    bad11 = None
    for a_, b_ in zip(seq, seq[1:]):
        ctx.site()
        if not cfg9.dominates(firsts[a_]["cond"], firsts[b_]["cond"]) and not any(cfg9.dominates(x, y) for x in walk(firsts[a_]["cond"]) for y in [firsts[b_]["cond"]] if cfg9.position(x) is not None):
            bad11 = (a_, b_, opstep.loc(firsts[b_]))
    ctx.inst(bad11 is None, "R01.11", "refusal-order", opstep.loc(firsts[seq[0]]), "the head refusals are tested in the order %s" % " < ".join(x.replace("SCRIPT_ERR_", "") for x in seq),
             "the %s test no longer precedes the %s test (%s): an operation that meets both is reported with the other error than Bitcoin's (the 202nd operation of a script, when it is a disabled opcode, must fail with OP_COUNT)"
             % ((bad11[0].replace("SCRIPT_ERR_", ""), bad11[1].replace("SCRIPT_ERR_", ""), bad11[2]) if bad11 else ("", "", "")))

    # ---- R01.12 MINIMALDATA covers every executed push: the opcode predicates guarding the MINIMALDATA refusal of the push path admit
    # exactly the push opcodes 0 .. OP_PUSHDATA4 (a one-byte direct push of 1..16 or 0x81 is the non-minimal form most often met).
    ctx.rule("R01.12", "the MINIMALDATA refusal of the push path is reached for every push opcode")
    md = [n for n in opstep.nodes() if n["k"] == "ref" and n.get("dk") == "enumc" and n["n"] == "SCRIPT_ERR_MINIMALDATA" and not (swtop is not None and S.contains(swtop, n))]
    if not md:
        raise AnalysisBroken("R01.12: no SCRIPT_ERR_MINIMALDATA refusal before the opcode switch (the push path)")
    en12 = [e for e in fb.enums if e["name"].endswith("opcodetype")][0]
    pd4 = [c_["v"] for c_ in en12["consts"] if c_["n"] == "OP_PUSHDATA4"][0]
    want12 = {c_["n"] for c_ in en12["consts"] if 0 <= c_["v"] <= pd4}
    adm = None
    npred = 0
    for (c_, t_) in cfg9.guards_of(md[0]):
        cn = opstep.node_by_id(c_)
        if cn is None or not any(is_opc9(x) for x in walk(cn)):
            continue
        ps = common.opcode_predicate_set(prog, opstep, cn, is_opc9)
        if ps is None:
            continue
        npred += 1
        ps = {x.split("::")[-1] for x in ps}
        if not t_:
            ps = {c__["n"] for c__ in en12["consts"]} - ps
        adm = ps if adm is None else adm & ps
    ctx.site(npred)
    if adm is None:
        raise AnalysisBroken("R01.12: the push path's opcode range test was not recognised")
    ctx.inst(want12 <= adm, "R01.12", "minimaldata-for-every-push-opcode", opstep.loc(md[0]), "the refusal is guarded by opcode predicates admitting every named push opcode (%s)" % ", ".join(sorted(want12)),
             "the MINIMALDATA refusal of the push path is not reached for %s: with MINIMALDATA set such a push is executed although a shorter encoding exists (e.g. the direct push 0x01 0x05 for OP_5)"
             % ", ".join(sorted(want12 - adm)))


MUTANTS = [
    dict(name="op-count-before-the-element-size", file="script/interpreter.cpp", regex=True, find=r"(            if \(vchPushValue\.size\(\) > MAX_SCRIPT_ELEMENT_SIZE\)\n                return set_error\(serror, SCRIPT_ERR_PUSH_SIZE\);\n)\n(            if \(sigversion == SigVersion::BASE \|\| sigversion == SigVersion::WITNESS_V0\) \{\n                // Note how OP_RESERVED.*?\n            \}\n)", replace=r"\2\n\1", expect=["R01.11:refusal-order"]),
    dict(name="minimaldata-only-for-pushdata-forms", file="script/interpreter.cpp", find="                if (fRequireMinimal && !CheckMinimalPush(vchPushValue, opcode)) {", replace="                if (fRequireMinimal && opcode >= OP_PUSHDATA1 && !CheckMinimalPush(vchPushValue, opcode)) {", expect=["R01.12:minimaldata-for-every-push-opcode"]),
    dict(name="minimalif-for-every-script-version", file="script/interpreter.cpp", find="                        if (sigversion == SigVersion::WITNESS_V0 && (flags & SCRIPT_VERIFY_MINIMALIF)) {", replace="                        if (sigversion != SigVersion::TAPSCRIPT && (flags & SCRIPT_VERIFY_MINIMALIF)) {", expect=["R01.10:minimal-if-version-scope"]),
    dict(name="codeseparator-acts-in-a-skipped-branch", file="script/interpreter.cpp", find="            if (fExec && 0 <= opcode && opcode <= OP_PUSHDATA4) {", replace="            if (opcode == OP_CODESEPARATOR) execdata.m_codeseparator_pos = opcode_pos;\n            if (fExec && 0 <= opcode && opcode <= OP_PUSHDATA4) {", expect=["R01.9:skipped-operation-writes:execdata"]),
    dict(name="push-lands-in-a-skipped-branch", file="script/interpreter.cpp", find="            if (fExec && 0 <= opcode && opcode <= OP_PUSHDATA4) {", replace="            if (0 <= opcode && opcode <= OP_PUSHDATA4) {", expect=["R01.9:skipped-operation-writes:stack"]),
    dict(name="altstack-survives-the-script-switch", file="debugger/interpreter.cpp", find="        env.altstack.clear(); // every script starts with an empty alt stack\n        if (", replace="        if (", expect=["R01.5:reinit:altstack"]),
    dict(name="toggle-top-clears-lower-false", file="debugger/see.h", regex=True, find=r"        \} else \{\n            // There is a false value, but not on top\..*?\n        \}\n", replace="        } else {\n            m_first_false_pos = NO_FALSE;\n        }\n", expect=["R01.8:refines:toggle_top"]),
    dict(name="pop-keeps-popped-false", file="debugger/see.h", find="        if (m_first_false_pos == m_stack_size) {", replace="        if (m_first_false_pos == m_stack_size + 1) {", expect=["R01.8:refines:pop_back"]),
    dict(name="push-false-not-recorded", file="debugger/see.h", find="        if (m_first_false_pos == NO_FALSE && !f) {", replace="        if (m_first_false_pos == NO_FALSE && !f && m_stack_size > 0) {", expect=["R01.8:refines:push_back"]),
    dict(name="dispatch-list-misses-VERIF", file="script/interpreter.cpp", find="} else if (fExec || (OP_IF <= opcode && opcode <= OP_ENDIF))", replace="} else if (fExec || opcode == OP_IF || opcode == OP_NOTIF || opcode == OP_ELSE || opcode == OP_ENDIF)", expect=["R01.2:conditional-dispatch-range"]),
    dict(name="max-opcode-back-to-NOP10", file="script/script.h", find="MAX_OPCODE = OP_CHECKSIGADD;", replace="MAX_OPCODE = OP_NOP10;", expect=["R01.1:MAX_OPCODE=max-defined", "R01.1:handled<=MAX_OPCODE"]),
    dict(name="case-label-deleted", file="script/interpreter.cpp", find="                case OP_NIP:\n", replace="                case OP_RESERVED2:\n", expect=["R01.2:dispatch=OP_NIP"]),
    dict(name="guard-lowered-OP_ROT", file="script/interpreter.cpp", find="                    // (x1 x2 x3 -- x2 x3 x1)\n                    //  x2 x1 x3  after first swap\n                    //  x2 x3 x1  after second swap\n                    if (stack.size() < 3)",
         replace="                    // (x1 x2 x3 -- x2 x3 x1)\n                    //  x2 x1 x3  after first swap\n                    //  x2 x3 x1  after second swap\n                    if (stack.size() < 2)", expect=["R01.3:depth-covered=OP_ROT"]),
    dict(name="guard-raised-OP_DUP", file="script/interpreter.cpp", find="                    // (x -- x x)\n                    if (stack.size() < 1)", replace="                    // (x -- x x)\n                    if (stack.size() < 2)", expect=["R01.3:not-over-guarded=OP_DUP"]),
    dict(name="guard-error-changed", file="script/interpreter.cpp", find="                    // (x1 x2 -- x1 x2 x1)\n                    if (stack.size() < 2)\n                        return set_error(serror, SCRIPT_ERR_INVALID_STACK_OPERATION);",
         replace="                    // (x1 x2 -- x1 x2 x1)\n                    if (stack.size() < 2)\n                        return set_error(serror, SCRIPT_ERR_UNBALANCED_CONDITIONAL);", expect=["R01.3:guard-error=OP_OVER"]),
    dict(name="pick-range-test-before-pop", file="script/interpreter.cpp", find="                    int n = CScriptNum(stacktop(-1), fRequireMinimal).getint();\n                    popstack(stack);\n                    if (n < 0 || n >= (int)stack.size())\n                        return set_error(serror, SCRIPT_ERR_INVALID_STACK_OPERATION);",
         replace="                    int n = CScriptNum(stacktop(-1), fRequireMinimal).getint();\n                    if (n < 0 || n >= (int)stack.size())\n                        return set_error(serror, SCRIPT_ERR_INVALID_STACK_OPERATION);\n                    popstack(stack);", expect=["R01.3:dynamic-depth-same-height=OP_PICK"]),
    dict(name="step-catch-removed", file="instance.cpp", find="        } catch (const std::exception& ex) {\n            exception_string = ex.what();\n            return false;\n        }",
         replace="        } catch (const std::bad_alloc& ex) {\n            exception_string = ex.what();\n            return false;\n        }", expect=["R01.4:step-converts-exceptions", "R01.4:step-handler-general"]),
    dict(name="balance-check-removed", file="debugger/interpreter.cpp", find="    if (!vfExec.empty()) {\n        env.done = true;\n        return set_error(serror, SCRIPT_ERR_UNBALANCED_CONDITIONAL);\n    }\n\n    if (is_p2sh) {",
         replace="    if (is_p2sh) {", expect=["R01.5:balance-check-at-switch"]),
    dict(name="pend-not-reset", file="debugger/interpreter.cpp", find="        pc = env.pbegincodehash = script.begin();\n        pend = script.end();\n        env.curr_op_seq++;\n\n        // figure out if p2sh",
         replace="        pc = env.pbegincodehash = script.begin();\n        env.curr_op_seq++;\n\n        // figure out if p2sh", expect=["R01.5:reinit:pend"]),
    dict(name="parse-result-ignored", file="btcdeb.cpp", find="        if (instance.parse_script(script_str)) {\n            if (verbose) btc_logf(\"valid script\\n\");\n        } else {\n            fprintf(stderr, \"invalid script\\n\");\n            return 1;\n        }",
         replace="        instance.parse_script(script_str);", expect=["R01.1:refusal-used:parse_script@main"]),
    dict(name="gate-under-fExec", file="script/interpreter.cpp", find="            if (!env.allow_disabled_opcodes && (\n", replace="            if (fExec && !env.allow_disabled_opcodes && (\n", expect=["R01.7:gate-before-executed-test"]),
    dict(name="altstack-guard-dropped", file="script/interpreter.cpp", find="                    if (altstack.size() < 1)\n                        return set_error(serror, SCRIPT_ERR_INVALID_ALTSTACK_OPERATION);\n", replace="", expect=["R01.3:depth-covered=OP_FROMALTSTACK:altstack"]),
]


def AUTO_MUTANTS(ctx):
    """one under-guard and one over-guard mutant for every case group whose stack guard is tight and static"""
    fb = ctx.facts
    out = []
    for fname, file in (("StepScript", "script/interpreter.cpp"), ("StepExtended", "debugger/interpreter.cpp")):
        f = fb.fn(fname, file=file)
        al = astq.aliases(f)
        cfg = f.cfg()
        sws = [s_ for s_ in S.find_switches(f) if any(p_[-1] == "opcode" for p_ in astq.paths(s_["cond"], al))]
        if not sws:
            continue
        for g in S.case_groups(sws[0]):
            labels = [nm for (nm, v, cn) in g.labels if v != "default"]
            if not labels:
                continue
            nodes = list(g.nodes())
            acc, pops, pushes, guards, dyn = stack_events(f, al, nodes)
            for cont in ("stack", "altstack"):
                g_c = [(N, n, err, d) for (c, N, n, err, d) in guards if c == cont]
                if len(g_c) != 1 or g_c[0][0] is None:
                    continue
                if any(c == cont for (c, e, n) in dyn):
                    continue
                N, gn, err, d = g_c[0]
                p_c = [n for (c, n) in pops if c == cont]
                u_c = [n for (c, n) in pushes if c == cont]

                def pd(node):
                    return len([p_ for p_ in p_c if p_ is not node and cfg.dominates(p_, node)])

                def ud(node):
                    return len([u for u in u_c if cfg.dominates(u, node)])
                needs = [k + pd(n) for (c, k, n) in acc if c == cont and not ud(n) and cfg.dominates(d, n)]
                needs += [1 + pd(p_) for p_ in p_c if not ud(p_) and cfg.dominates(d, p_)]
                if not needs or max(needs) != N:
                    continue
                lit = d["rhs"]
                while lit is not None and lit.get("k") == "cast":
                    lit = lit["e"]
                if lit is None or lit.get("k") != "int" or lit.get("mac"):
                    continue
                fl = lit.get("f", f.file)
                name = "/".join(x.split("::")[-1] for x in labels[:2])
                if N >= 1:
                    out.append(dict(name="auto:guard-1:%s:%s" % (name, cont), file=fl, edit=(lit["l"], lit["c"], str(N), str(N - 1)), expect=["R01.3:depth-covered="]))
                out.append(dict(name="auto:guard+1:%s:%s" % (name, cont), file=fl, edit=(lit["l"], lit["c"], str(N), str(N + 1)), expect=["R01.3:not-over-guarded="]))
    return out
