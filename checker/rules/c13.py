"""C13 - transaction decoding is lossless and identifiers are correct: structural clauses (DESIGN.md section 4, C13)."""
from .. import astq, structure as S, streams, ladders
from ..engines import ExcEngine
from ..facts import AnalysisBroken, walk

EXPLANATION = (
    "Writer<->reader agreement of the transaction codec by ordered stream-operation sequences. R13.1: the sequences of << in "
    "SerializeTransaction and of >> in UnserializeTransaction are enumerated per structured path (loops collapsed, throws end a "
    "path); on the basic-format path and on the extended-format (BIP144) path the reader's sequence must be the mirror of the "
    "writer's (version, [dummy vin, flags], vin, vout, [witness stack per input], lock time); the reader rejects 'superfluous "
    "witness' with the same all-inputs predicate the writer uses to set the flag (HasWitness, or a monotonically accumulated local) "
    "and rejects unknown flag bits after clearing bit 0; the writer only ever sets bit 0. R13.2: txid computations pass "
    "SERIALIZE_TRANSACTION_NO_WITNESS and the witness hash does not. R13.3: a malformed encoding cannot escape as an exception "
    "from btcdeb or tap, and bytes left over after the transaction are rejected. R13.4: amounts are parsed with 8 decimals, "
    "COIN is 10^8, and the string handed to the fixed-point parser is the complete token. R13.5: compact-size writer and reader "
    "use the same ladder with canonical-form checks at the class boundaries. Bit-exact round trip and field values are NOT decided.")
TRUSTED = ["clang 14 parser/Sema/constant evaluator", "/verif extractor", "/verif term evaluator G-SYM (checker/symx.py): inlining, loop summaries relative to prev, linear normal form; casts between integer types are treated as value-preserving", "SERIALIZE_METHODS/READWRITE classes are symmetric by construction (inventoried only)"]
ASSUMPTIONS = ["operator>> of the stream stores into the location it is given and into nothing else"]
DECLINED = ["bit-exact round trip", "field values (version, sequences, amounts) as encoded", "ParseFixedPoint arithmetic"]


def mirror(seq):
    out = []
    for s in seq:
        s = s.replace("<< ", ">> ").replace("{<< ", "{>> ").replace("vinDummy", "tx.vin")
        out.append(s)
    return out


def run(ctx, anchors=None):
    fb, prog = ctx.facts, ctx.prog
    ctx.rule("R13.1", "transaction writer and reader stream the same fields in the same order on the basic and extended paths; rejections present")
    ctx.rule("R13.2", "txid = hash of the witness-stripped serialisation; wtxid includes witnesses")
    ctx.rule("R13.3", "malformed or over-long encodings are diagnostics: no escaping exception, trailing bytes rejected")
    ctx.rule("R13.4", "amount prefixes: 8 decimals, COIN == 10^8, the whole token is parsed")
    ctx.rule("R13.5", "compact-size ladder: writer == reader, canonical-form checks at the class boundaries")
    ws = [f for f in fb.fns("SerializeTransaction")]
    rs = [f for f in fb.fns("UnserializeTransaction")]
    if not ws or not rs:
        raise AnalysisBroken("transaction codec functions not found")
    w, r = ws[0], rs[0]
    from . import common as _cm
    # R13.1 on terms (G-SYM): the stream both functions build, per path, as an item list over locations of the transaction
    from .. import symx
    from .c02_digests import flatten, show_item, first_diff
    need = {"CMutableTransaction": ["nVersion", "vin", "vout", "nLockTime"], "CTxIn": ["scriptWitness"], "CScriptWitness": ["stack"]}
    for rec, names in need.items():
        have = set(fb.record_fields(rec))
        if [x for x in names if x not in have]:
            raise AnalysisBroken("R13.1: anchor name(s) %s not found in %s - renamed or restructured" % ([x for x in names if x not in have], rec))
    # free helper templates of the codec's own header (a loop moved into `UnserializeWitnessStacks(tx, s)`) are part of the codec
    X = symx.Explorer(prog, inline=lambda fn, n: fn.body is not None and fn.file == w.file and not fn.rec and len(fn.params) == 2 and
                      fn.short not in ("SerializeTransaction", "UnserializeTransaction", "Serialize", "Unserialize"), transparent=lambda n: True)
    TX, ST = ("a", "tx"), ("a", "s")

    def chains(func):
        if len(func.params) != 2:
            raise AnalysisBroken("R13.1: %s takes %d parameters" % (func.name, len(func.params)))
        try:
            outs = X.explore(func, params={func.params[0]["n"]: TX, func.params[1]["n"]: ST})
        except symx.Unsupported as e:
            raise AnalysisBroken("R13.1: %s: %s" % (func.name, e))
        res = []
        for o in outs:
            items, base = flatten(X.var(o, func.params[1]["n"]))
            if base != ST:
                raise AnalysisBroken("R13.1: %s streams into %s" % (func.name, symx.show(base)))
            res.append((o, items))
        return res

    def fld(*names):
        t = TX
        for n_ in names:
            t = ("f", t, n_)
        return t
    VIN, VOUT = fld("vin"), fld("vout")
    wit_loop = ("loop", VIN, [("op", "OP", ("f", ("f", ("elem", VIN), "scriptWitness"), "stack"))])

    def shape(items, op):
        """items without their C++ types: [(op, location)] / loops"""
        out = []
        for it_ in items:
            if it_[0] == "loop":
                out.append(("loop", it_[1], shape(it_[2], op)))
            else:
                out.append((it_[1], it_[2]))
        return out

    def spec(fmt, op, flags_term, dummy):
        base = [(op, fld("nVersion"))]
        if fmt in ("extended", "empty"):
            base += [(op, dummy), (op, flags_term)]
        if fmt != "empty":
            base += [(op, VIN), (op, VOUT)]
        if fmt == "extended":
            base.append(("loop", VIN, [(op, ("f", ("f", ("elem", VIN), "scriptWitness"), "stack"))]))
        base.append((op, fld("nLockTime")))
        return base
    wch, rch = chains(w), chains(r)
    ctx.site(len(wch) + len(rch))
    FLAGV = ("var", "unsigned char")
    r_ok = {}
    for (o, items) in rch:
        if o.status in ("end", "ret"):
            r_ok.setdefault(tuple(map(repr, shape(items, ">>"))), (o, items))
    w_ok = {}
    for (o, items) in wch:
        if o.status in ("end", "ret"):
            w_ok.setdefault(tuple(map(repr, shape(items, "<<"))), (o, items))
    rspec = {fmt: spec(fmt, ">>", FLAGV, VIN) for fmt in ("basic", "extended", "empty")}
    wspec = {fmt: spec(fmt, "<<", symx.C(1), ("ap", "new:std::vector")) for fmt in ("basic", "extended")}
    r_by = {fmt: [v for k_, v in r_ok.items() if k_ == tuple(map(repr, rspec[fmt]))] for fmt in rspec}
    w_by = {fmt: [v for k_, v in w_ok.items() if k_ == tuple(map(repr, wspec[fmt]))] for fmt in wspec}
    r_other = [v for k_, v in r_ok.items() if k_ not in {tuple(map(repr, x)) for x in rspec.values()}]
    w_other = [v for k_, v in w_ok.items() if k_ not in {tuple(map(repr, x)) for x in wspec.values()}]
    for fmt in ("basic", "extended"):
        got_r = r_by[fmt]
        got_w = w_by[fmt]
        bad_r = [[show_item(i) for i in it_] for (o, it_) in r_other]
        bad_w = [[show_item(i) for i in it_] for (o, it_) in w_other]
        ctx.inst(bool(got_r) and not r_other, "R13.1", "format:" + fmt, r.loc(), "%s format field order is version,[dummy,flags],vin,vout,[witness],locktime" % fmt,
                 "%s format: the reader accepts %s; the transaction format is %s" % (fmt, bad_r[:1] or "no such path", [show_item(("op",) + x) if x[0] != "loop" else "loop" for x in rspec[fmt]]))
        # mirror: same item kinds and C++ types position by position
        ok_m = bool(got_r) and bool(got_w) and not w_other
        if ok_m:
            ri, wi = got_r[0][1], got_w[0][1]
            def types(items):
                return [(i[0], i[-1] if i[0] == "op" else tuple(types(i[2]))) for i in items]
            ok_m = types(ri) == types(wi)
        ctx.inst(ok_m, "R13.1", "mirror:" + fmt, w.loc(), "%s format: the reader reads, with the same types, exactly what the writer writes" % fmt,
                 "%s format: the writer streams %s but the reader reads %s" % (fmt, bad_w[:1] or [[show_item(i) for i in v[1]] for v in got_w][:1], bad_r[:1] or [[show_item(i) for i in v[1]] for v in got_r][:1]))
    # rejections, read off the decided conditions
    HASW = ("ap", "m:HasWitness", TX)
    ext_ok = [o for (o, it_) in rch if o.status in ("end", "ret") and any(x[0] == "loop" for x in it_)]
    ext_thr = [o for (o, it_) in rch if o.status == "throw" and any(x[0] == "loop" for x in it_)]

    def decided(o, term):
        for (t, v) in o.conds:
            if t == term:
                return v
        return None
    acc = [t for o in ext_thr for (t, v) in o.conds if isinstance(t, tuple) and t[0] == "ap" and t[1] == "loopvar"]
    ok_sup = bool(ext_ok) and all(decided(o, HASW) is True for o in ext_ok) and any(decided(o, HASW) is False for o in ext_thr)
    why = "the extended format is accepted although no input carries a witness (the writer would have chosen the basic format): 'superfluous witness' is not rejected with the writer's predicate HasWitness()"
    if not ok_sup and acc:
        # a local accumulated over the inputs: its per-iteration term must refer to its previous value (|=, x = x || ...)
        mono = all(any(isinstance(x, tuple) and x and x[0] == "prev" for x in symx.subterms(t[3])) for t in acc)
        decided_acc = bool(ext_ok) and all(any(t in acc and v for (t, v) in o.conds) for o in ext_ok)
        ok_sup = mono and decided_acc
        if not mono:
            why = "the local deciding 'superfluous witness' is overwritten per input (not accumulated): only the last input counts"
    ctx.inst(ok_sup, "R13.1", "reject-superfluous-witness", r.loc(), "witness flag with all-empty witness stacks is rejected, using the writer's predicate (any input has a witness)", why)
    # unknown flag bits: every accepted path that read the flags byte has (flags ^ 1 on the witness path, flags otherwise) == 0
    flag_paths = [(o, it_) for (o, it_) in rch if o.status in ("end", "ret") and any(x[0] == "op" and x[2] == FLAGV for x in it_)]
    ok_unk = bool(flag_paths)
    for (o, it_) in flag_paths:
        reads = [t for (t, v) in o.conds if isinstance(t, tuple) and t[0] == "ap" and t[1] == "read"]
        rd = reads[0] if reads else None
        if any(x[0] == "loop" for x in it_):
            if decided(o, ("ap", "^", rd, symx.C(1))) is not False:
                ok_unk = False
        elif rd is None or decided(o, rd) is not False:
            ok_unk = False
    ctx.inst(ok_unk, "R13.1", "reject-unknown-flags", r.loc(), "flag bits other than bit 0 are rejected after bit 0 was cleared",
             "an accepted path leaves flag bits other than the witness bit unchecked")
    wf = set()
    for (o, it_) in wch:
        for x in it_:
            if x[0] == "op" and x[-1] == ("s", "unsigned char"):
                wf.add(x[2])
    ctx.inst(wf == {symx.C(1)} and all(decided(o, HASW) is True for (o, it_) in w_by["extended"]) and bool(w_by["extended"]), "R13.1", "writer-sets-only-bit0", w.loc(),
             "the writer sets only flag bit 0, under fAllowWitness && HasWitness()", "the writer emits the flag byte(s) %s / not under HasWitness()" % sorted(symx.show(x) for x in wf))
    # ---- R13.2
    NOWIT = fb.var("SERIALIZE_TRANSACTION_NO_WITNESS").get("value")
    from .. import symx as _sx13
    X13 = _sx13.Explorer(prog, inline=lambda fn, n: fn.file == "primitives/transaction.cpp", transparent=lambda n: True)
    for name, want in (("CTransaction::ComputeHash", NOWIT), ("CMutableTransaction::GetHash", NOWIT), ("CTransaction::ComputeWitnessHash", 0)):
        f = fb.fn(name)
        try:
            outs = [o for o in X13.explore(f, this=("a", "this")) if o.status == "ret"]
        except _sx13.Unsupported as e:
            raise AnalysisBroken("R13.2: %s: %s" % (name, e))
        ctx.site()
        hashed = [o.ret for o in outs if isinstance(o.ret, tuple) and o.ret[:2] == ("ap", "SerializeHash")]
        vs = sorted({(r[4][1] if len(r) >= 5 and _sx13.is_const(r[4]) else None) for r in hashed}, key=repr)
        whole = all(len(r) >= 3 and r[2] == ("f", ("a", "this"), "*") for r in hashed)
        ctx.inst(bool(hashed) and vs == [want] and whole, "R13.2", "hash-version:" + name, f.loc(), "%s serialises *this with version flags 0x%x" % (name, want),
                 "%s hashes the serialisation with version flags %s (expected 0x%x): the %s covers the wrong bytes" % (name, vs, want, "txid" if want else "wtxid"))
    # ---- R13.3
    exc = ExcEngine(prog)
    for mfile in ("btcdeb.cpp", "tap.cpp"):
        m = [f for f in fb.funcs.values() if f.d.get("main") and f.file == mfile][0]
        esc = exc.escaping(m)
        ctx.site()
        ctx.inst("std::ios_base::failure" not in esc, "R13.3", "decode-failure-caught@" + mfile, m.loc(),
                 "std::ios_base::failure from the transaction decoder cannot leave main of %s" % mfile,
                 "a truncated / malformed transaction (std::ios_base::failure) escapes main of %s: %s" % (mfile, " -> ".join(exc.chain(m, "std::ios_base::failure")[:6])))
    nthrow = len([n for n in r.nodes() if n["k"] == "throw"])
    ctx.extra["explicit_rejections_in_UnserializeTransaction"] = nthrow
    ptx = fb.fn("parse_tx", file="instance.cpp")
    pcfg = ptx.cfg()
    un = [n for n in ptx.nodes() if n["k"] == "call" and n.get("n") == "UnserializeTransaction"]
    empties = [n for n in ptx.nodes() if n["k"] == "mcall" and n.get("n") in ("empty", "size") and n.get("objct") == "CDataStream"]
    rets_ok = [n for n in ptx.nodes() if n["k"] == "return" and not (n.get("e") is not None and n["e"].get("k") == "null") and astq.estr(n.get("e")) not in ("nullptr",)]
    good = bool(un) and bool(empties) and all(pcfg.dominates(un[0], e) for e in empties) and all(any(pcfg.dominates(e, rr) for e in empties) for rr in rets_ok if pcfg.dominates(un[0], rr))
    ctx.inst(good, "R13.3", "trailing-bytes-rejected", ptx.loc(), "after decoding, parse_tx tests that the stream is exhausted before returning a transaction",
             "parse_tx returns a transaction without testing that the whole hex was consumed: trailing bytes are silently ignored")
    # ---- R13.4
    coin = fb.var("COIN")
    ctx.inst(coin.get("value") == 100000000, "R13.4", "COIN", "%s:%d" % (coin["file"], coin["line"]), "COIN == 100000000")
    pt = fb.fn("Instance::parse_transaction")
    # the amount-prefix parser: parse_transaction itself or a same-file helper it calls
    cands = [pt] + [fb.funcs[i] for i in sorted(prog.reachable([pt])) if i in fb.funcs and fb.funcs[i].file == pt.file and fb.funcs[i].body is not None and fb.funcs[i] is not pt]
    holder = [g for g in cands if any(n["k"] == "call" and n.get("n") == "ParseFixedPoint" for n in g.nodes())]
    if holder:
        pt = holder[0]
    pf = [n for n in pt.nodes() if n["k"] == "call" and n.get("n") == "ParseFixedPoint"]
    ctx.inst(len(pf) == 1 and astq.const_value(pf[0]["args"][1]) == 8, "R13.4", "eight-decimals", pt.loc(pf[0]) if pf else pt.loc(), "amounts are parsed with 8 decimals")
    if pf:
        # the token: [p, c) ; the parsed string must be built from exactly c - p characters starting at p
        arg = pf[0]["args"][0]
        var = [x for x in walk(arg) if x["k"] == "ref" and x.get("dk") == "local"]
        ok_tok = False
        why = "the string passed to ParseFixedPoint is not traceable to the token"
        if var:
            d = var[0]["d"]
            inits = [dd.get("init") for n in pt.nodes() if n["k"] == "decl" for dd in n["decls"] if dd["d"] == d]
            src = inits[0] if inits else None
            # follow one more local (std::string ss = s;)
            for _ in range(2):
                if src is not None:
                    inner = [x for x in walk(src) if x["k"] == "ref" and x.get("dk") == "local"]
                    calls = [x for x in walk(src) if x["k"] == "call" and x.get("n") in ("strndup",)]
                    if calls:
                        src = calls[0]
                        break
                    if len(inner) == 1:
                        ii = [dd.get("init") for n in pt.nodes() if n["k"] == "decl" for dd in n["decls"] if dd["d"] == inner[0]["d"]]
                        src = ii[0] if ii else src
            if src is not None and src.get("k") == "call" and src.get("n") == "strndup":
                ln = src["args"][1]
                while ln is not None and ln.get("k") == "cast":
                    ln = ln["e"]
                ok_tok = ln is not None and ln.get("k") == "bin" and ln["op"] == "-" and astq.estr(src["args"][0]) == astq.estr(ln["rhs"])
                why = "the token is copied with length `%s`" % astq.estr(src["args"][1])
            elif src is not None and src.get("k") == "ctor" and len([a for a in src["args"] if a.get("k") != "defarg"]) >= 2:
                a = [x for x in src["args"] if x.get("k") != "defarg"]
                ok_tok = a[1].get("k") == "bin" and a[1]["op"] == "-" or (a[1].get("k") == "ref")
                why = "the token is constructed from (%s, %s)" % (astq.estr(a[0]), astq.estr(a[1]))
            else:
                bufs = [dd for n in pt.nodes() if n["k"] == "decl" for dd in n["decls"] if "arraysize" in dd]
                if bufs:
                    why = "the amount token is copied through the fixed %d-byte buffer `%s`: long amounts are truncated and a wrong value is accepted" % (bufs[0]["arraysize"], bufs[0]["n"])
        ctx.site()
        ctx.inst(ok_tok, "R13.4", "whole-token-parsed", pt.loc(pf[0]), "the whole amount token [p, c) is handed to the parser (%s)" % why, why)
    # ---- R13.5
    wsz = [f for f in fb.fns("WriteCompactSize") if f.file == "serialize.h" and len(f.nodes()) > 10]
    rsz = [f for f in fb.fns("ReadCompactSize") if f.file == "serialize.h"]
    if not wsz or not rsz:
        raise AnalysisBroken("compact size codec not found")
    wl = ladders.writer_classes(prog, wsz[0])
    ctx.inst(wl == ladders.EXPECT_WRITER, "R13.5", "writer-ladder", wsz[0].loc(), "WriteCompactSize ladder %s" % wl, "WriteCompactSize uses %s, expected %s" % (wl, ladders.EXPECT_WRITER))
    rf = rsz[0]
    rc = ladders.reader_classes(prog, rf)
    arms = sorted((lo, hi, r["width"], r["canon"], r["ret_ok"]) for ((lo, hi), r) in rc.items())
    want = [(0, 252, None, None, True), (253, 253, 2, 253, True), (254, 254, 4, 0x10000, True), (255, 255, 8, 0x100000000, True)]
    ctx.site(len(arms))
    ctx.inst(arms == want, "R13.5", "reader-ladder", rf.loc(), "ReadCompactSize: markers 253/254/255 -> widths 2/4/8 with canonical lower bounds 253 / 0x10000 / 0x100000000; the value read is the value returned",
             "ReadCompactSize decodes (marker lo, hi, width, canonical bound, returns-the-value) %s; the writer's classes require %s" % (arms, want))
    # the size limit applies when range_check is set
    X_, outs_ = ladders._explore(prog, rf, params={rf.params[0]["n"]: ("a", "is"), rf.params[1]["n"]: ladders.symx.C(1)})
    mx = fb.var("MAX_SIZE").get("value")
    lim = set()
    for o in outs_:
        if o.status == "ret":
            for (t, v) in o.conds:
                if isinstance(t, tuple) and t[0] == "ap" and t[1] == "<" and ladders.symx.is_const(t[2]) and not v and t[2][1] >= 0x1000:
                    lim.add(t[2][1])
    ctx.inst(lim == {mx}, "R13.5", "reader-size-limit", rf.loc(), "with range_check every returned size is <= MAX_SIZE (%s)" % mx, "with range_check the returned size is bounded by %s; MAX_SIZE is %s" % (sorted(lim), mx))
    # ---- R13.6 conversions between the immutable and the mutable transaction copy every serialised field. tap parses a
    # transaction, converts it (CMutableTransaction(const CTransaction&)), edits one witness and serialises it again: a field the
    # converting constructor leaves at its default is lost from the output. Decided on the G-SYM terms of each converting
    # constructor: this.F == src.F for every data member F the two classes share (the members the serialiser streams).
    ctx.rule("R13.6", "converting constructors CTransaction <-> CMutableTransaction copy every shared data member")
    recs = ("CTransaction", "CMutableTransaction")
    shared = [x for x in fb.record_fields(recs[0]) if x in set(fb.record_fields(recs[1]))]
    if len(shared) < 4:
        raise AnalysisBroken("R13.6: CTransaction and CMutableTransaction share only %s" % shared)
    nconv = 0
    for f in fb.funcs.values():
        if f.rec in recs and f.short == f.rec and f.body is not None and len(f.params) == 1:
            pty = (f.params[0].get("ty") or "")
            other = recs[1] if f.rec == recs[0] else recs[0]
            if other not in pty.replace("const", "").replace("&", "").split():
                continue
            nconv += 1
            ctx.site()
            X = symx.Explorer(prog, inline=lambda fn, n: False, transparent=lambda n: True)
            try:
                outs = X.explore(f, this=("a", "this"), params={f.params[0]["n"]: ("a", "src")})
            except symx.Unsupported as e:
                raise AnalysisBroken("R13.6: %s: %s" % (f.name, e))
            miss = []
            for o in outs:
                for fld in shared:
                    got = o.heap.get((("a", "this"), fld))
                    if got != ("f", ("a", "src"), fld):
                        miss.append((fld, symx.show(got) if got is not None else "its default"))
            ctx.inst(not miss, "R13.6", "copies-all-fields:%s(%s)" % (f.rec, pty), f.loc(),
                     "%s(%s) initialises %s from the same members of its argument" % (f.rec, pty, ", ".join(shared)),
                     "%s(%s) leaves %s at %s instead of copying it from its argument: a transaction converted and serialised again loses that field" %
                     ((f.rec, pty, miss[0][0], miss[0][1]) if miss else (f.rec, pty, "", "")))
    ctx.floor("R13.6", nconv, 2, "converting constructors between CTransaction and CMutableTransaction")

    # ---- R13.7 the immutable and the mutable transaction are two views of one encoding: a query both answer from the same members
    # (which decides, for one, whether the witness form is written) is the same function of them. Sibling agreement by G-SYM: the
    # sets of (decided conditions, result) of the two bodies are equal. The table is explicit: GetHash legitimately differs
    # (cached vs. computed).
    ctx.rule("R13.7", "CTransaction and CMutableTransaction answer the shared queries identically (sibling agreement)")
    from .. import symx as _sx13
    for q in ("HasWitness",):
        pair = []
        for rec in ("CTransaction", "CMutableTransaction"):
            fs = [g for g in fb.funcs.values() if g.name == rec + "::" + q and g.body is not None]
            if not fs:
                raise AnalysisBroken("R13.7: %s::%s not found" % (rec, q))
            X13 = _sx13.Explorer(prog, inline=lambda fn, n_: False, transparent=lambda n_: True)
            try:
                outs = X13.explore(fs[0], this=("a", "this"), limit=400)
            except _sx13.Unsupported as e:
                ctx.note("R13.7: %s::%s not explored (%s)" % (rec, q, str(e)[:60]))
                pair = None
                break
            pair.append((fs[0], {(o.status, _sx13.show(o.ret) if o.ret is not None else "", tuple(sorted((_sx13.show(t), v) for (t, v) in o.conds))) for o in outs}))
        if pair is None:
            continue
        ctx.site(2)
        algo = [any(any(a_ + "(" in r_[1] for a_ in ("any_of", "none_of", "all_of", "find_if", "count_if", "accumulate")) for r_ in p_[1]) for p_ in pair]
        if algo[0] != algo[1]:
            ctx.note("R13.7: one %s is a loop, the other a library algorithm over a lambda (an uninterpreted term): not comparable, no verdict" % q)
            continue
        only_a, only_b = pair[0][1] - pair[1][1], pair[1][1] - pair[0][1]
        ctx.inst(not only_a and not only_b, "R13.7", "siblings-agree:" + q, pair[0][0].loc(), "%s is the same function of the members in both classes (%d outcomes)" % (q, len(pair[0][1])),
                 "CTransaction::%s and CMutableTransaction::%s differ: only the former has %s; only the latter has %s - a transaction changes its answer (and with it its serialised form) when converted"
                 % (q, q, "; ".join("%s when %s" % (r_[1][:40], r_[2]) for r_ in sorted(only_a)[:2])[:160], "; ".join("%s when %s" % (r_[1][:40], r_[2]) for r_ in sorted(only_b)[:2])[:160]))


MUTANTS = [
    dict(name="haswitness-siblings-disagree", file="primitives/transaction.h", after="as opposed to GetHash() in CTransaction, which uses a cached result.", find="            if (!vin[i].scriptWitness.IsNull()) {\n                return true;", replace="            if (!vin[i].scriptWitness.IsNull() && !vin[i].scriptSig.empty()) {\n                return true;", expect=["R13.7:siblings-agree:HasWitness"]),
    dict(name="conversion-drops-locktime", file="primitives/transaction.cpp", find="CMutableTransaction::CMutableTransaction(const CTransaction& tx) : vin(tx.vin), vout(tx.vout), nVersion(tx.nVersion), nLockTime(tx.nLockTime) {}", replace="CMutableTransaction::CMutableTransaction(const CTransaction& tx) : vin(tx.vin), vout(tx.vout), nVersion(tx.nVersion), nLockTime(0) {}", expect=["R13.6:copies-all-fields:CMutableTransaction"]),
    dict(name="conversion-swaps-version-and-locktime", file="primitives/transaction.cpp", find="CTransaction::CTransaction(const CMutableTransaction& tx) : vin(tx.vin), vout(tx.vout), nVersion(tx.nVersion), nLockTime(tx.nLockTime)", replace="CTransaction::CTransaction(const CMutableTransaction& tx) : vin(tx.vin), vout(tx.vout), nVersion(tx.nLockTime), nLockTime(tx.nVersion)", expect=["R13.6:copies-all-fields:CTransaction"]),
    dict(name="writer-vout-before-vin", file="primitives/transaction.h", find="    s << tx.vin;\n    s << tx.vout;\n    if (flags & 1) {", replace="    s << tx.vout;\n    s << tx.vin;\n    if (flags & 1) {", expect=["R13.1:mirror", "R13.1:format"]),
    dict(name="reader-skips-locktime-order", file="primitives/transaction.h", find="            s >> tx.vin;\n            s >> tx.vout;\n        }\n    } else {", replace="            s >> tx.vout;\n            s >> tx.vin;\n        }\n    } else {", expect=["R13.1:mirror:extended"]),
    dict(name="superfluous-last-input-only", file="primitives/transaction.h",
         find="        for (size_t i = 0; i < tx.vin.size(); i++) {\n            s >> tx.vin[i].scriptWitness.stack;\n        }\n        if (!tx.HasWitness()) {",
         replace="        bool fHasWitness = false;\n        for (size_t i = 0; i < tx.vin.size(); i++) {\n            s >> tx.vin[i].scriptWitness.stack;\n            fHasWitness = !tx.vin[i].scriptWitness.IsNull();\n        }\n        if (!fHasWitness) {",
         expect=["R13.1:reject-superfluous-witness"]),
    dict(name="unknown-flags-accepted", file="primitives/transaction.h", find="    if (flags) {\n        /* Unknown flag in the serialization */\n        throw std::ios_base::failure(\"Unknown transaction optional data\");\n    }\n", replace="", expect=["R13.1:reject-unknown-flags"]),
    dict(name="txid-with-witness", file="primitives/transaction.cpp", find="uint256 CTransaction::ComputeHash() const\n{\n    return SerializeHash(*this, SER_GETHASH, SERIALIZE_TRANSACTION_NO_WITNESS);", replace="uint256 CTransaction::ComputeHash() const\n{\n    return SerializeHash(*this, SER_GETHASH, 0);", expect=["R13.2:hash-version:CTransaction::ComputeHash"]),
    dict(name="tap-catch-removed", file="tap.cpp", find="} catch (const std::exception& ex) {\n    fprintf(stderr, \"error: %s\\n\", ex.what());", replace="} catch (const std::bad_alloc& ex) {\n    fprintf(stderr, \"error: %s\\n\", ex.what());", expect=["R13.3:decode-failure-caught@tap.cpp"]),
    dict(name="trailing-bytes-accepted", file="instance.cpp", find="    if (!ss.empty()) {\n        fprintf(stderr, \"transaction hex has %zu bytes of trailing data\\n\", ss.size());\n        return nullptr;\n    }\n", replace="", expect=["R13.3:trailing-bytes-rejected"]),
    dict(name="six-decimals", file="instance.cpp", find="ParseFixedPoint(ss, 8, &a)", replace="ParseFixedPoint(ss, 6, &a)", expect=["R13.4:eight-decimals"]),
    dict(name="amount-through-fixed-buffer", file="instance.cpp", find="            char* s = strndup(p, c-p);\n            std::string ss = s;\n            free(s);",
         replace="            char buf[16];\n            size_t n = std::min<size_t>(c - p, sizeof(buf) - 1);\n            memcpy(buf, p, n);\n            buf[n] = 0;\n            std::string ss = buf;", expect=["R13.4:whole-token-parsed"]),
    dict(name="reader-canonical-bound", file="serialize.h", find="        if (nSizeRet < 0x10000u)", replace="        if (nSizeRet < 0x1000u)", expect=["R13.5:reader-ladder"]),
    dict(name="writer-ladder-253", file="serialize.h", find="    if (nSize < 253)\n    {\n        ser_writedata8(os, nSize);", replace="    if (nSize <= 253)\n    {\n        ser_writedata8(os, nSize);", expect=["R13.5:writer-ladder"]),
]
