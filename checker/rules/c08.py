"""C08 - non-interactive btcdeb prints the final stack and never exits abnormally (DESIGN.md section 4, C08)."""
from .. import astq, structure as S
from ..engines import ExcEngine
from ..facts import AnalysisBroken, walk

EXPLANATION = (
    "Effect and escape analysis of btcdeb's main() on the non-interactive path. R08.1: exception-escape fixpoint over "
    "the resolved call graph (explicit throw statements in repository code incl. serialize.h/script.h/arith_uint256, "
    "minus what enclosing try handlers catch, class hierarchy resolved) - no exception type may escape main. R08.2: "
    "who may write to stdout: every direct stdout writer (printf/puts/putchar/fputs|fprintf|fwrite(...,stdout)) in the "
    "tree is classified by its guards (quiet/verbose guards exempt; writers whose every continuation is a failure are "
    "exempt), the may-write-on-success summary is propagated over the call graph, and in main every statement that can "
    "still reach the piped `return 0` must not carry it, except print_stack(raw). R08.3: in the piped branch the failing "
    "edge of ContinueScript reaches a non-zero return after a write to stderr, the other edge reaches print_stack(..., true) "
    "and return 0. R08.4: the quiet&&verbose refusal exits 1 before any transaction, script or stack argument is parsed. "
    "Not decided: equality with interactive stepping, order and lowercase hex of the printed items.")
TRUSTED = ["clang 14 parser/Sema/CFG", "/verif extractor and engines", "modelled stdio: printf/puts/putchar and f*(…, stdout) are the only stdout writers (no std::cout in the tree; checked)"]
ASSUMPTIONS = ["allocation failure is out of scope", "tinyformat format errors cannot occur because every format string is a literal (checked by R08.1b)",
               "libstdc++ calls that throw only on precondition violations (vector::at, string::substr, optional::value) are inventoried, not armed"]
DECLINED = ["equality with what interactive stepping reaches (C01/C04)", "bottom-to-top order and lowercase hex of the printed items"]

QUIET_GUARDS = {"quiet": False, "verbose": True, "btcdeb_verbose": True}
STDOUT_DIRECT = {"printf", "puts", "putchar", "vprintf"}
STDOUT_F = {"fprintf", "fputs", "fwrite", "fputc", "putc", "vfprintf"}
SOFT_TYPES = ("tinyformat::format_error",)


def is_stdout_write(n):
    if n["k"] != "call":
        return False
    nm = n.get("n")
    if nm in STDOUT_DIRECT and n.get("ext"):
        return True
    if nm in STDOUT_F and n.get("ext"):
        return any(x["k"] == "ref" and x["n"] == "stdout" for a in n["args"] if a for x in walk(a))
    return False


def quiet_guarded(func, node):
    """node only executes when output is wanted (not quiet / verbose)."""
    atoms = S.guard_atoms(func, node)
    cfg = func.cfg()
    for (c, t) in cfg.guards_of(node):
        cn = func.node_by_id(c)
        if cn is not None:
            a, neg = S.strip_not(cn)
            atoms.append((a, t != neg))
    for (a, t) in atoms:
        if a is None:
            continue
        names = {x["n"] for x in walk(a) if x["k"] in ("ref", "mem")}
        for g, pol in QUIET_GUARDS.items():
            if g in names and a.get("k") in ("ref", "mem") and t == pol:
                return g
            # count('v') style or compound conditions are not recognised on purpose
    return None


def reject_nodes(func):
    out = []
    is_main = bool(func.d.get("main")) or (func.d.get("ret") == "int" and func.file in ("btcdeb.cpp", "tap.cpp", "btcc.cpp"))
    for n in func.nodes():
        k = n["k"]
        if k == "throw":
            out.append(n)
        elif k == "return":
            v = astq.const_value(n.get("e"))
            if is_main:
                if v is not None and v != 0:
                    out.append(n)
            elif func.d.get("ret") == "bool" and v == 0:
                out.append(n)
        elif k == "call" and n.get("n") == "set_error":
            out.append(n)
        elif k == "call" and n.get("n") in ("exit", "_exit") and n["args"] and astq.const_value(n["args"][0]) not in (None, 0):
            out.append(n)
        elif k == "call" and n.get("n") in ("abort", "__assert_fail"):
            out.append(n)
    return out


def failure_only(func, node, rej=None):
    """every path from node to a normal return of func passes a rejecting exit (or never returns)"""
    cfg = func.cfg()
    rej = rej if rej is not None else reject_nodes(func)
    p = cfg.position(node)
    if p is None:
        return False
    return cfg.must_pass_after(node, rej)


def may_write_summaries(ctx):
    """func id -> (witness description) for functions that may write to stdout on a non-failing, non-quiet path"""
    fb, prog = ctx.facts, ctx.prog
    direct = {}
    inventory = []
    for f in fb.funcs.values():
        if f.body is None:
            continue
        rej = None
        for n in f.nodes():
            if is_stdout_write(n):
                ctx.site()
                g = quiet_guarded(f, n)
                if rej is None:
                    rej = reject_nodes(f)
                fo = failure_only(f, n, rej)
                inventory.append(dict(func=f.name, site=f.loc(n), guard=g, failure_only=fo))
                if g is None and not fo:
                    direct.setdefault(f.id, (f.loc(n), astq.estr(n)[:70]))
    mw = {fid: ("direct", w[0], w[1]) for fid, w in direct.items()}
    changed = True
    while changed:
        changed = False
        for f in fb.funcs.values():
            if f.id in mw or f.body is None:
                continue
            rej = None
            for n in f.nodes():
                if not astq.is_call(n) or not n.get("cid"):
                    continue
                tg = [g for g in prog.resolve(n["cid"]) if g.id in mw]
                if not tg:
                    continue
                if quiet_guarded(f, n):
                    continue
                if rej is None:
                    rej = reject_nodes(f)
                if failure_only(f, n, rej):
                    continue
                mw[f.id] = ("via", f.loc(n), tg[0].id)
                changed = True
                break
    return mw, inventory


def chain(fb, mw, fid, limit=40):
    out = []
    cur = fid
    while cur in mw and len(out) < limit:
        kind, loc, x = mw[cur]
        f = fb.funcs[cur]
        if kind == "direct":
            out.append("%s writes stdout at %s: %s" % (f.name, loc, x))
            break
        out.append("%s calls %s at %s" % (f.name, fb.funcs[x].name, loc))
        cur = x
    return out


def run(ctx, anchors=None):
    fb, prog = ctx.facts, ctx.prog
    A = anchors or {"main_file": "btcdeb.cpp", "run": "ContinueScript", "print": "print_stack"}
    from . import common
    entry = common.main_of(fb, A["main_file"])
    # ---- R08.5 the verdict of a run is the boolean the stepping functions return (a finished session is not a successful one:
    # the end-of-script checks fail *and* finish it): no call of ContinueScript / StepScript(session) / Instance::step may
    # discard its result
    ctx.rule("R08.5", "the result of ContinueScript / the session stepper / Instance::step is used at every call site")
    status_fns = {}
    for f_ in fb.funcs.values():
        if f_.body is not None and f_.d.get("ret") == "bool" and ((f_.name in ("ContinueScript", "Instance::step")) or (f_.name == "StepScript" and f_.file.startswith("debugger/"))):
            status_fns[f_.id] = f_
    ndisc = 0
    discarded = []
    for f_ in fb.funcs.values():
        if f_.body is None or f_.file.startswith("test/"):
            continue
        for n_ in f_.nodes():
            if astq.is_call(n_) and n_.get("cid") in status_fns:
                ndisc += 1
                par = f_.parent(n_)
                while par is not None and par.get("k") in ("cast", "paren", "opaque"):
                    par = f_.parent(par)
                used = par is not None and par.get("k") not in ("block", "compound", "for", "while", "do", "switch", "case", "default", "try") or \
                    (par is not None and par.get("k") in ("if", "while", "for", "do") and S.contains(par.get("cond"), n_))
                ctx.site()
                key = "status-used:%s@%s" % (status_fns[n_["cid"]].name, f_.name)
                ctx.inst(used, "R08.5", key, f_.loc(n_), "the result of %s decides what %s does next" % (status_fns[n_["cid"]].name, f_.name),
                         "%s calls %s and drops its result: whether the script failed is then read from somewhere else (a session that failed its end-of-script check is `done` as well)" % (f_.name, status_fns[n_["cid"]].name))
                if not used:
                    discarded.append(n_)
    ctx.floor("R08.5", ndisc, 3, "call sites of the stepping functions")
    try:
        runfn = common.func_calling(fb, A["main_file"], A["run"])    # the function that runs the script to completion
    except AnalysisBroken:
        if discarded:
            return      # the driver no longer branches on the run: reported above; the rules below have nothing to anchor on
        raise
    # the driver: the function of this file with the option handling, from which runfn is reached (main itself, a worker main
    # delegates to, or the caller of a small helper that holds the non-interactive branch): the largest such function
    cands = [runfn]
    for g in fb.funcs.values():
        if g.file == A["main_file"] and g.body is not None and g is not runfn and runfn.id in prog.reachable([g]):
            cands.append(g)
    main = max(cands, key=lambda g: len(g.nodes()))
    cfg = main.cfg()
    common.require_names(main, ["quiet", "verbose", "pipe_in", "pipe_out"], "R08")
    ctx.rule("R08.1", "no exception type escapes btcdeb's main() (explicit throws, minus enclosing handlers)")
    ctx.rule("R08.1b", "every tinyformat format string is a literal (so format errors cannot occur)")
    ctx.rule("R08.2", "on the piped success path stdout receives print_stack(raw) and nothing else")
    ctx.rule("R08.3", "piped branch: failure -> stderr message and non-zero exit; success -> print_stack(stack, raw=true) and exit 0")
    ctx.rule("R08.4", "quiet && verbose is refused with exit status 1 before any transaction, script or stack argument is parsed")

    # ---- the piped branch
    def piped(fn, n):
        pg = False
        for (c, t) in S.ast_guards(fn, n):
            names = {x["n"] for x in walk(astq.expand(fn, c, keep=("pipe_in", "pipe_out")))if x["k"] == "ref"}
            if t and names & {"pipe_in", "pipe_out"}:
                pg = True
        return pg
    rcfg = runfn.cfg()
    runs = [n for n in runfn.nodes() if n["k"] == "call" and n.get("n") == A["run"]]
    if len(runs) != 1:
        raise AnalysisBroken("R08: expected one call of %s in %s, found %d" % (A["run"], runfn.name, len(runs)))
    runc = runs[0]
    ret0 = [n for n in runfn.nodes() if n["k"] == "return" and astq.const_value(n.get("e")) == 0 and (runfn is not main or piped(runfn, n))]
    # the success exit: the `return 0` that the succeeding edge of the run reaches
    ok_edge = [s_ for (a_, s_, c_, t_) in rcfg.cond_edges() if c_ == runc["id"] and t_]
    if ok_edge:
        reach_ok = rcfg.reachable_from(ok_edge[0])
        on_ok = [n for n in ret0 if rcfg.position(n) and rcfg.position(n)[0] in reach_ok]
        if on_ok:
            ret0 = on_ok
    if len(ret0) != 1:
        raise AnalysisBroken("R08: piped success `return 0` of %s not found (found %d)" % (runfn.name, len(ret0)))
    ret0 = ret0[0]
    # when the branch lives in a helper, the driver must hand its exit status on: `return helper(...)` under the piped guard
    ret0_main = ret0
    if runfn is not main:
        sites = [n for n in main.nodes() if astq.is_call(n) and n.get("cid") and any(g is runfn or runfn.id in prog.reachable([g]) for g in prog.resolve(n["cid"]) if g.file == A["main_file"])]
        rets = [r for r in main.nodes() if r["k"] == "return" and any(S.contains(r, c_) for c_ in sites)]
        ctx.site()
        ctx.inst(len(sites) == 1 and len(rets) == 1 and piped(main, rets[0]), "R08.3", "helper-status-returned", main.loc(sites[0]) if sites else main.loc(),
                 "the exit status of %s is returned by the driver, under the not-a-terminal condition" % runfn.name,
                 "%s runs the piped branch but the driver does not `return` its status under the not-a-terminal condition" % runfn.name)
        if len(rets) != 1:
            raise AnalysisBroken("R08: the driver does not return the status of %s" % runfn.name)
        ret0_main = rets[0]

    # ---- R08.1
    exc = ExcEngine(prog)
    esc = exc.escaping(entry)
    hard = {t: w for t, w in esc.items() if t not in SOFT_TYPES and w[0] != "libcall" and not _soft_chain(exc, entry, t)}
    soft = sorted(set(esc) - set(hard))
    ctx.site(len(main.nodes()))
    if hard:
        # which part of main lets it escape: report per call site region
        regions = {}
        for t in sorted(hard):
            ch = exc.chain(entry, t)
            regions.setdefault(_region(entry, ch), []).append((t, ch))
        for reg, lst in sorted(regions.items()):
            t, ch = lst[0]
            ctx.fail("R08.1", "escape:main@btcdeb.cpp:" + reg, ch[0].split(" at ")[-1] if ch else main.loc(),
                     "exception %s can leave main() uncaught (terminate/abort): %s" % ("/".join(x[0] for x in lst), " -> ".join(ch[:7])),
                     detail={"types": [x[0] for x in lst], "chains": {x[0]: x[1] for x in lst}})
    else:
        ctx.ok("R08.1", "escape:main@btcdeb.cpp", entry.loc(), "no explicit throw can leave main() uncaught")
    # the run call specifically
    esc_run = {t: w for t, w in exc.escaping(runfn, _enclosing_stmt(runfn, runc)).items()}
    ctx.extra["soft_exception_inventory"] = soft
    # is the run call inside a try that catches std::exception or ...?
    in_try = [a for a in runfn.ancestors(runc) if a.get("k") == "try" and S.contains(a["body"], runc)]
    ctx.extra["run_call_in_try"] = bool(in_try)

    # ---- R08.1b literal format strings
    nfmt = 0
    for f in fb.funcs.values():
        if f.file == "tinyformat.h":
            continue
        for n in f.nodes():
            if n["k"] == "call" and (n.get("callee") or "").startswith("tinyformat::format") and n["args"]:
                nfmt += 1
                a0 = n["args"][0]
                lit = a0.get("k") == "str" or (a0.get("k") == "ctor" and a0["args"] and a0["args"][0].get("k") == "str")
                if not lit:
                    ctx.fail("R08.1b", "nonliteral-format@" + f.name, f.loc(n), "tinyformat::format called with a non-literal format string: %s" % astq.estr(a0)[:60])
    ctx.ok("R08.1b", "literal-formats", "tinyformat.h:0", "%d tinyformat::format calls outside tinyformat.h all have literal format strings" % nfmt) if nfmt else None
    ctx.site(nfmt)

    # ---- R08.2
    mw, inventory = may_write_summaries(ctx)
    ctx.extra["stdout_writer_inventory"] = inventory
    ctx.floor("R08.2", len(inventory), 20, "direct stdout writers classified in the tree")
    allowed = 0

    def scan(fn, fcfg, retnode):
        nonlocal allowed
        rp = fcfg.position(retnode)
        rej = reject_nodes(fn)
        for n in fn.nodes():
            if retnode is not ret0 and S.contains(retnode, n):
                continue      # the hand-over to the helper itself; the helper is scanned on its own
            writes = None
            if is_stdout_write(n):
                writes = ["%s writes stdout at %s: %s" % (fn.name, fn.loc(n), astq.estr(n)[:70])]
            elif astq.is_call(n) and n.get("cid"):
                tg = [g for g in prog.resolve(n["cid"]) if g.id in mw]
                if tg:
                    writes = ["%s calls %s at %s" % (fn.name, tg[0].name, fn.loc(n))] + chain(fb, mw, tg[0].id)
            if not writes:
                continue
            ctx.site()
            p = fcfg.position(n)
            if p is None or p[0] not in fcfg.reachable_blocks():
                continue
            # can this statement be followed by the piped `return 0`?
            if not (rp[0] in fcfg.reachable_from(p[0])):
                continue
            if quiet_guarded(fn, n):
                continue
            if failure_only(fn, n, rej):
                continue
            if n.get("n") == A["print"] and len(n["args"]) >= 2 and astq.const_value(n["args"][1]) == 1:
                allowed += 1
                ctx.ok("R08.2", "final-stack-print", fn.loc(n), "print_stack(<stack>, raw=true) is the permitted stdout writer on the piped success path")
                continue
            last = writes[-1]
            culprit = last.split(" writes stdout")[0] if " writes stdout" in last else (n.get("callee") or "main")
            ctx.fail("R08.2", "stdout-on-success-path:" + culprit, fn.loc(n),
                     "stdout can receive more than the final stack on the non-interactive success path: " + " -> ".join(writes),
                     detail={"chain": writes})
    scan(main, cfg, ret0_main)
    if runfn is not main:
        scan(runfn, rcfg, ret0)
    if allowed != 1:
        ctx.fail("R08.2", "final-stack-print", runfn.loc(ret0), "expected exactly one print_stack(raw=true) before the piped return 0, found %d" % allowed)

    # ---- R08.3
    fail_succ = ok_succ = None
    for (a, s, c, t) in rcfg.cond_edges():
        if c == runc["id"]:
            if t:
                ok_succ = s
            else:
                fail_succ = s
    if fail_succ is None or ok_succ is None:
        raise AnalysisBroken("R08.3: result of %s is not branched on" % A["run"])
    nz = [n for n in runfn.nodes() if n["k"] == "return" and astq.const_value(n.get("e")) not in (None, 0)]
    errw = [n for n in runfn.nodes() if n["k"] == "call" and n.get("n") in ("fprintf", "fputs") and
            any(x["k"] == "ref" and x["n"] == "stderr" for a in n["args"] if a for x in walk(a))]
    ctx.inst(rcfg.must_pass_from_block(fail_succ, nz), "R08.3", "failure->nonzero-exit", runfn.loc(runc),
             "every path from the failing edge of ContinueScript returns a non-zero constant",
             "after ContinueScript fails main can still return 0")
    ctx.inst(rcfg.must_pass_from_block(fail_succ, errw), "R08.3", "failure->stderr-message", runfn.loc(runc),
             "the failing edge writes the script error to stderr")
    pr = [n for n in runfn.nodes() if n["k"] == "call" and n.get("n") == A["print"] and len(n["args"]) >= 2 and astq.const_value(n["args"][1]) == 1]
    okp = bool(pr) and rcfg.must_pass_from_block(ok_succ, pr) and rcfg.must_pass_from_block(ok_succ, [ret0]) \
        and not any(rcfg.position(x)[0] in rcfg.reachable_from(ok_succ) for x in nz if rcfg.position(x))
    ctx.inst(okp, "R08.3", "success->print_stack(raw)+exit0", runfn.loc(ret0),
             "the succeeding edge always prints the raw stack and returns 0")
    if pr:
        arg0 = astq.estr(pr[0]["args"][0])
        ctx.inst(arg0.endswith("stack") and "alt" not in arg0 and "p2sh" not in arg0, "R08.3", "prints-the-main-stack", runfn.loc(pr[0]),
                 "the printed container is the session's main stack (%s)" % arg0)

    # ---- R08.4
    refusal = None
    for n in main.nodes():
        if n["k"] == "call" and n.get("n") == "exit" and n["args"] and astq.const_value(n["args"][0]) == 1:
            gs = S.ast_guards(main, n)
            # the two conjuncts quiet, verbose (as one `&&` condition or as nested ifs) and nothing else
            tg = [(c, {x["n"] for x in walk(c) if x["k"] == "ref"}) for (c, t) in gs if t]
            if len(tg) == 2 and sorted(next(iter(nm)) if len(nm) == 1 else "?" for (c, nm) in tg) == ["quiet", "verbose"] and not [1 for (c, t) in gs if not t]:
                refusal = (n, tg[0][0])
    if refusal is None:
        ctx.fail("R08.4", "quiet&&verbose->exit(1)", main.loc(), "main no longer refuses quiet && verbose with exit(1)")
    else:
        rn, rc = refusal
        ctx.ok("R08.4", "quiet&&verbose->exit(1)", main.loc(rn), "quiet && verbose exits with status 1")
        parses = [n for n in main.nodes() if n["k"] == "mcall" and n.get("n") in ("parse_transaction", "parse_input_transaction", "parse_script", "parse_stack_args", "parse_pretend_valid_expr", "configure_tx_txin")]
        ctx.floor("R08.4", len(parses), 5, "argument-parsing calls in main")
        cond_node = rc
        late = [p for p in parses if not cfg.dominates(cond_node, p)]
        ctx.inst(not late, "R08.4", "refusal-dominates-parsing", main.loc(rn),
                 "the quiet&&verbose test dominates all %d transaction/script/stack parsing calls" % len(parses),
                 "%s at %s can run before the quiet&&verbose refusal" % (late[0].get("n") if late else "", main.loc(late[0]) if late else ""))
        # quiet is forced by pipe_in || pipe_out
        qdefs = [n for n in main.nodes() if n["k"] == "assign" and astq.estr(n["lhs"]) == "quiet"]
        qrhs = astq.expand(main, qdefs[0]["rhs"], keep=("quiet", "verbose", "pipe_in", "pipe_out")) if qdefs else None
        okq = len(qdefs) == 1 and {"pipe_in", "pipe_out"} <= {x["n"] for x in walk(qrhs) if x["k"] == "ref"} \
            and all(d.get("k") != "bin" or d.get("op") != "&&" for d in [qrhs])
        ctx.inst(okq and len(S.disjuncts(qrhs)) >= 3 if qdefs else False, "R08.4", "quiet-forced-when-piped", main.loc(qdefs[0]) if qdefs else main.loc(),
                 "quiet is defined as a disjunction containing pipe_in and pipe_out",
                 "quiet is no longer forced on when stdin or stdout is not a terminal")

    # ---- R08.6 "the script given on stdin" is all of stdin: a read into a fixed-size array whose content becomes the script must
    # be repeated until end of input (a single fgets silently cuts the script at the buffer size and at the first newline)
    ctx.rule("R08.6", "the script is read from stdin completely (no single fixed-size read)")
    nrd = 0
    # the reader may live in main or in a helper of the driver's file
    for (rf, n) in [(f_, n_) for f_ in fb.funcs.values() if f_.file == A["main_file"] and f_.body is not None for n_ in f_.nodes()]:
        if not (astq.is_call(n) and n.get("n") in ("fgets", "fread", "read", "getline") and any(x["k"] == "ref" and x.get("n") == "stdin" for a in n.get("args", []) if a for x in walk(a))):
            continue
        dst = n["args"][0] if n.get("args") else None
        while dst is not None and dst.get("k") in ("cast", "paren"):
            dst = dst["e"]
        if dst is None or dst.get("k") != "ref":
            continue
        # does the array's content become the script (handed to strdup / parse_script / appended to a string)?
        feeds = [m for m in rf.nodes() if m["k"] in ("call", "mcall") and m.get("n") in ("strdup", "parse_script") and any(x["k"] == "ref" and x.get("d") == dst.get("d") for a in m.get("args", []) if a for x in walk(a))]
        appended = [m for m in rf.nodes() if m["k"] == "opcall" and m.get("op") in ("+=",) and any(x["k"] == "ref" and x.get("d") == dst.get("d") for a in m.get("args", [])[1:] if a for x in walk(a))]
        if not feeds and not appended:
            continue
        nrd += 1
        ctx.site()
        looped = any(a.get("k") in ("while", "for", "do") for a in rf.ancestors(n))
        ctx.inst(looped, "R08.6", "stdin-read-to-the-end@%s" % rf.name, rf.loc(n), "the read from stdin is repeated until end of input",
                 "%s reads the script with a single %s into a fixed-size array: a script text of more than %s characters (a 15-of-15 multisig already is) is cut and reported as invalid, "
                 "and everything after the first newline is dropped" % (rf.name, n.get("n"), astq.estr(n["args"][1]) if len(n.get("args", [])) > 1 else "?"))
    ctx.floor("R08.6", nrd, 1, "reads of the script from stdin")

    # ---- R08.7 "non-interactive" means: stdin or stdout is not a terminal. The two mode flags are what the reader, the logger and
    # the final branch consult; each is assigned from isatty() of its stream and by nothing else (a later `pipe_in = false` for a
    # convenience case makes the final branch go interactive although stdin is not a terminal).
    ctx.rule("R08.7", "the mode flags pipe_in / pipe_out are assigned only from isatty() of their stream")
    nmode = 0
    for f in sorted(fb.funcs.values(), key=lambda f_: f_.id):
        if f.body is None or f.file not in ("btcdeb.cpp", "functions.cpp", "functions.h", "instance.cpp", "instance.h"):
            continue
        for n in f.nodes():
            tgt = n["lhs"] if n["k"] in ("assign", "cassign") else (n["e"] if n["k"] == "un" and n.get("op") in ("++", "--", "&") else None)
            while tgt is not None and tgt.get("k") in ("cast", "paren"):
                tgt = tgt["e"]
            if tgt is None or tgt.get("k") != "ref" or tgt.get("dk") != "global" or tgt.get("n") not in ("pipe_in", "pipe_out"):
                continue
            nmode += 1
            ctx.site()
            want = "stdin" if tgt["n"] == "pipe_in" else "stdout"
            rhs = astq.expand(f, n.get("rhs")) if n["k"] == "assign" else None      # `const bool tty = isatty(..); pipe_in = !tty` is the same
            okm = rhs is not None and any(x["k"] == "call" and x.get("n") == "isatty" and any(y["k"] == "ref" and y.get("n") == want for y in walk(x)) for x in walk(rhs))
            ctx.inst(okm, "R08.7", "mode-flag-from-isatty:%s@%s" % (tgt["n"], f.name), f.loc(n), "%s is set from isatty(%s)" % (tgt["n"], want),
                     "`%s` in %s changes %s without consulting isatty(%s): the reader, the logger and the final interactive / non-interactive branch no longer agree on the mode (a run whose stdin is not a terminal can end at a prompt)"
                     % (astq.estr(n)[:60], f.name, tgt["n"], want))
    ctx.floor("R08.7", nmode, 2, "assignments of the mode flags")

    # ---- R08.8 a failure is reported on stderr in non-interactive mode too: `btc_logf` is replaced by a dummy as soon as stdin or
    # stdout is not a terminal, so a handler of the tools' mains that ends the run with a non-zero status writes its diagnostic
    # to stderr itself (fprintf(stderr, ..) / fputs / std::cerr), not only through the logger.
    ctx.rule("R08.8", "the top-level exception handlers of btcdeb's main report on stderr directly (the logger is silenced when piped)")
    nh = 0
    tries8 = []
    for t_ in ([main.body] if main.body.get("k") == "try" else []) + [n for n in main.nodes() if n["k"] == "try"]:
        if all(t_ is not x_ for x_ in tries8):
            tries8.append(t_)
    for ti_, t_ in enumerate(tries8):
        for hi_, h in enumerate(t_.get("handlers", []) or []):
            hb = h.get("body") if isinstance(h, dict) and h.get("body") is not None else h
            rets = [x for x in walk(hb) if x["k"] == "return" and x.get("e") is not None and astq.const_value(x["e"]) not in (0, None)]
            if not rets:
                continue      # a handler that recovers (or rethrows) is not an exit path
            nh += 1
            ctx.site()
            direct = any((x["k"] == "call" and x.get("n") in ("fprintf", "fputs", "perror") and any(y["k"] == "ref" and y.get("n") == "stderr" for y in walk(x))) or
                         (x["k"] == "ref" and x.get("n") == "cerr") for x in walk(hb))
            ctx.inst(direct, "R08.8", "handler-reports-on-stderr@%s:try%d.%d" % (main.name, ti_, hi_), main.loc(rets[0]),
                     "the handler writes its diagnostic to stderr before returning %s" % astq.const_value(rets[0]["e"]),
                     "a handler of %s returns %s without writing to stderr itself (it reports through btc_logf at most, which is a dummy when stdin or stdout is not a terminal): a script failing with an exception "
                     "(script number overflow, non-minimal number) exits non-zero with no diagnostic in non-interactive mode" % (main.name, astq.const_value(rets[0]["e"])))
    ctx.floor("R08.8", nh, 1, "exception handlers of the driver that end the run with a failure status")


def _enclosing_stmt(func, n):
    cur = n
    for a in func.ancestors(n):
        if a.get("k") == "block":
            return cur
        cur = a
    return cur


def _soft_chain(exc, main, t):
    """the witness chain of type t ends in a modelled library call (precondition violation), not an explicit throw"""
    ch = exc.chain(main, t, limit=40)
    return bool(ch) and "may throw" in ch[-1]


def _region(main, ch):
    """name of the function main calls first on the witness chain (stable across line changes)"""
    if not ch:
        return "?"
    first = ch[0]
    if " calls " in first:
        return first.split(" calls ")[1].split(" at ")[0]
    return "main"


MUTANTS = [
    dict(name="top-level-handler-reports-through-the-logger", file="btcdeb.cpp", find="} catch (const std::exception& ex) {\n    fprintf(stderr, \"error: exception thrown: %s\\n\", ex.what());\n    return 1;", replace="} catch (const std::exception& ex) {\n    btc_logf(\"error: exception thrown: %s\\n\", ex.what());\n    return 1;", expect=["R08.8:handler-reports-on-stderr"]),
    dict(name="mode-flag-cleared-for-empty-stdin", file="btcdeb.cpp", find="        if (input.empty()) fprintf(stderr, \"warning: no input\\n\");", replace="        if (input.empty() && ca.l.size() > 0) pipe_in = false;\n        if (input.empty()) fprintf(stderr, \"warning: no input\\n\");", expect=["R08.7:mode-flag-from-isatty:pipe_in@main"]),
    dict(name="stdin-script-single-read", file="btcdeb.cpp", find="        while (fgets(buf, 1024, stdin)) input += buf;", replace="        if (fgets(buf, 1024, stdin)) input += buf;", expect=["R08.6:stdin-read-to-the-end"]),
    dict(name="verdict-from-done-flag", file="btcdeb.cpp", find="        if (!ContinueScript(*env)) {", replace="        ContinueScript(*env);\n        if (!instance.at_end()) {", expect=["R08.5:status-used:ContinueScript@main"]),
    dict(name="main-catches-too-little", file="btcdeb.cpp",
         find="} catch (const std::exception& ex) {\n    fprintf(stderr, \"error: exception thrown", replace="} catch (const std::bad_alloc& ex) {\n    fprintf(stderr, \"error: exception thrown",
         expect=["R08.1:escape:main@btcdeb.cpp"]),
    dict(name="banner-on-success-path", file="btcdeb.cpp", find="        print_stack(env->stack, true);\n        return 0;",
         replace="        printf(\"final stack:\\n\");\n        print_stack(env->stack, true);\n        return 0;", expect=["R08.2:stdout-on-success-path"]),
    dict(name="sighash-dump-back-to-stdout", file="hash.h", find="fprintf(stderr, \"#%03zu \", size);", replace="printf(\"#%03zu \", size);",
         expect=["R08.2:stdout-on-success-path:HashWriter::write"]),
    dict(name="exit-0-on-script-failure", file="btcdeb.cpp", find="            print_dualstack();\n            return 1;", replace="            print_dualstack();\n            return 0;",
         expect=["R08.3:failure->nonzero-exit"]),
    dict(name="pretty-stack-instead-of-raw", file="btcdeb.cpp", find="print_stack(env->stack, true);", replace="print_stack(env->stack, false);",
         expect=["R08.2:final-stack-print", "R08.3:success->print_stack"]),
    dict(name="prints-altstack", file="btcdeb.cpp", find="print_stack(env->stack, true);", replace="print_stack(env->altstack, true);",
         expect=["R08.3:prints-the-main-stack"]),
    dict(name="verbose-accepted-when-piped", file="btcdeb.cpp", find="quiet = ca.m.count('q') || pipe_in || pipe_out;", replace="quiet = ca.m.count('q');",
         expect=["R08.4:quiet-forced-when-piped", "R08.2"]),
    dict(name="refusal-exits-0", file="btcdeb.cpp", find="You cannot both require silence and verbosity.\\n\");\n        exit(1);", replace="You cannot both require silence and verbosity.\\n\");\n        exit(0);",
         expect=["R08.4:quiet&&verbose->exit(1)"]),
    dict(name="stderr-hint-to-stdout-in-step", file="script/interpreter.cpp", find="                    if (stack.size() < 1)\n                        return set_error(serror, SCRIPT_ERR_INVALID_STACK_OPERATION);\n                    if ((flags & SCRIPT_VERIFY_NULLDUMMY)",
         replace="                    printf(\"checking dummy\\n\");\n                    if (stack.size() < 1)\n                        return set_error(serror, SCRIPT_ERR_INVALID_STACK_OPERATION);\n                    if ((flags & SCRIPT_VERIFY_NULLDUMMY)",
         expect=["R08.2:stdout-on-success-path:StepScript"]),
]
